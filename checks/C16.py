"""C16 - path policy languages mean what their specification says.

Specification: spec/PathPolicy/PathPolicy.tla
  P-layer  HopMatches (0 = wildcard of the predicate's ISD / AS / interface; #x either side, #x,y both),
           AclAllows (for EVERY hop the first matching entry is an allow entry, the default deciding when
           none matches - vacuously true for the empty hop sequence), InLang / PatAllows (regular
           language by structural recursion: predicate, |, ?, +, *, series), PatParse (documented concrete
           syntax: series of expressions, postfix operators bind tighter than |, | associates to the left,
           parentheses hold one expression), ShowPat (printer).
  I-layer  AclCode (acl.rs: early return of the default for an empty path or an empty ACL), MatchFrom /
           AllNested / PatCode (hop_pattern.rs: position sets, fixpoint for + and *).

Pipeline
  1. TLC exhaustive (MC_PathPolicy), five tables: every predicate shape x hop of a small domain; every
     interface list of length <= 5 (thorough 6) over 2 ASes x 2 interface ids (hop extraction); every
     ACL with <= 3 entries over 4 predicates x every hop sequence up to length 3 (thorough 5) over 3 hops;
     every pattern (single expression of nesting depth <= 2, series of two expressions of depth <= 1,
     series of three predicates) x every hop sequence up to length 3, depth <= 1 up to length 4 (thorough: depth 2
     up to length 5, depth 3 over 2 predicates up to length 4); every
     token string of length <= 5 (thorough 6).  TLC checks PatCode == PatAllows, AclCode == AclAllows except
     the documented empty-path deviation, print->parse round trips, and prints the expected verdicts.
     Oracle self-checks: a matcher without fixpoint, an alternation that commits to its left arm, and
     the strict ACL statement must all be violated.
  2. replay on the real code: predicates/ACLs through constructors AND parsers, patterns through the
     parser from four printed forms (minimal parentheses, every operand parenthesised, everything
     parenthesised with random white space, colon-hex AS numbers); hops as PathPolicyHop values, through
     Policy::matches and, where the sequence is shaped like a path, as ScionPath with interface metadata
     through PathPolicy::path_allowed.  P-monitors: verdict == specification, predicate print->parse
     round trip, printed variants agree, accepted token strings are in the documented syntax (and the
     other way round), no panic (parser, matcher, ParseError::report), every case under a watchdog.
  4. text form of hop predicates: see predicate_text().
  3. record: seeded random deeper patterns (depth <= 5, thorough 8; series of <= 3; hop sequences <= 12),
     random ACLs with <= 6 entries, random token strings (<= 12 tokens, including the unsupported ! and &),
     random sets of weighted policies {acl?, pattern?} (WeightedPolicies::match_highest) with the real verdicts, validated
     line by line by TLC (Trace_PathPolicy); random character strings for totality of the three parsers.

Open finding AclEmptyPath:default-deny: AclPolicy::matches(&[]) returns the default action, so a deny-default
ACL denies the empty hop sequence although no hop is denied (the statement over all hops is vacuously true).  The
repository's OWN unit test pins this behaviour (acl.rs, should_make_correct_decision: `expect_decision("-", false,
&[])  // default deny`), so a repair would have to edit that test; it is therefore recorded as an open finding under
this one narrow key (only the empty hop sequence with a deny default; every other ACL verdict difference is
`Acl:verdict` and fails the check).

Reading adopted (demands less)
  * a 0 in a HOP's ISD or AS is not exercised (the code lets it match everything; the documentation only
    defines the predicate's 0); hop interface 0 = "none" (first hop ingress / last hop egress).
  * "hop predicates survive printing and re-parsing": the re-parsed predicate equals the original, where a
    predicate without AS and one with the AS wildcard count as the same predicate (`1` == `1-0`).
  * error messages / spans are not compared; a rejected string is a violation only if it is in the
    documented syntax of step 1's grammar (series inside parentheses, !, & are not).
  * termination: a policy whose parse + matches do not finish within the 20 s watchdog is reported as DRIFT
    (inconclusive), never as a violation: slow is not non-terminating.
  * "without panicking" includes not killing the process: patterns nested 5000-50000 deep (15-50 KB of text)
    are parsed, matched and dropped in a child process on a 2 MiB thread stack.
"""
import json
import os

from vcommon import read_ndjson, write_ndjson

SD = "PathPolicy"

MC_TMPL = """SPECIFICATION MCSpec
CONSTANTS
  NONE = 1000000
  BROKEN = "{broken}"
  KIND = "{kind}"
  DEPTH = {depth}
  WLEN = {wlen}
  NACL = {nacl}
  TLEN = {tlen}
  NPRED = {npred}
  ILEN = {ilen}
  GEN = {gen}
  CHUNK = {chunk}
INVARIANTS {invs}
"""
INVS = "PatConform PatRoundTrip AclConform TokRoundTrip Emit EmitMeta"


def cfg(c, name, **kw):
    d = dict(broken="", kind="pattern", depth=1, wlen=3, nacl=2, tlen=3, npred=4, ilen=3, gen="FALSE", chunk=32, invs=INVS)
    d.update(kw)
    p = os.path.join(c.work, name)
    open(p, "w").write(MC_TMPL.format(**d))
    return p


def pv_report(c, pvs, label):
    for pv in pvs:
        if pv["key"].startswith("Timeout:"):
            c.drift("%s: %s (inconclusive, not a violation)" % (label, pv["what"]))
            continue
        c.violation(pv["key"], "%s [%s]" % (pv["what"], label), pv.get("replay"))


PRED_TYPES = ["HopPred", "IfPred"]
AT_TMPL = """SPECIFICATION MCSpec
CONSTANTS
  FIXED = TRUE
  FIXTXT = TRUE
  MODE = "mc"
  K_EDITS = {k}
  MAXLEN = 40
  SEEDSEL = {{"pred", "empty"}}
  TSEL = {{"HopPred", "IfPred"}}
  GEN = TRUE
INVARIANTS NoPanic Sound Complete Emit
"""


def predicate_text(c, thorough):
    """Text form of hop predicates (ISD[-AS[#IF[,IF]]]) and interface predicates, bound with the token-level
    machinery of spec/AddrText (types HopPred / IfPred: documented grammar G, transcription I of
    HopPredicate::from_str / InterfacesPredicate::from_str): TLC enumerates every token string within 1
    (thorough 2) edits of the displayed forms and every string of <= 1 (2) tokens, replay on the real parsers, displayed forms of boundary and random
    predicates parse back, single-character edits and short strings are judged by Trace_AddrText."""
    from vcommon import read_ndjson as rd
    b = c.cargo_build("vh-sciparse", bin="addrtext")
    env = {"VERIF_TYPES": ",".join(PRED_TYPES)}
    p = os.path.join(c.work, "mc_pred.cfg")
    open(p, "w").write(AT_TMPL.format(k=2 if thorough else 1))
    r = c.tlc("AddrText", "MC_AddrText", cfg=p, timeout=9000, coverage=False, xmx="10g")
    for inv in r.violated:
        c.violation("spec:pred:%s" % inv, "design-level: the transcription of the predicate parsers violates %s; see %s" % (inv, r.out_path), {"tlc_out": r.out_path})
    cases = {tuple(cs["s"]): cs for cs in c.printed_json(r, "CASE")}
    if not cases:
        c.fail_tool("predicate text generation printed no cases")
    rows = [{"ev": "meta", "variants": 6 if thorough else 3, "sample_every": 40}]
    for cs in cases.values():
        rows.append({"s": cs["s"], "g": cs["g"] if isinstance(cs["g"], dict) else {}, "i": cs["i"] if isinstance(cs["i"], dict) else {}})
    if not any("HopPred" in r_["g"] for r_ in rows[1:]) or not any("IfPred" in r_["g"] for r_ in rows[1:]):
        c.fail_tool("vacuous generation: no enumerated string is a hop predicate")
    inp = os.path.join(c.work, "pred_cases.ndjson")
    write_ndjson(inp, rows)
    outp, tr1 = os.path.join(c.work, "pred_replay.json"), os.path.join(c.work, "pred_replay_trace.ndjson")
    rc, so = c.sh([b, "replay", inp, outp, tr1], timeout=9000, env=env)
    if rc != 0:
        c.fail_tool("predicate text replay failed rc=%s %s" % (rc, so[-300:]))
    res = json.load(open(outp))
    c.cov["replayed"] += res["strings"]
    c.cov["evaluations"] += res["parses"]
    c.cov["predicate_text_replay"] = {k: res[k] for k in ("cases", "strings", "parses", "agree", "disagree", "relex_mismatch", "accepted_by_type")}
    outp2, tr2 = os.path.join(c.work, "pred_record.json"), os.path.join(c.work, "pred_record_trace.ndjson")
    rc, so = c.sh([b, "record", tr2, outp2], timeout=9000, env=dict(env, VERIF_EDITS=40000 if thorough else 4000, VERIF_SHORTN=5000 if thorough else 300))
    if rc != 0:
        c.fail_tool("predicate text record failed rc=%s %s" % (rc, so[-300:]))
    res2 = json.load(open(outp2))
    c.cov["predicate_text_record"] = {k: res2[k] for k in ("lines", "shown", "edits", "shorts", "accepted", "panics")}
    for pv in res2["pv"]:
        c.violation("PredText:" + pv["key"], pv["what"], {"text": pv["text"], "T": pv["T"], "kind": "RoundTrip"})
    allp = os.path.join(c.work, "pred_traces.ndjson")
    lines = [{"ev": "meta"}] + rd(tr1)[1:] + rd(tr2)[1:]
    sides = [{"ev": "meta"}] + rd(tr1 + ".side")[1:] + rd(tr2 + ".side")[1:]
    write_ndjson(allp, lines)
    n = len(lines) - 1
    c.cov["evaluations"] += sum(len(l["chk"]) for l in lines[1:])
    r = c.tlc("AddrText", "Trace_AddrText", mode="mc", env={"TRACE": allp}, timeout=9000, coverage=False, xmx="8g")
    if not r.ok or r.distinct != 1 + (n + 127) // 128 + n:
        c.fail_tool("predicate text trace validation did not visit every line: %s" % r.out_path)
    c.cov["traces_validated_against_impl"] += n
    for x in c.printed_json(r, "PV"):
        text = sides[x["l"] - 1]["text"]
        what = {"Panic": "%s::from_str panics on %r", "Unsound": "%s::from_str accepts %r, which is not a documented predicate text",
                "Value": "%s::from_str accepts %r with another value than the documented one"}[x["kind"]] % (x["T"], text)
        c.violation("PredText:%s:%s:%s" % (x["kind"], x["T"], x["sig"]), what, {"text": text, "T": x["T"], "kind": x["kind"]}, group="PredText:%s" % x["kind"])
    for x in c.printed_json(r, "DRIFT") + c.printed_json(r, "SHOWDRIFT"):
        c.drift("predicate text: %s on %r: I-layer / grammar differs from the real outcome (%s)" % (x["T"], sides[x["l"] - 1]["text"], x.get("kind", "displayed form not in the grammar")))


def replay_one(c, binp):
    obj = json.load(open(c.replay))
    rp = obj.get("replay") or {}
    print(json.dumps(rp, indent=1)[:3000])
    text = rp.get("text") or rp.get("pattern_text") or (rp.get("policy") or {}).get("pattern_text") or rp.get("acl_text")
    if text is not None:
        rc, so = c.sh([binp, "one", text])
        print(so)
    if rp.get("kind") == "deep":
        rc, so = c.sh([binp, "deep", rp["shape"], str(rp["depth"])])
        print("rc=%s %s" % (rc, so[-300:]))
        if rc < 0 or rc >= 128:
            c.violation("Crash:nesting:%s" % rp["shape"], "process killed (rc=%s)" % rc, rp)
    c.cov["replayed"] = c.cov["evaluations"] = 1
    c.cov["distinct_nontrivial"] = 1
    c.sample(rp)


def run(c):
    thorough = c.tier == "thorough"
    binp = c.cargo_build("vh-sciparse", bin="pathpolicy")
    if c.replay:
        return replay_one(c, binp)
    c.assumptions += [
        "hop alphabet of the exhaustive tables: (1-10 in 0 eg 1), (1-20 in 1 eg 2), (2-10 in 2 eg 0); predicate alphabet: 0, 1-20, 0-0#2, 1-0#0,1",
        "patterns can only be built through the parser (the expression type is private); the harness's printer mirrors ShowPat of the specification",
        "TLC, CommunityModules Json/IOUtils/SequencesExt",
    ]
    c.cov["rule"] = ("evaluation = one (policy, hop sequence) verdict of the real code compared with the specification; "
                     "non-trivial = policy with at least one operator / entry, or hop sequence of length >= 2")

    # ---- 1. exhaustive tables + generation ------------------------------------------------------
    if thorough:
        tables = [dict(kind="hopmatch", chunk=16), dict(kind="hops", ilen=6, chunk=64), dict(kind="acl", nacl=3, wlen=5, chunk=32),
                  dict(kind="pattern", depth=2, wlen=5, chunk=16), dict(kind="pattern", depth=3, wlen=4, npred=2, chunk=16),
                  dict(kind="tokens", tlen=6, wlen=3, chunk=256)]
    else:
        tables = [dict(kind="hopmatch", chunk=16), dict(kind="hops", ilen=5, chunk=64), dict(kind="acl", nacl=3, wlen=3, chunk=32),
                  dict(kind="pattern", depth=2, wlen=3, chunk=16), dict(kind="pattern", depth=1, wlen=4, chunk=16),
                  dict(kind="tokens", tlen=5, wlen=3, chunk=256)]
    rows = []
    ncases = {}
    for ti, t in enumerate(tables):
        r = c.tlc(SD, "MC_PathPolicy", cfg=cfg(c, "mc_%d.cfg" % ti, gen="TRUE", **t), timeout=9000, coverage=False, xmx="10g")
        for inv in r.violated:
            c.violation("spec:%s" % inv, "design-level: %s violated on MC_PathPolicy %s (the transcription of the matcher differs from the denotational semantics); see %s" % (inv, t, r.out_path), {"tlc_out": r.out_path})
        if not r.ok and not r.violated:
            c.fail_tool("MC_PathPolicy failed: %s" % r.out_path)
        meta = c.printed_json(r, "META")
        cs = c.printed_json(r, "CASE")
        if not meta or not cs:
            c.fail_tool("generation printed nothing for %s" % t)
        if len(cs) != meta[0]["items"]:
            c.fail_tool("generation incomplete for %s: %d of %d items" % (t, len(cs), meta[0]["items"]))
        rows += [meta[0]] + cs
        ncases[t["kind"]] = ncases.get(t["kind"], 0) + len(cs)
    c.cov["exhaustive"] = True
    c.cov["cases_by_kind"] = ncases
    # oracle self-checks
    for name, kw, inv in (("nofix", dict(kind="pattern", depth=1, wlen=3, broken="nofix"), "PatConform"),
                          ("greedy", dict(kind="pattern", depth=2, wlen=2, npred=2, broken="greedy"), "PatConform"),
                          ("aclstrict", dict(kind="acl", nacl=1, wlen=1, invs="AclStrict"), "AclStrict")):
        r0 = c.tlc(SD, "MC_PathPolicy", cfg=cfg(c, "mc_self_%s.cfg" % name, **kw), expect_violation=True, coverage=False)
        if inv not in r0.violated:
            c.fail_tool("oracle self-check failed: variant %s does not violate %s" % (name, inv))

    # ---- 2. replay ---------------------------------------------------------------------------------
    inp = os.path.join(c.work, "cases.ndjson")
    outp = os.path.join(c.work, "replay.json")
    write_ndjson(inp, rows)
    rc, so = c.sh([binp, "replay", inp, outp], timeout=9000)
    if rc != 0:
        c.fail_tool("replay harness failed rc=%s %s %s" % (rc, so[-300:], getattr(c, "last_stderr", "")[-300:]))
    res = json.load(open(outp))
    c.cov["replayed"] = res["cases"]
    c.cov["evaluations"] = res["evals"]
    c.cov["replay_stats"] = res["stats"]
    c.cov["distinct_nontrivial"] = res["cases"] - 1 - 4   # the empty pattern and the bare predicates
    pv_report(c, res["pv"], "replay")
    c.sample({"replayed_case": rows[len(rows) // 2]})

    # ---- 2b. nesting probes in a child process (death by signal is the observation) ---------------------
    for kind, depth in (("paren", 10000), ("or", 5000), ("postfix", 50000)):
        rc, so = c.sh([binp, "deep", kind, str(depth)], timeout=600)
        c.cov["evaluations"] += 1
        if rc < 0 or rc >= 128:
            c.violation("Crash:nesting:%s" % kind,
                        "parsing/matching/dropping a hop pattern with %d nested %s operators on a thread with the default 2 MiB stack kills the process (rc=%s: unbounded recursion, stack overflow)" % (depth, kind, rc),
                        {"kind": "deep", "shape": kind, "depth": depth, "rc": rc})
        elif rc != 0:
            c.drift("nesting probe %s/%d ended with rc=%s: %s" % (kind, depth, rc, so[-200:]))

    # ---- 3. record + trace validation ----------------------------------------------------------------
    tr = os.path.join(c.work, "trace.ndjson")
    outp = os.path.join(c.work, "record.json")
    rc, so = c.sh([binp, "record", tr, outp], timeout=9000)
    if rc != 0:
        c.fail_tool("record harness failed rc=%s %s" % (rc, so[-300:]))
    res = json.load(open(outp))
    c.cov["record_stats"] = {k: v for k, v in res.items() if k != "pv"}
    c.cov["evaluations"] += res["evals"]
    c.cov["distinct_nontrivial"] += res["lines"]
    pv_report(c, res["pv"], "record")
    lines = read_ndjson(tr)
    n = len(lines) - 1
    r = c.tlc(SD, "Trace_PathPolicy", mode="mc", env={"TRACE": tr}, timeout=9000, coverage=False, xmx="8g")
    chunks = (n + 63) // 64
    if not r.ok or r.distinct != 1 + chunks + n:
        c.fail_tool("trace validation did not visit every line (%d distinct states, %d lines): %s" % (r.distinct, n, r.out_path))
    c.cov["traces_validated_against_impl"] += n
    for x in c.printed_json(r, "PV"):
        e = lines[x["l"] - 1]
        w = e["ws"][x["x"] - 1] if x["x"] else None
        if x["kind"] == "AclEmptyPath":
            key = "AclEmptyPath:default-deny"
        elif x["kind"] in ("Lang", "Acl", "Weighted"):
            key = "%s:verdict" % x["kind"]
        else:
            key = "%s:pattern" % x["kind"]
        what = {"Lang": "hop pattern %r: the real verdict on hops %s differs from the denoted language",
                "Acl": "ACL %s: the real verdict on hops %s differs from 'every hop's first matching entry allows'",
                "AclEmptyPath": "ACL %s: the empty hop sequence %s is denied (the default is applied although no hop needs it)",
                "Weighted": "weighted policies %s: match_highest on hops %s does not return the highest-weight policy that allows them",
                "Unsound": "the parser accepts %r, which is not in the documented pattern syntax%s",
                "Reject": "the parser rejects %r, which is in the documented pattern syntax%s"}[x["kind"]] % (
                    e.get("text") or json.dumps(e.get("acl") or [(p_["w"], p_["hasacl"], p_["haspat"], p_["text"]) for p_ in e.get("pols", [])]), json.dumps(w) if w is not None else "")
        c.violation(key, what + " [trace]", {"line": e, "x": x["x"]})
    for x in c.printed_json(r, "DRIFT"):
        c.drift("trace line %d: the I-layer (%s) differs from the real verdict although the property holds" % (x["l"], x["kind"]))
    c.sample({"recorded": {k: lines[len(lines) // 2].get(k) for k in ("ev", "text", "real")}})

    # ---- 4. text form of hop predicates (token-level machinery of spec/AddrText) ---------------------------
    predicate_text(c, thorough)
