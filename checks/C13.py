"""C13 - the simulated dataplane enforces the SCION forwarding rules and matches a reference router.

Pipeline (DESIGN.md 7/C13):
  1. TLC (Gen_ScionNet with ATTACKS): the reference Router (ScionNet.tla, Step) and, per instance, the attack set of
     ScionNetAtk.tla: honest paths and reversed delivered packets; clock (last valid second / expired / future);
     the walked packet at EVERY hop of its path (from the link and from inside the AS) x {clock before the segment
     timestamp, valid, last valid second, expired}; every <=2-subset (and the full set) of on-path links down; every ingress point; every single-field corruption
     (hop in/eg/exp/mac, segid, timestamp, flags, pointers, destination IA); every recombination of <= 3 authentic
     segment slices joined at a common AS (valleys, core loops, up-up, down-up, wrong crossover); hop fields of two
     segments inside one info field; peering pieces with wrong partners; one-hop paths.  Theorems on the reference
     router over all of them: Monotone (bounded steps), DeliverAtDst, AuthenticUse (TamperDetectedAtOwner), NoSplice,
     ValleyFreeWalk.  TLC prints every packet with the reference verdict.
  2. replay: each packet is built from spec-authentic segments (MACs by the chain rule, real AES-CMAC, per-AS keys)
     and injected into ScionNetworkSim::iter::<SpecRoutingLogic>.  P-monitors on the real run:
        a verdict within hops+1 AS steps; local delivery only in the destination AS; forwarding only over existing,
        up links; accept/reject and delivery AS = reference; the error CLASS only when the reference finds exactly
        one failing check on a packet with at most one injected fault.
  3. trace validation: random larger topologies, honest packets plus seeded attacker mutations; every real AS step
     is evaluated by TLC (Trace_ScionNet: accept/reject = Step, links exist and are up, delivery AS).

Reading adopted (S3): classes are coarse {malformed(drop), mac, expired, future, iface, ifdown, segchange, dst};
Drop / anyhow::Error count as "dropped" (= malformed); a segment timestamp in the future makes the hop fields not yet
valid (reject, class future - DESIGN 6.1); the location of a rejection is I-spec only (DRIFT); the destination is checked where the path ends (Appendix B), not at transit ASes; for one-hop
paths only accept/reject is compared (a router may drop an invalid one-hop packet silently, as scionproto does).
"""
import scionnet_common as sn


def run(c):
    binp = c.cargo_build("vh-pocket", bin="scionnet")
    if c.replay and sn.replay_one(c, binp, "C13", "c13", True):
        return
    thorough = c.tier == "thorough"
    c.assumptions += [
        "attack packets are built from spec-authentic segments (regular hop MAC under beta_i, peer hop MAC under beta_{i+1}); AES-CMAC trusted",
        "no external ASes in the instances (verdict 'External' not exercised)",
        "TLC 2.x, CommunityModules; gen/topologies.py provides instance data only",
    ]
    c.cov["rule"] = ("cases = attack packets of ScionNetAtk.Attacks per instance, each replayed on the real simulator; non-trivial = packet with an "
                     "injected fault, a recombination/peering mix, or derived from a non-plain path; distinct by (instance, packet, ingress, clock, link state)")
    topos = sn.family(c, for_attacks=True)
    insts, r, failed = sn.generate(c, topos, attacks=True, level=2 if thorough else 1, timeout=sn.TMO)
    sn.design_theorems(c, r, failed, len(topos), len(insts))
    # the reference Router as a state machine over every attack packet of the smaller instances
    mc_topos = [t for t in topos if t["name"].startswith("T2") or t["name"].startswith("T3") or t["name"] in sn.SHAPES_MC]
    if thorough:
        mc_topos = topos
    sn.model_check(c, mc_topos, level=2 if thorough else 1, timeout=sn.TMO)
    c.cov["router_rules_exercised"] = sn.require_walk_coverage(
        c, [a["walk"] for i in insts for a in i["attacks"]],
        ["forward", "crossover", "peer", "deliver", "reject:mac", "reject:expired", "reject:iface", "reject:ifdown", "reject:segchange",
         "reject:dst", "reject:malformed", "reject:future"])
    c.cov["exhaustive"] = True
    natk = sum(len(i["attacks"]) for i in insts)
    if natk == 0:
        c.fail_tool("no attack packets generated")
    res = sn.replay(c, binp, insts, "c13")
    tot = sn.report(c, res, "C13")
    c.cov["replayed"] = tot["c13:packets"]
    c.cov["evaluations"] = tot["c13:packets"]
    c.cov["distinct_nontrivial"] = tot["c13:nontrivial"]
    c.cov["verdict_equal"] = tot["c13:verdict_equal"]
    c.cov["unencodable"] = tot["c13:unencodable"]
    c.cov["by_family"] = {k[len("c13:fam:"):]: v for k, v in tot.items() if k.startswith("c13:fam:")}
    c.cov["by_reference_verdict"] = {k[len("c13:ref:"):]: v for k, v in tot.items() if k.startswith("c13:ref:")}
    import collections
    fams = collections.Counter(a["fam"].split(":")[0] for i in insts for a in i["attacks"])
    verd = collections.Counter(a["verdict"]["k"] + ("-" + a["verdict"]["class"] if a["verdict"]["class"] else "") for i in insts for a in i["attacks"])
    for fam in ("honest", "clock-expired", "clock-future", "midpath-future", "midpath-valid", "midpath-last", "midpath-expired", "linkdown", "ingress", "corrupt", "recomb", "splice", "peermix", "onehop"):
        if fams[fam] == 0:
            c.fail_tool("vacuous: attack family %s is empty" % fam)
    for v in ("deliver", "reject-mac", "reject-expired", "reject-iface", "reject-ifdown", "reject-segchange", "reject-dst", "reject-malformed"):
        if verd[v] == 0:
            c.fail_tool("vacuous: no packet with reference verdict %s" % v)
    a = next(a for i in insts for a in i["attacks"] if a["fam"] == "recomb" and a["verdict"]["class"] == "segchange")
    c.sample({"attack": {k: a[k] for k in ("fam", "pieces", "src", "dst", "at", "ifin", "verdict", "walk")}})

    res2, tv, accepted, r2 = sn.record_and_validate(c, binp, "C13", ntopo=24 if thorough else 5, nmin=6, nmax=10 if thorough else 9,
                                                    pairs=8 if thorough else 5, paths=4, inject="all")
    sn.tv_report(c, tv, "C13")
    if thorough or __import__("os").environ.get("VERIF_SELFTEST"):
        sn.binding_selftest(c, binp, insts, __import__("os").path.join(c.work, "trace_events.ndjson"))
    if accepted:
        c.cov["traces_validated_against_impl"] = res2["injects"]
    c.cov["evaluations"] += res2["steps"]
    c.cov["trace_stats"] = {k: res2[k] for k in ("topologies", "pairs", "events", "steps", "injects", "by_fam", "by_verdict", "by_cls")}
    c.sample({"trace_events": "inject{pkt,at,ifin,now,down} / step{as,ifin,facts,k,class,eg,header state}"})
