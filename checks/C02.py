"""C02 - parsing untrusted bytes is total and memory-safe.

Pipeline (DESIGN.md 7/C02):
  1. TLC on spec/Wire/MC_WireLayout: enumerates the decision structure of every view's size
     function as a factored product (16x16 address nibbles x path types; segment-length triples;
     HdrLen off-by-one/0/255; CurrINF/CurrHF pointers; PayloadLen/UDP Length fields; SCMP types x
     sizes; stand-alone views), each crossed with every truncation point that changes an outcome,
     checks InvSafe (every decision keeps the view inside the input) and prints one vector with
     the expected accept/reject + extents.  Oracle self-check: VARIANT = "noTotalCheck" (a layout
     without the whole-header size check) MUST violate InvSafe.
  2. replay: `wirelayout replay` builds each byte string and, in a CHILD process, runs every view
     constructor (slice / mut slice / boxed) on buffers placed flush against PROT_NONE guard pages
     (before and after), re-creates accepted views on exactly the bytes they reported and runs the
     catalogue of safe accessors, iterators, Debug/Display, conversions and safe mutators: singles
     on every accepted vector, mutator-mutator-accessors sequences on the vectors flagged `pairs`.
     Built and run in BOTH the dev and the release profile.
  3. record: seeded random strings and single-byte mutations of valid packets through the same
     runner; Trace_WireLayout judges size <= input / nesting (P) and accept/extent conformance
     (I, DRIFT) from the descriptor of an independent field extractor.

P-monitor (only these raise VIOLATION): death by signal, panic, CPU-time hang, reported size >
input, a returned slice outside the view's bytes.  The spec's accept/reject and extents are
conformance only (DRIFT): the property does not fix WHICH inputs are rejected.

Readings adopted: "safe accessor and mutator" = every pub fn callable without `unsafe`, including
writes through `&mut [u8]` slices a safe accessor handed out; a hang is 90 s of CPU time on one
vector (not wall-clock, the machine may be loaded); TLC cannot observe memory - out-of-bounds
accesses are observed by guard pages on exact-size copies (DESIGN.md section 9).
"""
import collections
import json
import os
import re
import subprocess

from vcommon import HARNESS, read_ndjson, write_ndjson

SD = "Wire"
SIGNAMES = {4: "SIGILL", 6: "SIGABRT", 7: "SIGBUS", 8: "SIGFPE", 9: "SIGKILL", 11: "SIGSEGV"}

MC_TMPL = """SPECIFICATION Spec
CONSTANTS
  VARIANT = "{variant}"
  THOROUGH = {thorough}
  GEN = {gen}
INVARIANTS Emit InvSafe
CHECK_DEADLOCK FALSE
"""


def cfg(c, name, text):
    p = os.path.join(c.work, name)
    open(p, "w").write(text)
    return p


def probe_start():
    """does ScmpUnknownMessageView::set_message_type compile as a SAFE fn? (build failure = it is unsafe)"""
    return subprocess.Popen(["cargo", "build", "--offline", "-q", "-p", "vh-sciparse", "--bin", "wirelayout_probe"],
                            cwd=HARNESS, stdout=subprocess.PIPE, stderr=subprocess.STDOUT, text=True)


def probe_result(p):
    out, _ = p.communicate()
    if p.returncode == 0:
        return True
    if "E0308" in out or "mismatched types" in out or "unsafe" in out:
        return False
    return None


def run_parallel(c, jobs, env, timeout=6000):
    """run harness commands concurrently (one per cargo profile); returns {name: rc}"""
    e = dict(os.environ)
    e["VERIF_SEED"] = str(c.seed)
    e["VERIF_TIER"] = c.tier
    e.update({k: str(v) for k, v in env.items()})
    procs = {name: subprocess.Popen(cmd, cwd=c.work, env=e, stdout=subprocess.DEVNULL, stderr=subprocess.PIPE, text=True) for name, cmd in jobs.items()}
    out = {}
    for name, pr in procs.items():
        try:
            _, err = pr.communicate(timeout=timeout)
        except subprocess.TimeoutExpired:
            pr.kill()
            c.fail_tool("timeout running %s" % (jobs[name][:2],))
        out[name] = (pr.returncode, err)
    return out


def crash_key(cr):
    sig = "Hang" if cr.get("hang") else "Signal:%s" % SIGNAMES.get(cr.get("signal"), "sig%s" % cr.get("signal"))
    after = ""
    if cr.get("m1"):
        after = ":after:" + cr["m1"] + ("+" + cr["m2"] if cr.get("m2") else "")
    return "%s:%s%s" % (sig, cr.get("acc") or cr.get("stage"), after)


def same(o, e):
    return bool(o["ok"]) == bool(e["ok"]) and (not o["ok"] or o["size"] == e["size"])


def conformance(v, exp, obs):
    out = []
    if v.get("k", "pkt") == "pkt":
        for name in ("hdr", "raw", "udp", "scmp"):
            if name in obs and not same(obs[name], exp[name]):
                out.append("%s: spec %s real %s" % (name, json.dumps({k: exp[name][k] for k in ("ok", "err", "size")}), json.dumps(obs[name])))
        for name in ("payload", "udpd", "scmpm", "dport"):
            if name in obs and name in exp and obs[name] != exp[name]:
                out.append("%s extent: spec %s real %s" % (name, exp[name], obs[name]))
    elif "view" in obs and not same(obs["view"], exp["view"]):
        out.append("%s: spec %s real %s" % (v["k"], json.dumps(exp["view"]), json.dumps(obs["view"])))
    return out


def single_replay(c, bins):
    d = json.load(open(c.replay))
    rep = d.get("replay") or {}
    vec = rep.get("vector")
    if vec is None:
        print(json.dumps(rep, indent=1)[:3000])
        return
    inp = os.path.join(c.work, "one.ndjson")
    write_ndjson(inp, [vec])
    for prof, binp in bins.items():
        outp = os.path.join(c.work, "one_%s.ndjson" % prof)
        c.sh([binp, "replay", inp, outp], env=rep.get("env"))
        for res in read_ndjson(outp):
            print(prof, "spec:", json.dumps(vec["o"])[:600])
            print(prof, "real:", json.dumps(res)[:1500])
            if "crash" in res:
                c.violation(crash_key(res["crash"]), "child process died: %s" % json.dumps(res["crash"]), rep)
            for p in res.get("pv", []):
                if not p["key"].startswith("Conf:"):
                    c.violation(p["key"], p["what"], rep)


def run(c):
    thorough = c.tier == "thorough"
    bins = {"dev": c.cargo_build("vh-sciparse", bin="wirelayout"),
            "release": c.cargo_build("vh-sciparse", bin="wirelayout", release=True)}
    probe = probe_start()      # runs while TLC enumerates
    if c.replay:
        probe_result(probe)
        return single_replay(c, bins)
    c.assumptions += [
        "memory accesses are observed by PROT_NONE guard pages directly before/after exact-size copies of the bytes a view reported (TLC cannot observe memory); reads inside the view's own bytes are by definition allowed",
        "the catalogue of safe functions is the hand-written list in harness/vh-sciparse/src/bin/wirelayout.rs (every pub fn of the *View types callable without unsafe at the pinned commit); ScmpUnknownMessageView::set_message_type is in the list only while a compile probe shows it is a safe fn",
        "sequences: all accessors after no mutator on every accepted vector; after each single safe mutator (quick: on vectors not flagged `pairs` every 8th mutator, rotating with the vector index; thorough: all); after every ordered pair of safe mutators on the vectors flagged `pairs` (quick: a 300-sequence stride sample of the pair space per view and vector, rotating with the vector index; thorough: all pairs, plus a 2000-sequence stride sample of the mutator TRIPLES per view and vector)",
        "exhaustive over the factored product of MC_WireLayout, not over all byte strings; both cargo profiles (dev: debug assertions + overflow checks, release: none)",
    ]
    c.cov["rule"] = ("vectors: non-trivial = at least one view constructor accepted the byte string (the accessor/mutator catalogue ran); "
                     "trace strings: non-trivial = mutated or random string (not one of the valid seed packets)")

    # ---- 1. TLC ----------------------------------------------------------------------------------
    r = c.tlc(SD, "MC_WireLayout", cfg=cfg(c, "mc_gen.cfg", MC_TMPL.format(variant="code", thorough="TRUE" if thorough else "FALSE", gen="TRUE")), timeout=3000)
    for inv in r.violated:
        c.violation("spec:%s" % inv, "design-level: invariant %s violated on MC_WireLayout; see %s" % (inv, r.out_path), {"tlc_out": r.out_path})
    if r.ok:
        c.require_coverage(r, ["Next"])
    vectors = c.printed_json(r, "VEC")
    if not vectors:
        c.fail_tool("generation run printed no vectors")
    r0 = c.tlc(SD, "MC_WireLayout", cfg=cfg(c, "mc_broken.cfg", MC_TMPL.format(variant="noTotalCheck", thorough="FALSE", gen="FALSE")),
               expect_violation=True, coverage=False, timeout=1200)
    if "InvSafe" not in r0.violated:
        c.fail_tool("oracle self-check failed: the layout without the whole-header size check no longer violates InvSafe")
    c.cov["exhaustive"] = True

    safe = probe_result(probe)
    env = {"WIRELAYOUT_UNK_SETTYPE_SAFE": "1" if safe else "0"}
    c.assumptions.append("compile probe: ScmpUnknownMessageView::set_message_type is a safe fn: %s" % safe)
    if safe is None:
        c.drift("compile probe for ScmpUnknownMessageView::set_message_type failed for an unexpected reason; the setter is left out of the catalogue")

    # ---- 2. replay in both profiles ----------------------------------------------------------------
    inp = os.path.join(c.work, "vectors.ndjson")
    write_ndjson(inp, vectors)
    nontriv = set()
    stats = collections.Counter()
    drift_seen = collections.Counter()
    rcs = run_parallel(c, {prof: [binp, "replay", inp, os.path.join(c.work, "replay_%s.ndjson" % prof)] for prof, binp in bins.items()}, env)
    for prof, binp in bins.items():
        outp = os.path.join(c.work, "replay_%s.ndjson" % prof)
        rc, so = rcs[prof]
        if rc != 0:
            c.fail_tool("replay harness (%s) failed rc=%s %s" % (prof, rc, (so or "")[-500:]))
        seen = set()
        for res in read_ndjson(outp):
            i = res["i"]
            vec = vectors[i]
            rep = {"vector": vec, "profile": prof, "env": env}
            if "crash" in res:
                stats[prof + "_crashes"] += 1
                cr = res["crash"]
                c.violation(crash_key(cr), "[%s build] the child process %s while running %s on the %s view (%s, buffer %s) of vector %s" % (
                    prof, "exceeded 90 s of CPU time" if cr.get("hang") else "was killed by %s" % SIGNAMES.get(cr.get("signal"), cr.get("signal")),
                    cr.get("acc"), cr.get("view"), cr.get("stage"), cr.get("place"), json.dumps(vec["v"])), rep)
                continue
            seen.add(i)
            stats[prof + "_vectors"] += 1
            accepted = any(o.get("ok") for o in res["obs"].values() if isinstance(o, dict))
            if accepted:
                stats[prof + "_accepted"] += 1
                nontriv.add(i)
            if vec["v"].get("pairs") and accepted:
                stats[prof + "_sequence_vectors"] += 1
            for p in res["pv"]:
                if p["key"].startswith("Conf:"):
                    k = p["key"]
                    drift_seen[k] += 1
                    if drift_seen[k] == 1:
                        c.drift("[%s] %s: %s" % (prof, k, p["what"]))
                    else:
                        c.cov["drift"] += 1
                    continue
                c.violation(p["key"], "[%s build] %s [vector %s]" % (prof, p["what"], json.dumps(vec["v"])), rep)
            for d in conformance(vec["v"], vec["o"], res["obs"]):
                k = re.sub(r"\d+", "N", d)[:70]
                drift_seen[k] += 1
                if drift_seen[k] == 1:
                    c.drift("[%s] vector %s: %s" % (prof, json.dumps(vec["v"]), d))
                else:
                    c.cov["drift"] += 1
        stats[prof + "_missing"] = len(vectors) - len(seen) - stats[prof + "_crashes"]
        if stats[prof + "_missing"] > 0:
            c.fail_tool("replay harness (%s) lost %d vectors" % (prof, stats[prof + "_missing"]))
        if stats[prof + "_accepted"] == 0:
            c.drift("[%s] no vector was accepted by any view constructor: the catalogue never ran" % prof)
    c.cov["replayed"] = len(vectors) * len(bins)
    c.cov["evaluations"] = len(vectors) * len(bins)
    c.cov["distinct_nontrivial"] = len(nontriv)
    c.cov["replay_stats"] = dict(stats)
    mid = vectors[len(vectors) // 2]
    c.sample({"vector": mid["v"], "expected": mid["o"]})

    # ---- 3. record -> Trace_WireLayout ---------------------------------------------------------------
    rcs = run_parallel(c, {prof: [binp, "record", os.path.join(c.work, "events_%s.ndjson" % prof), os.path.join(c.work, "record_%s.json" % prof)]
                           for prof, binp in bins.items()}, env)
    combined = [{"ev": "meta", "spec": "WireLayout", "seed": c.seed}]
    origin = [None]          # trace line -> (profile, event)
    for prof, binp in bins.items():
        rc, so = rcs[prof]
        if rc != 0:
            c.fail_tool("record harness (%s) failed rc=%s %s" % (prof, rc, (so or "")[-500:]))
        events = read_ndjson(os.path.join(c.work, "events_%s.ndjson" % prof))
        if not events:
            c.fail_tool("record driver (%s) produced no events" % prof)
        for e in events:
            origin.append((prof, e))
            if "crash" in e:
                cr = e["crash"]
                combined.append({"ev": "crash", "i": e["i"]})
                c.violation(crash_key(cr), "[%s build] child process died on a recorded byte string (index %d, seed %d): %s" % (prof, e["i"], c.seed, json.dumps(cr)),
                            {"seed": c.seed, "index": e["i"], "profile": prof, "env": env})
                continue
            combined.append(e)
            for p in e.get("pv", []):
                if not p["key"].startswith("Conf:"):
                    c.violation(p["key"], "[%s build] %s [%s string #%d, %d bytes, seed %d]" % (prof, p["what"], e.get("src"), e["i"], e["d"]["len"], c.seed),
                                {"seed": c.seed, "index": e["i"], "profile": prof, "bytes": e.get("bytes"), "env": env})
        c.cov["distinct_nontrivial"] += sum(1 for e in events if e.get("src") in ("mutated", "quoting", "shaped", "random"))
    # binding self-check (DESIGN.md S6): synthetic observations, independent of the code under test:
    # faithful -> silent; size beyond the input -> UNSAFE; wrong extent -> NONCONF
    d0 = {"len": 44, "ver": 0, "hl": 9, "pl": 8, "pt": 0, "dn": 0, "sn": 0, "s0": 0, "s1": 0, "s2": 0, "ul": 8, "st": 128}
    ok36, ok44 = {"ok": True, "size": 36}, {"ok": True, "size": 44}
    good = {"ev": "obs", "src": "synthetic", "i": -1, "d": d0, "obs": {"hdr": ok36, "raw": ok44, "udp": ok44, "scmp": ok44, "payload": 8, "hdrsize": 36, "udpd": 8, "scmpm": 8}}
    unsafe = dict(good, obs=dict(good["obs"], raw={"ok": True, "size": 45}))
    nonconf = dict(good, obs=dict(good["obs"], udpd=7))
    n0 = len(combined)
    combined += [good, unsafe, nonconf]
    origin += [("synthetic", good), ("synthetic", unsafe), ("synthetic", nonconf)]
    synth_lines = (n0 + 1, n0 + 2, n0 + 3)
    trace_in = os.path.join(c.work, "trace.ndjson")
    write_ndjson(trace_in, combined)
    rt = c.tlc(SD, "Trace_WireLayout", mode="trace", env={"TRACE": trace_in}, timeout=6000)
    txt = open(rt.out_path, errors="replace").read()
    tot = re.findall(r'<<"TOTALS", (\d+), (\d+), (\d+), (\d+)>>', txt)
    if rt.postcondition_failed or not rt.ok or not tot:
        c.fail_tool("Trace_WireLayout did not process the whole event file (see %s)" % rt.out_path)
    nev, nacc, ndrift, nbad = map(int, tot[-1])
    unsafe_lines = {int(x) for x in re.findall(r'<<"UNSAFE", (\d+)>>', txt)}
    nonconf_lines = {int(x) for x in re.findall(r'<<"NONCONF", (\d+),', txt)}
    if (synth_lines[0] in unsafe_lines | nonconf_lines or synth_lines[1] not in unsafe_lines or synth_lines[2] not in nonconf_lines
            or synth_lines[2] in unsafe_lines):
        c.fail_tool("binding self-check failed: Trace_WireLayout judged the synthetic observations unsafe=%s nonconf=%s" % (
            sorted(unsafe_lines & set(synth_lines)), sorted(nonconf_lines & set(synth_lines))))
    nev, nacc, ndrift, nbad = nev - 3, nacc - 3, ndrift - 2, nbad - 1
    for mm in re.finditer(r'<<"UNSAFE", (\d+)>>', txt):
        if int(mm.group(1)) in synth_lines:
            continue
        prof, e = origin[int(mm.group(1)) - 1]
        c.violation("Trace:extent-outside-input", "[%s build] a view reports more bytes than its input / a sub-extent leaves its parent: descriptor %s observed %s" % (
            prof, json.dumps(e["d"]), json.dumps(e["obs"])), {"event": e, "profile": prof})
    first = True
    for mm in re.finditer(r'<<"NONCONF", (\d+), "(.*)">>', txt):
        if int(mm.group(1)) in synth_lines:
            continue
        prof, e = origin[int(mm.group(1)) - 1]
        if first:
            c.drift("[%s] recorded string #%d: descriptor %s real %s spec %s" % (prof, e["i"], json.dumps(e["d"]), json.dumps(e["obs"]), mm.group(2).replace('\\"', '"')[:400]))
            first = False
        else:
            c.cov["drift"] += 1
    if nacc == 0:
        c.drift("no recorded string was accepted by the header view")
    c.cov["evaluations"] += nev
    c.cov["trace_stats"] = {"events": nev, "header_accepted": nacc, "nonconforming": ndrift, "unsafe": nbad, "profiles": list(bins)}
    c.cov["traces_validated_against_impl"] = nev
    c.sample({"trace_event": "obs: descriptor of the independent extractor + constructor results per view, see spec/Wire/Trace_WireLayout.tla"})
