"""C04 - path combination is sound, complete, loop-free, duplicate-free and ordered; metadata tells the truth.

Pipeline (DESIGN.md 7/C04):
  1. TLC (Gen_ScionNet): RefPaths = the SCION combination rules as a set comprehension (up/core/down joins, shortcuts
     at any common AS, on-path cuts, peering crossings; loop filter; one per interface sequence).  Theorems checked on
     every instance: RefPathsSound (walk of the topology, src->dst, no AS twice, valley-free, pairwise distinct),
     OfferedWhenJoinable, RefCompleteWrtTopology (= the valley-free loop-free walks of the topology).
  2. replay on the real combine(): (a) through SegmentRegistry::paths(), (b) directly on unsigned segments built
     from the instance with varied MTUs / expiry units / timestamps, under every permutation (<= 4 segments; seeded
     samples beyond) and duplication of the two input lists.  P-monitors on the REAL result:
        result set = RefPaths (sound and complete, by interface sequence decoded from the hop fields),
        each once, no AS twice, number of links non-decreasing,
        metadata: interface list = links encoded in the hop fields in travel order (decoded from the data-plane
        bytes, looked up in the instance's link table), mtu = min over traversed ASes and links,
        expiration = earliest hop expiry, src/dst = request,
        result independent of input order and duplication (as a set, and as a cost sequence).
  3. trace validation: random larger topologies; the offered set of sampled pairs must equal RefPaths computed by
     TLC from the logged real segments (Trace_ScionNet, TOffered).

Reading adopted: "cheapest first" = link count non-decreasing (tie-break is I-spec); among several segment
combinations with the same interface sequence ANY may be returned (which one: DRIFT only); the segment sets given to
combine() are those a control plane returns for the pair (non-core segments ending in src or dst, all core segments)
- arbitrary/hostile sets belong to C19.
"""
import scionnet_common as sn


def run(c):
    binp = c.cargo_build("vh-pocket", bin="scionnet")
    if c.replay and sn.replay_one(c, binp, "C04", "c04", False):
        return
    thorough = c.tier == "thorough"
    c.assumptions += [
        "reference = TLA+ RefPaths over the segments of the instance; interface sequences identify routes",
        "MTU truth: registry mode announces 1280 everywhere (pocketscion constant); direct mode uses the instance's AS/link MTUs",
        "TLC 2.x, CommunityModules; gen/topologies.py provides instance data only",
    ]
    c.cov["rule"] = ("cases = result lists of combine() per (topology, ordered pair, input variant); non-trivial = offered path with >= 2 "
                     "segments or an on-path/shortcut/peering cut, counted once per (topology, pair, mode, interface sequence)")
    topos = sn.family(c)
    insts, r, failed = sn.generate(c, topos, attacks=False)
    sn.design_theorems(c, r, failed, len(topos), len(insts))
    c.cov["exhaustive"] = True
    res = sn.replay(c, binp, insts, "c04")
    tot = sn.report(c, res, "C04")
    c.cov["replayed"] = len(res)
    c.cov["evaluations"] = tot["c04:input_variants"] + 2 * tot["pairs"]
    c.cov["paths_checked"] = tot["c04:paths_checked"]
    c.cov["distinct_nontrivial"] = tot["c04:nontrivial"]
    c.cov["pairs"] = tot["pairs"]
    c.cov["reference_paths"] = tot["ref_paths"]
    c.cov["reference_by_class"] = sn.require_reference_classes(c, insts)
    ex = insts[-1]
    pr = max(ex["pairs"], key=lambda p: len(p["paths"]))
    c.sample({"topology": ex["name"], "pair": [pr["src"], pr["dst"]],
              "reference": [{"ifs": p["ifs"], "mtu": p["mtu"], "exp": p["exp"]} for p in pr["paths"][:5]]})

    res2, tv, accepted, r2 = sn.record_and_validate(c, binp, "C04", ntopo=30 if thorough else 6, nmin=6, nmax=11 if thorough else 9,
                                                    pairs=12 if thorough else 8, paths=0, inject="none")
    sn.tv_report(c, tv, "C04")
    if accepted:
        c.cov["traces_validated_against_impl"] = res2["pairs"]
    c.cov["evaluations"] += res2["pairs"]
    c.cov["trace_stats"] = {k: res2[k] for k in ("topologies", "pairs", "offered", "events")}
    c.sample({"trace_event": "offered{src,dst,cores,ncs,paths} checked against RefPaths of the logged segments"})
