"""C01 - every offered path is forwardable end to end, and so is its reverse.

Pipeline (DESIGN.md 7/C01):
  1. TLC (Gen_ScionNet, symbolic MACs) checks the design theorems on every topology of the family
     (SegmentsWellFormed/ChainOk, RefPathsSound, OfferedWhenJoinable, RefCompleteWrtTopology,
     AllRefPathsRoundTrip: every reference path is delivered and the reversed DELIVERED packet returns, also in the
     last valid second) and prints the reference: segments, per ordered pair the path set and the router walks.
     Oracle self-check: with the peer-MAC rule of the pinned tree (beta_i) AllRefPathsRoundTrip must fail.
  2. replay: the harness rebuilds each topology with ScionTopologyBuilder (random per-AS keys) and evaluates, on
     (a) SegmentRegistry::paths() and (b) combine() over segments built with the real beacon extension and varied
     timestamps/expiry/MTU, the P-monitors
        P1  every OFFERED path carries a packet to ForwardLocal in the destination AS
            (ScionNetworkSim::<SpecRoutingLogic>, real AES-CMAC keys, MACs verified),
        P2  the path of the DELIVERED packet, reversed with ScionPath::try_reverse, carries the reply back,
        P3  a pair whose segments can be joined (reference: some candidate combination exists) gets >= 1 path;
            for a wildcard destination (any core AS of an ISD) the segments listed by the control plane must reach
            some core AS of it whenever the reference does.
     The segment REQUEST PLAN (spec/ScionNet/SegPlan.tla): TLC checks on every instance that the lookups of the decision
     table lose no route (PlanSufficient, PlanSufficientAny); the table is compared with ListSegmentPlan::new and the
     fetched segment sets with pocketscion's endhost_list_segments (conformance: DRIFT).
     A failing path is localised (beacon extension / combinator / simulator) by chain-rule MAC facts, by comparing
     the offered header with the reference pieces, and by running the reference packet built from spec-correct
     segments; the violation key names class and components.
  3. trace validation: seeded larger random topologies; every segment (MAC facts), offered set and router step of
     the real code is evaluated by TLC against Trace_ScionNet (concrete XOR).

Reading adopted (demands less): "carries a packet" = final simulator action ForwardLocal in the destination AS;
reversing a path that was never walked is not required to work (under the SCION rules it does not); the walk
(as, ifin) sequence, error classes and which of several equal routes is kept are conformance (DRIFT) only.
"""
import scionnet_common as sn


def run(c):
    binp = c.cargo_build("vh-pocket", bin="scionnet")
    if c.replay and sn.replay_one(c, binp, "C01", "c01", False):
        return
    thorough = c.tier == "thorough"
    c.assumptions += [
        "AES-CMAC (aes/cmac crates) is trusted; which accumulator value authenticates which hop is the specification's",
        "control-plane segments = all simple parent->child / core-link walks from every core AS (checked: registry segment set = reference beaconing, else DRIFT)",
        "TLC 2.x, CommunityModules Json/IOUtils/Bitwise; topology families from gen/topologies.py (instance data only)",
    ]
    c.cov["rule"] = ("cases = offered paths pushed through the real simulator (forward + reverse), over every ordered AS pair of every "
                     "topology of the family (T(<=3)+shapes quick; +T(4), parallel links thorough) in two segment profiles; "
                     "non-trivial = path with >= 2 segments or an on-path/shortcut/peering cut; distinct = by (topology, interface sequence, profile)")
    topos = sn.family(c)
    insts, r, failed = sn.generate(c, topos, attacks=False, plans=True)
    sn.design_theorems(c, r, failed, len(topos), len(insts))
    sn.oracle_selfcheck(c)
    # the Router as a state machine: every reference path forward, turned around at the receiver, and back
    sn.model_check(c, topos, fams=("honest", "clock-last"))
    c.cov["router_rules_exercised"] = sn.require_walk_coverage(
        c, [p["walk"] for i in insts for pr in i["pairs"] for p in pr["paths"]] + [p["rev"] for i in insts for pr in i["pairs"] for p in pr["paths"]],
        ["forward", "crossover", "peer", "deliver"])
    c.cov["exhaustive"] = True
    res = sn.replay(c, binp, insts, "c01")
    tot = sn.report(c, res, "C01")
    c.cov["replayed"] = len(res)
    c.cov["evaluations"] = tot["c01:paths_simulated"] + tot["c01:reverse_simulated"]
    c.cov["distinct_nontrivial"] = tot["c01:nontrivial"]
    c.cov["by_class"] = {k[len("c01:class:"):]: v for k, v in tot.items() if k.startswith("c01:class:")}
    c.cov["pairs"] = tot["pairs"]
    c.cov["request_plan"] = {k[len("plan:"):]: v for k, v in tot.items() if k.startswith("plan:")}
    if not any(i["plans"] for i in insts) or not insts[0]["plantable"]:
        c.fail_tool("vacuous: Gen_ScionNet printed no request plans")
    c.cov["reference_paths"] = tot["ref_paths"]
    c.cov["reference_by_class"] = sn.require_reference_classes(c, insts)
    ex = insts[len(insts) // 2]
    pr = max(ex["pairs"], key=lambda p: len(p["paths"]))
    c.sample({"topology": ex["topo"], "pair": [pr["src"], pr["dst"]], "reference_paths": [p["ifs"] for p in pr["paths"]][:4],
              "walk_of_first": pr["paths"][0]["walk"] if pr["paths"] else None})

    # ---- trace validation
    res2, tv, accepted, r2 = sn.record_and_validate(c, binp, "C01", ntopo=24 if thorough else 5, nmin=6, nmax=10 if thorough else 9,
                                                    pairs=8 if thorough else 5, paths=4, inject="honest")
    sn.tv_report(c, tv, "C01")
    if accepted:
        c.cov["traces_validated_against_impl"] = res2["injects"]
    c.cov["evaluations"] += res2["steps"]
    c.cov["distinct_nontrivial"] += res2["nontrivial"]
    c.cov["trace_stats"] = {k: res2[k] for k in ("topologies", "pairs", "offered", "events", "steps", "injects", "by_cls")}
    c.sample({"trace_events": "topo / seg (MAC facts) / offered / inject / step, see spec/ScionNet/Trace_ScionNet.tla", "by_fam": res2["by_fam"]})
