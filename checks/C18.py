"""C18 - signed control-plane messages verify iff authentic; RPC conversion is lossless.

Pipeline (DESIGN.md 7/C18):
  1. TLC exhaustive on MC_SignedSegment (symbolic chained signatures, FIXED = TRUE): every honest
     segment of 1..5 entries (and the variant whose last entry is a copy of the first AS entry, signed
     with try_into_signed_segment) x every sequence of <= 2 tampers (thorough: 3 on <= 4 entries, two abstract
     bits); invariants Sound / OnlyAuthentic / AuthenticOk / PrefixClosed; oracle self-check: the
     pinned-commit lookup (FIXED = FALSE) must violate Sound.  The same run prints, per distinct
     tampered (segment, resolver), the tamper history and the expected verdict of every entry.
  2. replay: the harness builds the same segment with real P-256 keys (SignedPathSegment::add_entry),
     applies the tampers to the RPC message, converts it with SignedPathSegment::try_from_rpc and asks
     SignedAsEntry::validate_signature, SignedMessage::validate and SignedMessage::decode_validated
     per entry.  P-monitor: validates <=> Valid (positional).  Every converting segment also goes
     value -> into_rpc -> try_from_rpc -> equal.
  3. every single bit of body / header / signature of every entry and of the segment info is flipped
     for segments of <= 3 entries (seeded sample for 4..5); expected verdicts are TLC's for the
     abstract flip.
  4. RpcConv decision table (MC_RpcConv) -> real TryFrom<rpc::*> under catch_unwind: never a panic;
     a converted value survives to_rpc/try_from_rpc unchanged; outcome differing from the table = DRIFT.
  5. seeded tamper sequences (segments up to 7 entries, up to 4 tampers, concrete bit positions),
     seeded RPC messages and byte-level damaged encodings (bit flips, truncation, splices of valid
     PathSegment / SegmentsResponse / daemon Path encodings that prost still decodes) recorded from the real code -> Trace_SignedSegment / Trace_RpcConv (TLC
     evaluates the P-invariants on the recorded verdicts).

Readings adopted (the ones demanding less of the code):
  * "validates" = the call returns Ok; error variants are never compared (only as DRIFT against the
    I-layer outcome class).
  * a tampered message that SignedPathSegment::try_from_rpc refuses as a whole counts as rejected for
    every entry; it only counts against the code if no byte of the message was damaged.
  * "changing any bit" = single-bit flips of the canonical encoding produced by the library itself;
    ECDSA signature malleability (r, n-s) and non-canonical protobuf re-encodings are outside the
    quantifier.  The segment header is the SegmentInformation value (try_from_rpc re-encodes it).
  * round trip is demanded for values the library itself produces (combinator paths, signed segments,
    and values obtained from RPC messages); NaN geo coordinates are not generated.
"""
import json
import os

from vcommon import read_ndjson, write_ndjson

SD = "SignedSegment"

MC_TMPL = """SPECIFICATION MCSpec
VIEW MCView
CONSTANTS
  FIXED = {fixed}
  NMAX = {nmax}
  MAXN = {maxn}
  DEPTH = {depth}
  BITS = {bits}
  GEN = {gen}
  VARIANTS = {variants}
INVARIANTS Sound OnlyAuthentic AuthenticOk PrefixClosed {extra}
"""

TRACE_TMPL = """SPECIFICATION TSpec
CONSTANTS
  FIXED = TRUE
  NMAX = 7
INVARIANTS NoPanic SameLength NoInvalidAccepted NoValidRejected ConversionRefusal
POSTCONDITION TraceAccepted
CHECK_DEADLOCK FALSE
"""

FLIPS = ("FlipBody", "FlipHdr", "FlipSig", "FlipInfo")
ALL_OPS = ["FlipBody", "FlipHdr", "FlipSig", "FlipInfo", "Swap", "Truncate", "Remove", "InsertCopy",
           "ExtendForeign", "ExtendLegit", "SubstKey", "NoKey"]


def cfg(c, name, text):
    p = os.path.join(c.work, name)
    open(p, "w").write(text)
    return p


def hist_str(h):
    return ",".join("%s(%d,%d)" % (t["op"], t["a"], t["b"]) for t in h) or "untampered"


def run_replay_file(c, binp, path):
    """--replay FILE: re-run one stored counterexample and print spec vs real."""
    obj = json.load(open(path)).get("replay") or {}
    kind = obj.get("kind")
    if kind == "tamper":
        inp = os.path.join(c.work, "one_in.ndjson")
        outp = os.path.join(c.work, "one_out.ndjson")
        write_ndjson(inp, [obj["case"]])
        rc, so = c.sh([binp, "replay", inp, outp])
        res = read_ndjson(outp)[0]
        print("tampers :", hist_str(obj["case"]["h"]), "on the honest segment of", obj["case"]["n"], "entries", "(last entry = copy of the first AS entry)" if obj["case"].get("v") else "")
        print("spec    : Valid =", [e["v"] for e in obj["case"]["e"]], " I-layer outcome =", [e["o"] for e in obj["case"]["e"]])
        print("real    :", json.dumps({k: res.get(k) for k in ("conv", "entries", "msg", "rt")}))
        for pv in res.get("pv", []):
            c.violation(pv["key"], pv["what"] + " after " + hist_str(obj["case"]["h"]), obj)
    elif kind == "rpc":
        inp = os.path.join(c.work, "one_in.ndjson")
        outp = os.path.join(c.work, "one_out.ndjson")
        write_ndjson(inp, [obj["cell"]])
        c.sh([binp, "rpc", inp, outp])
        res = read_ndjson(outp)[0]
        print("cell    :", json.dumps(obj["cell"]))
        print("real    :", json.dumps(res))
        judge_rpc(c, obj["cell"], res)
    elif kind == "flip" and obj.get("case"):
        inp = os.path.join(c.work, "one_in.ndjson")
        outp = os.path.join(c.work, "one_out.json")
        write_ndjson(inp, [obj["case"]])
        c.sh([binp, "flips", inp, outp])
        fr = json.load(open(outp))
        print("every bit of %s of entry %d (honest segment of %d entries): %d flips, %d violations" % (
            obj["op"], obj["a"], obj["n"], fr["flips"], len(fr["pv"])))
        for pv in fr["pv"]:
            c.violation("%s:bit" % pv["key"], pv["what"] + " after flipping bit %d" % pv["bit"], obj)
    elif kind in ("trace", "record"):
        c.seed = int(json.load(open(path)).get("seed", c.seed))
        print("re-recording the executions of seed %d and validating them against the trace specifications" % c.seed)
        trace_step(c, binp)
    else:
        c.fail_tool("replay file of unknown kind %r" % kind)


def judge_rpc(c, cell, res):
    """P-monitors on one real conversion; returns True if the outcome conforms to the table."""
    k = cell["k"]
    if res["got"] == "panic":
        c.violation("Panic:TryFrom:%s" % k, "TryFrom<rpc::%s> panicked (%s) on %s" % (k, res["detail"], cell["f"]), {"kind": "rpc", "cell": cell, "real": res})
        return True
    if res["got"] == "ok" and res["rt"] != "same":
        comp = res["rt"].split(":", 1)[1] if ":" in res["rt"] else "value"
        c.violation("RoundTrip:%s:%s" % (k, comp),
                    "a %s value obtained from an RPC message does not survive to_rpc/try_from_rpc (differs in %s); features %s" % (k, comp, cell["f"]),
                    {"kind": "rpc", "cell": cell, "real": res})
    return "x" not in cell or res["got"] == cell["x"]


def trace_step(c, binp):
    """recorded executions -> trace validation (also used by --replay for trace counterexamples)"""
    ev = os.path.join(c.work, "trace_tamper.ndjson")
    rev = os.path.join(c.work, "trace_rpc.ndjson")
    resj = os.path.join(c.work, "record.json")
    rc, so = c.sh([binp, "record", ev, rev, resj], timeout=3000)
    if rc != 0:
        c.fail_tool("record harness failed rc=%s %s" % (rc, (so or "")[-500:]))
    rec = json.load(open(resj))
    for pv in rec["pv"]:
        c.violation(pv["key"], pv["what"] + " (record run %s, seed %d)" % (pv.get("run"), c.seed), {"kind": "record", "seed": c.seed, "pv": pv})
    missing_ops = [o for o in ALL_OPS if not rec["ops"].get(o)]
    if missing_ops:
        c.fail_tool("vacuous traces: tampers never recorded: %s" % missing_ops)
    traces = 0
    r = c.tlc(SD, "Trace_SignedSegment", cfg=cfg(c, "trace.cfg", TRACE_TMPL), mode="trace", env={"TRACE": ev}, timeout=3000)
    if r.violated:
        for inv in r.violated:
            c.violation("trace:%s" % inv, "invariant %s violated on a recorded execution of the real validation code (seed %d); TLC output %s" % (inv, c.seed, r.out_path),
                        {"kind": "trace", "trace": ev, "tlc_out": r.out_path})
    elif r.postcondition_failed or not r.ok:
        txt = open(r.out_path, errors="replace").read()
        um = [l for l in txt.splitlines() if "UNMATCHED" in l or "TRACE-REJECTED" in l]
        c.drift("tamper trace not accepted by Trace_SignedSegment: %s" % " ".join(um)[:400])
    else:
        traces += rec["runs"]
    r = c.tlc(SD, "Trace_RpcConv", cfg="Trace_RpcConv.cfg", mode="trace", env={"TRACE": rev}, timeout=3000)
    txt = open(r.out_path, errors="replace").read()
    skipped = [l for l in txt.splitlines() if l.startswith('<<"SKIPPED"')]
    for l in skipped[:20]:
        c.drift("recorded RPC conversion differs from the RpcConv table: %s" % l[:300])
    c.cov["drift"] += max(0, len(skipped) - 20)
    if r.violated:
        # name the offending lines: re-evaluate the P-monitors on the recorded results
        for o in read_ndjson(rev):
            judge_rpc(c, {"k": o["k"], "f": o["f"]}, o)
        for inv in r.violated:
            c.violation("trace:rpc:%s" % inv, "invariant %s violated on recorded RPC conversions (seed %d); TLC output %s" % (inv, c.seed, r.out_path),
                        {"kind": "trace", "trace": rev, "tlc_out": r.out_path})
    elif r.postcondition_failed or not r.ok:
        c.drift("RPC trace not accepted by Trace_RpcConv (see %s)" % r.out_path)
    else:
        traces += rec["rpc_msgs"] + rec.get("bytes_decoded", 0)
    c.cov["traces_validated_against_impl"] = traces
    c.cov["evaluations"] += 3 * rec["validations"] + rec["rpc_msgs"] + rec.get("bytes_decoded", 0)
    c.cov["distinct_nontrivial"] += rec["nontrivial_runs"]
    c.cov["trace_stats"] = {k: rec.get(k) for k in ("runs", "events", "validations", "nontrivial_runs", "ops", "rpc_msgs", "rpc_ok", "bytes_msgs", "bytes_decoded")}
    c.sample({"trace_event": "reset/tamper/validate per run, see spec/SignedSegment/Trace_SignedSegment.tla; one line per RPC conversion, see Trace_RpcConv.tla"})


def run(c):
    thorough = c.tier == "thorough"
    binp = c.cargo_build("vh-sciparse", bin="signedseg")
    if c.replay:
        return run_replay_file(c, binp, c.replay)
    c.assumptions += [
        "symbolic crypto: a signature opens exactly to (key, header, body, info, preceding entries) - ECDSA/SHA-256 and the DER codec are trusted primitives; malleability (r, n-s) is outside the property's quantifier",
        "abstract bit b of the model is mapped to a concrete bit of the region by the harness (replay); the flips step and the traces use concrete bit positions",
        "a tampered message refused as a whole by try_from_rpc counts as rejection of every entry",
        "TLC 1.8.0, CommunityModules Json/IOUtils",
    ]
    c.cov["rule"] = ("evaluations = per-entry verdicts obtained from the real code (3 observation points) + RPC conversions; "
                     "non-trivial = distinct tampered segments (>= 1 tamper) replayed + distinct single-bit flips + "
                     "recorded runs with >= 1 tamper + RPC cells/messages")

    # ---- 1. exhaustive model checking + generation --------------------------------------------
    r0 = c.tlc(SD, "MC_SignedSegment", cfg=cfg(c, "mc_unfixed.cfg", MC_TMPL.format(
        fixed="FALSE", nmax=3, maxn=2, depth=1, bits="{0}", gen="FALSE", variants="{0}", extra="")), expect_violation=True, coverage=False)
    if "Sound" not in r0.violated:
        c.fail_tool("oracle self-check failed: the pinned-commit lookup (FIXED = FALSE) no longer violates Sound in the model")
    runs = [dict(maxn=5, depth=2, bits="{0}")]
    if thorough:
        runs += [dict(maxn=3, depth=3, bits="{0, 1}")]
    cases = []
    seen = set()
    for i, k in enumerate(runs):
        r = c.tlc(SD, "MC_SignedSegment", cfg=cfg(c, "mc_%d.cfg" % i, MC_TMPL.format(
            fixed="TRUE", nmax=5, gen="TRUE", variants="{0, 1}", extra="Emit", **k)), timeout=3000)
        for inv in r.violated:
            c.violation("spec:%s" % inv, "design-level: invariant %s violated on MC_SignedSegment (%s); see %s" % (inv, k, r.out_path), {"tlc_out": r.out_path})
        if r.ok:
            c.require_coverage(r, ["MCNext"])
        for h in c.printed_json(r, "REPLAY"):
            key = json.dumps(h, sort_keys=True)
            if key not in seen:
                seen.add(key)
                cases.append(h)
    if not cases:
        c.fail_tool("generation run printed no cases")
    ops_seen = {t["op"] for h in cases for t in h["h"]}
    if set(ALL_OPS) - ops_seen:
        c.fail_tool("vacuous model: tamper actions never taken: %s" % sorted(set(ALL_OPS) - ops_seen))
    c.cov["exhaustive"] = True

    # ---- 2. replay on real P-256 segments ---------------------------------------------------
    inp = os.path.join(c.work, "replay_in.ndjson")
    outp = os.path.join(c.work, "replay_out.ndjson")
    write_ndjson(inp, cases)
    rc, so = c.sh([binp, "replay", inp, outp], timeout=3000)
    if rc != 0:
        c.fail_tool("replay harness failed rc=%s %s" % (rc, (so or "")[-500:]))
    res = read_ndjson(outp)
    if len(res) != len(cases):
        c.fail_tool("replay produced %d results for %d cases" % (len(res), len(cases)))
    mism = 0
    verdicts = 0
    rejected = 0
    accepted_entries = 0
    for h, o in zip(cases, res):
        if "tool_error" in o:
            c.fail_tool("harness could not apply %s: %s" % (hist_str(h["h"]), o["tool_error"]))
        if o["conv"] == "ok":
            verdicts += 3 * len(o["entries"])
            accepted_entries += sum(1 for e in o["entries"] if e["vs"] == "ok")
        if o.get("rejected"):
            rejected += 1
        if not o["conf"]:
            mism += 1
            c.drift("replay %s (n=%d): I-layer outcome classes %s, real %s" % (
                hist_str(h["h"]), h["n"], [e["o"] for e in h["e"]], [e["vs"] for e in o.get("entries", [])]))
        for pv in o["pv"]:
            c.violation(pv["key"], pv["what"] + " after " + hist_str(h["h"]) + " on the honest segment of %d entries" % h["n"],
                        {"kind": "tamper", "case": h, "real": o})
        if o["rt"] not in ("same", "na"):
            c.violation("RoundTrip:SignedPathSegment", "a signed segment does not survive into_rpc/try_from_rpc (%s) after %s" % (o["rt"], hist_str(h["h"])),
                        {"kind": "tamper", "case": h, "real": o})
    # vacuity is judged on what the GENERATOR asked for, never on what the code under test answered
    want_valid = sum(1 for h in cases for e in h["e"] if e["v"])
    want_invalid = sum(1 for h in cases for e in h["e"] if not e["v"])
    if want_valid == 0 or want_invalid == 0:
        c.fail_tool("vacuous generation: expected-valid entries=%d, expected-invalid entries=%d" % (want_valid, want_invalid))
    c.cov["entries_accepted_by_code"] = accepted_entries
    c.cov["replayed"] = len(cases)
    c.cov["replay_conformance_mismatches"] = mism
    c.cov["evaluations"] = verdicts
    c.cov["distinct_nontrivial"] = sum(1 for h in cases if h["h"])
    c.cov["segments_refused_at_conversion"] = rejected
    mid = cases[len(cases) // 2]
    c.sample({"tampers": hist_str(mid["h"]), "n": mid["n"], "expected_valid": [e["v"] for e in mid["e"]]})
    c.sample({"tampers": hist_str(cases[-1]["h"]), "n": cases[-1]["n"], "expected_valid": [e["v"] for e in cases[-1]["e"]]})

    # ---- 3. every single bit ------------------------------------------------------------------
    fl = [h for h in cases if len(h["h"]) == 1 and h["h"][0]["op"] in FLIPS and h["h"][0]["b"] == 0]
    finp = os.path.join(c.work, "flips_in.ndjson")
    foutp = os.path.join(c.work, "flips_out.json")
    write_ndjson(finp, fl)
    rc, so = c.sh([binp, "flips", finp, foutp], timeout=3000)
    if rc != 0:
        c.fail_tool("flips harness failed rc=%s %s" % (rc, (so or "")[-500:]))
    fr = json.load(open(foutp))
    for pv in fr["pv"]:
        c.violation("%s:bit" % pv["key"], pv["what"] + " after flipping bit %d (%s of entry %d, honest segment of %d entries)" % (pv["bit"], pv["op"], pv["a"], pv["n"]),
                    {"kind": "flip", "n": pv["n"], "op": pv["op"], "a": pv["a"], "bit": pv["bit"], "real": pv["real"],
                     "case": next((h for h in fl if h["n"] == pv["n"] and h["h"][0]["op"] == pv["op"] and h["h"][0]["a"] == pv["a"]), None)})
    want = sum(1 for h in fl if h["n"] <= 3 or thorough)
    honest_failed = any(pv["key"].startswith("RejectsValid:honest-construction") for pv in fr["pv"])
    if not honest_failed and (fr["exhaustive_cases"] != want or fr["flips"] < 5000):
        c.fail_tool("bit-flip campaign incomplete: %s exhaustive cases (want %d), %s flips" % (fr["exhaustive_cases"], want, fr["flips"]))
    c.cov["bit_flips"] = fr["flips"]
    c.cov["bit_flip_classes"] = fr["classes"]
    c.cov["evaluations"] += fr["verifications"]
    c.cov["distinct_nontrivial"] += fr["flips"]
    c.sample({"bit_flips": fr["flips"], "all_bits_of": "%d (entry, region) pairs of segments with <= 3 entries" % fr["exhaustive_cases"]})

    # ---- 4. RPC conversion decision table --------------------------------------------------------
    r = c.tlc(SD, "MC_RpcConv", cfg="MC_RpcConv.cfg", timeout=3600, coverage=False)
    cells = c.printed_json(r, "CELL")
    if len(cells) < 1000:
        c.fail_tool("RpcConv table printed only %d cells" % len(cells))
    cinp = os.path.join(c.work, "rpc_in.ndjson")
    coutp = os.path.join(c.work, "rpc_out.ndjson")
    write_ndjson(cinp, cells)
    rc, so = c.sh([binp, "rpc", cinp, coutp], timeout=3600)
    if rc != 0:
        c.fail_tool("rpc harness failed rc=%s %s" % (rc, (so or "")[-500:]))
    rres = read_ndjson(coutp)
    kinds_ok = {}
    for cell, o in zip(cells, rres):
        if o["got"] == "ok":
            kinds_ok[cell["k"]] = kinds_ok.get(cell["k"], 0) + 1
        if not judge_rpc(c, cell, o):
            mism += 1
            c.drift("RpcConv %s %s: table says %s, real %s (%s)" % (cell["k"], cell["f"], cell["x"], o["got"], o["detail"][:80]))
    for k in ("HopField", "HopEntry", "PeerEntry", "SegInfo", "AsEntry", "PathSegment", "Segments", "PathInterface", "Path"):
        if not any(cell["k"] == k and cell["x"] == "ok" for cell in cells):
            c.fail_tool("vacuous RPC table: no %s cell is expected to convert" % k)
    c.cov["rpc_cells_converted_by_code"] = kinds_ok
    c.cov["rpc_cells"] = len(cells)
    c.cov["replayed"] += len(cells)
    c.cov["evaluations"] += len(cells)
    c.cov["distinct_nontrivial"] += len(cells)
    c.sample({"rpc_cell": cells[len(cells) // 3]})

    # ---- 5. recorded executions -> trace validation -----------------------------------------------
    trace_step(c, binp)
