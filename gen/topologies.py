#!/usr/bin/env python3
"""Instance-data generator for the ScionNet specifications (DESIGN.md 6.1).

Produces topology families as ndjson (one topology per line); TLC reads them with
ndJsonDeserialize, the Rust harness receives them back inside TLC's output.  NO oracle logic lives
here: this file only enumerates *inputs* (valid SCION topologies) - which paths exist, which
packets are forwarded etc. is decided by the TLA+ reference alone.

Topology JSON (AS ids are 1..k and equal the position in "as"):
  {"name": str,
   "as":    [{"id": i, "isd": 1|2|3, "core": bool, "mtu": int, "exp": 0..255}],
   "links": [{"a": i, "aif": n, "b": j, "bif": m, "t": "core"|"parent"|"peer", "mtu": int}]}
"parent": a is the parent of b.  Interface ids are unique per AS and non-zero.

Families
  T(k)      all valid topologies with k ASes up to isomorphism: <= 2 ISDs, >= 1 core per ISD,
            at most one link per AS pair, <= 1 peering link, connected, every non-core AS has a
            parent (same ISD), parent relation acyclic.  |T(2)|=5 |T(3)|=28 |T(4)|=311.
  T(k)+par  members of T(k) with one core/parent link doubled (parallel link).
  shapes    named 4..6-AS shapes (diamond, shortcut-Y, peering-H, two-ISD bridge, inverted core ...)
  random    seeded random larger valid topologies (used by the trace-validation tier); rich=True guarantees a
            peering link between non-core ASes and a parallel link

usage: topologies.py family <k> [--parallel] | shapes | random <n> <seed> [<min_as> <max_as>]
"""
import itertools
import json
import sys


# ----------------------------------------------------------------------------------------------
# interface numbering / MTU / expiry decoration (pure input variation)
def decorate(name, isds, cores, links, variant=0):
    """links: list of (a, b, t) (for parent: a parent of b). Returns the topology dict."""
    k = len(isds)
    nxt = {x: 0 for x in range(1, k + 1)}

    def ifid(x):
        nxt[x] += 1
        n = nxt[x]
        if variant % 3 == 0:
            return n                      # 1,2,3.. per AS (ids collide across ASes)
        if variant % 3 == 1:
            return 10 * x + n             # globally distinct
        return ((x * 7 + n * 13) % 89) + 1 + (100 if n % 2 else 0)   # scattered, unique per AS for n < 89

    out_links = []
    for idx, (a, b, t) in enumerate(links):
        out_links.append({"a": a, "aif": ifid(a), "b": b, "bif": ifid(b), "t": t,
                          "mtu": 1300 + 17 * ((idx * 5 + variant) % 11)})
    ases = [{"id": x, "isd": isds[x - 1], "core": bool(cores[x - 1]),
             "mtu": 1400 + 23 * ((x * 3 + variant) % 7),
             "exp": [63, 11, 200, 5, 120, 33][(x + variant) % 6]} for x in range(1, k + 1)]
    for x in range(1, k + 1):
        ids = [l["aif"] for l in out_links if l["a"] == x] + [l["bif"] for l in out_links if l["b"] == x]
        assert len(ids) == len(set(ids)) and 0 not in ids
    return {"name": name, "as": ases, "links": out_links}


# ----------------------------------------------------------------------------------------------
def valid_structure(k, isds, cores, links):
    """The family's side conditions (connected, parents, acyclic); link typing rules are enforced by
    construction in enumerate_family."""
    # every ISD has at least one core AS
    for i in set(isds):
        nc = sum(1 for x in range(k) if isds[x] == i and cores[x])
        if nc < 1:
            return False
    # connected (all link types)
    adj = {x: set() for x in range(1, k + 1)}
    for a, b, t in links:
        adj[a].add(b)
        adj[b].add(a)
    seen, todo = {1}, [1]
    while todo:
        x = todo.pop()
        for y in adj[x]:
            if y not in seen:
                seen.add(y)
                todo.append(y)
    if len(seen) != k:
        return False
    # every non-core AS has a parent
    for x in range(1, k + 1):
        if not cores[x - 1] and not any(t == "parent" and b == x for a, b, t in links):
            return False
    # parent relation acyclic
    par = {x: [b for a, b, t in links if t == "parent" and a == x] for x in range(1, k + 1)}
    state = {}

    def dfs(x):
        state[x] = 1
        for y in par[x]:
            if state.get(y) == 1 or (y not in state and not dfs(y)):
                return False
        state[x] = 2
        return True
    for x in range(1, k + 1):
        if x not in state and not dfs(x):
            return False
    return True


def canon(k, isds, cores, links):
    best = None
    for perm in itertools.permutations(range(1, k + 1)):
        m = dict(zip(range(1, k + 1), perm))
        isd2 = [0] * k
        core2 = [0] * k
        for x in range(1, k + 1):
            isd2[m[x] - 1] = isds[x - 1]
            core2[m[x] - 1] = cores[x - 1]
        # rename ISDs by first appearance
        ren = {}
        for v in isd2:
            ren.setdefault(v, len(ren) + 1)
        isd2 = tuple(ren[v] for v in isd2)
        l2 = []
        for a, b, t in links:
            a2, b2 = m[a], m[b]
            if t != "parent" and a2 > b2:
                a2, b2 = b2, a2
            l2.append((a2, b2, t))
        key = (isd2, tuple(core2), tuple(sorted(l2)))
        if best is None or key < best:
            best = key
    return best


def enumerate_family(k):
    seen = {}
    pairs = list(itertools.combinations(range(1, k + 1), 2))
    for isds in itertools.product((1, 2), repeat=k):
        if isds[0] != 1:
            continue
        for cores in itertools.product((0, 1), repeat=k):
            opts = []
            for a, b in pairs:
                o = [None, ("peer",)]
                same = isds[a - 1] == isds[b - 1]
                ca, cb = cores[a - 1], cores[b - 1]
                if ca and cb:
                    o.append(("core",))
                elif same:
                    if ca and not cb:
                        o.append(("parent", a, b))
                    elif cb and not ca:
                        o.append(("parent", b, a))
                    else:
                        o.append(("parent", a, b))
                        o.append(("parent", b, a))
                opts.append(o)
            for choice in itertools.product(*opts):
                links = []
                npeer = 0
                for (a, b), c in zip(pairs, choice):
                    if c is None:
                        continue
                    if c[0] == "peer":
                        npeer += 1
                        links.append((a, b, "peer"))
                    elif c[0] == "core":
                        links.append((a, b, "core"))
                    else:
                        links.append((c[1], c[2], "parent"))
                if npeer > 1:
                    continue
                if not valid_structure(k, isds, cores, links):
                    continue
                key = canon(k, isds, cores, links)
                if key not in seen:
                    seen[key] = key
    out = []
    for n, key in enumerate(sorted(seen)):
        isds, cores, links = key
        out.append(decorate("T%d-%03d" % (k, n), list(isds), list(cores), list(links), variant=n))
    return out


def with_parallel(topos, k):
    """One core/parent link doubled (a second link of the same type between the same ASes)."""
    out = []
    for t in topos:
        isds = [a["isd"] for a in t["as"]]
        cores = [a["core"] for a in t["as"]]
        base = [(l["a"], l["b"], l["t"]) for l in t["links"]]
        for i, (a, b, ty) in enumerate(base):
            if ty == "peer":
                continue
            links = base[:i + 1] + [(a, b, ty)] + base[i + 1:]
            out.append(decorate("%s+par%d" % (t["name"], i), isds, cores, links, variant=len(out)))
    return out


# ----------------------------------------------------------------------------------------------
def shapes():
    S = []

    def add(name, isds, cores, links, variant):
        assert valid_structure(len(isds), isds, cores, links), name
        S.append(decorate(name, isds, cores, links, variant))
    P, C, X = "parent", "core", "peer"
    # 1 diamond: core 1; 2,3 children; 4 child of both
    add("diamond", [1] * 4, [1, 0, 0, 0], [(1, 2, P), (1, 3, P), (2, 4, P), (3, 4, P)], 0)
    # 2 shortcut-Y: core 1 -> 2 -> {3,4}: 3<->4 shortcut at the non-core AS 2
    add("shortcut-Y", [1] * 4, [1, 0, 0, 0], [(1, 2, P), (2, 3, P), (2, 4, P)], 1)
    # 3 design prototype (Appendix B): 1->2, 2->3, 2->4, 1->5, 5~3 peering
    add("appendixB", [1] * 5, [1, 0, 0, 0, 0], [(1, 2, P), (2, 3, P), (2, 4, P), (1, 5, P), (5, 3, X)], 2)
    # 4 peering-H: two cores, each with a child; children peer
    add("peering-H", [1] * 4, [1, 1, 0, 0], [(1, 2, C), (1, 3, P), (2, 4, P), (3, 4, X)], 0)
    # 5 two-ISD bridge with peering between the non-core ASes
    add("two-isd-bridge", [1, 1, 2, 2], [1, 0, 1, 0], [(1, 3, C), (1, 2, P), (3, 4, P), (2, 4, X)], 1)
    # 6 inverted core: three cores in a line; children at both ends (core segment used both ways)
    add("inverted-core", [1] * 5, [1, 1, 1, 0, 0], [(1, 2, C), (2, 3, C), (1, 4, P), (3, 5, P)], 2)
    # 7 core triangle with one child: several core segments per pair
    add("core-triangle", [1, 1, 2, 1], [1, 1, 1, 0], [(1, 2, C), (2, 3, C), (1, 3, C), (1, 4, P)], 0)
    # 8 deep chain with peering between depth-2 nodes of two branches
    add("deep-peer", [1] * 5, [1, 0, 0, 0, 0], [(1, 2, P), (1, 3, P), (2, 4, P), (3, 5, P), (4, 5, X), (2, 3, X)], 1)
    # 9 multi-parent ladder: 1 core; 2,3 children; 4 child of 2 and 3; 5 child of 4 and 2
    add("ladder", [1] * 5, [1, 0, 0, 0, 0], [(1, 2, P), (1, 3, P), (2, 4, P), (3, 4, P), (4, 5, P), (2, 5, P)], 2)
    # 10 parallel links everywhere + peering at the leaf
    add("parallel-peer", [1, 1, 2, 2], [1, 0, 1, 0],
        [(1, 3, C), (1, 3, C), (1, 2, P), (1, 2, P), (3, 4, P), (2, 4, X), (2, 4, X)], 0)
    # 11 peer link at a core AS (core AS entry carries a peer entry)
    add("core-peer", [1, 1, 2, 2], [1, 0, 1, 0], [(1, 3, C), (1, 2, P), (3, 4, P), (1, 4, X), (2, 3, X)], 1)
    # 12 six ASes, two ISDs, two cores each
    add("two-by-two", [1, 1, 1, 2, 2, 2], [1, 1, 0, 1, 1, 0],
        [(1, 2, C), (1, 4, C), (2, 5, C), (4, 5, C), (1, 3, P), (2, 3, P), (4, 6, P), (5, 6, P), (3, 6, X)], 2)
    return S


# ----------------------------------------------------------------------------------------------
class Rng:
    """splitmix64, same as vh_core::Rng (so the harness could regenerate; not required)."""

    def __init__(self, seed):
        self.s = (seed * 0x9E3779B97F4A7C15 + 0xD1B54A32D192ED03) & (2 ** 64 - 1)

    def next(self):
        self.s = (self.s + 0x9E3779B97F4A7C15) & (2 ** 64 - 1)
        z = self.s
        z = ((z ^ (z >> 30)) * 0xBF58476D1CE4E5B9) & (2 ** 64 - 1)
        z = ((z ^ (z >> 27)) * 0x94D049BB133111EB) & (2 ** 64 - 1)
        return z ^ (z >> 31)

    def below(self, n):
        return self.next() % n

    def chance(self, a, b):
        return self.below(b) < a


def random_topology(rng, name, nmin, nmax, rich=False):
    k = nmin + rng.below(nmax - nmin + 1)
    nisd = 1 + rng.below(min(3, max(1, k // 3)))
    isds, cores = [], []
    # cores first: 1..2 per ISD
    for i in range(1, nisd + 1):
        for _ in range(1 + rng.below(2)):
            isds.append(i)
            cores.append(1)
    while len(isds) < k:
        isds.append(1 + rng.below(nisd))
        cores.append(0)
    k = len(isds)
    links = []
    core_ids = [x for x in range(1, k + 1) if cores[x - 1]]
    # core mesh: spanning chain + extras
    for i in range(1, len(core_ids)):
        links.append((core_ids[rng.below(i)], core_ids[i], "core"))
    for a, b in itertools.combinations(core_ids, 2):
        if rng.chance(1, 4):
            links.append((a, b, "core"))
    # non-core: parents among earlier ASes of the same ISD (acyclic by construction)
    for x in range(1, k + 1):
        if cores[x - 1]:
            continue
        cands = [y for y in range(1, x) if isds[y - 1] == isds[x - 1]]
        n = 1 + (1 if rng.chance(1, 3) and len(cands) > 1 else 0)
        chosen = set()
        for _ in range(n):
            chosen.add(cands[rng.below(len(cands))])
        for y in sorted(chosen):
            links.append((y, x, "parent"))
            if rng.chance(1, 8):
                links.append((y, x, "parent"))     # parallel link
    # peering links
    for _ in range(rng.below(3)):
        a = 1 + rng.below(k)
        b = 1 + rng.below(k)
        if a != b and not (cores[a - 1] and cores[b - 1] and rng.chance(1, 2)):
            links.append((min(a, b), max(a, b), "peer"))
    if rich:
        # guarantee a peering link between two non-core ASes and a parallel (doubled) core/parent link
        nc = [x for x in range(1, k + 1) if not cores[x - 1]]
        if len(nc) >= 2 and not any(t == "peer" and not cores[a - 1] and not cores[b - 1] for a, b, t in links):
            for _ in range(20):
                a = nc[rng.below(len(nc))]
                b = nc[rng.below(len(nc))]
                if a != b and not any({x, y} == {a, b} for x, y, t in links):
                    links.append((min(a, b), max(a, b), "peer"))
                    break
        base = [l for l in links if l[2] != "peer"]
        if base and len(set(base)) == len(base):
            links.append(base[rng.below(len(base))])
    assert valid_structure(k, isds, cores, links)
    return decorate(name, isds, cores, links, variant=rng.below(3))


def main(argv):
    if len(argv) < 2:
        print(__doc__)
        return 2
    if argv[1] == "family":
        k = int(argv[2])
        t = enumerate_family(k)
        if "--parallel" in argv:
            t = with_parallel(t, k)
    elif argv[1] == "shapes":
        t = shapes()
    elif argv[1] == "random":
        n, seed = int(argv[2]), int(argv[3])
        nmin = int(argv[4]) if len(argv) > 4 else 6
        nmax = int(argv[5]) if len(argv) > 5 else 12
        rng = Rng(seed)
        t = [random_topology(rng, "R%d-%03d" % (seed, i), nmin, nmax) for i in range(n)]
    else:
        print(__doc__)
        return 2
    for x in t:
        sys.stdout.write(json.dumps(x, separators=(",", ":")) + "\n")
    return 0


if __name__ == "__main__":
    sys.exit(main(sys.argv))
