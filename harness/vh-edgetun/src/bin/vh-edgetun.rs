//! C17 harness: binds spec/Reassembly to anapaya_edge_tun::fragmenting.
//!
//! vh-edgetun replay <in.ndjson> <out.ndjson>   spec -> impl: run TLC behaviours on the real Defragmenter
//! vh-edgetun record <out.ndjson> <results.json> impl -> spec: seeded drivers, events for Trace_Reassembly
use std::collections::HashMap;

use anapaya_edge_tun::fragmenting::{
    DefragmentInsertError, Defragmenter, Fragmenter, MAX_MTU, MAX_PACKET_SIZE, MIN_MTU,
};
use serde_json::{Value, json};
use vh_core::{NdjsonWriter, Rng, catch};

const HDR: usize = 16;
const LAST: u16 = 0x8000;
const NEVER_LOG: u64 = 2147483647;

fn frame_bytes(so: u64, off: u16, last: bool, payload: &[u8]) -> Vec<u8> {
    let mut v = Vec::with_capacity(HDR + payload.len());
    v.extend_from_slice(&so.to_be_bytes());
    v.extend_from_slice(&off.to_be_bytes());
    v.extend_from_slice(&(if last { LAST } else { 0 }).to_be_bytes());
    v.extend_from_slice(&[0u8; 4]);
    v.extend_from_slice(payload);
    v
}

fn err_class(e: &DefragmentInsertError) -> &'static str {
    match e {
        DefragmentInsertError::QueueNotAccepting => "queue_idle",
        DefragmentInsertError::InvalidHeader => "invalid_header",
        DefragmentInsertError::InvalidHeaderValue(_, m) => m,
        DefragmentInsertError::OutOfBounds(_) => "segment_out_of_bounds",
        DefragmentInsertError::Duplicate(_) => "duplicate",
        DefragmentInsertError::TooOld(_) => "segment_too_old",
    }
}

/// Observable result of one recv on the real reassembler.
#[derive(Clone, Debug)]
enum Out {
    None,
    Emit { so: u64, data: Vec<u8> },
    Err(String),
    Panic(String),
}

fn recv(d: &mut Defragmenter, frame: &[u8]) -> Out {
    match catch(|| match d.recv(frame) {
        Ok(None) => Out::None,
        Ok(Some(p)) => Out::Emit { so: p.stream_offset, data: p.payload.to_vec() },
        Err(e) => Out::Err(err_class(&e).to_string()),
    }) {
        Ok(o) => o,
        Err(m) => Out::Panic(m),
    }
}

// ------------------------------------------------------------------------------------ replay

fn replay(inp: &str, outp: &str) {
    let lines = vh_core::read_ndjson(inp);
    let meta = &lines[0];
    let q = meta["q"].as_u64().unwrap() as usize;
    let unit = meta["unit"].as_u64().unwrap() as usize;
    let somul = meta["somul"].as_u64().unwrap();
    let mut w = NdjsonWriter::create(outp);
    for (i, line) in lines.iter().enumerate().skip(1) {
        let h = line["h"].as_array().unwrap();
        let mut d = Defragmenter::new_unobserved(q);
        // frames delivered so far: (so, off_bytes, len_bytes, tag)
        let mut seen: Vec<(u64, usize, usize, u8)> = vec![];
        let mut emitted: Vec<u64> = vec![];
        let mut pv: Vec<Value> = vec![];
        let mut mis: Option<Value> = None;
        let mut real_steps: Vec<Value> = vec![];
        for (k, st) in h.iter().enumerate() {
            let f = &st["f"];
            let so = f["so"].as_u64().unwrap() * somul;
            let off = f["off"].as_u64().unwrap() as usize * unit;
            let len = f["len"].as_u64().unwrap() as usize * unit;
            let last = f["last"].as_bool().unwrap();
            let tag = (k + 1) as u8;
            let fb = frame_bytes(so, off as u16, last, &vec![tag; len]);
            seen.push((so, off, len, tag));
            let o = recv(&mut d, &fb);
            let spec = &st["o"];
            let real = match &o {
                Out::None => json!({"kind":"none"}),
                Out::Err(c) => json!({"kind":"err","class":c}),
                Out::Panic(m) => json!({"kind":"panic","msg":m}),
                Out::Emit { so, data } => json!({"kind":"emit","so":so / somul.max(1),"size":data.len() / unit.max(1), "bytes": data.len()}),
            };
            // ---- P-monitors on the real output
            match &o {
                Out::Panic(m) => pv.push(json!({"key": format!("Panic:{}", &m[..m.len().min(60)]), "step": k, "what": format!("recv panicked: {m}")})),
                Out::Emit { so: eso, data } => {
                    if data.len() > MAX_PACKET_SIZE {
                        pv.push(json!({"key":"EmitInRange","step":k,"what":"emitted packet larger than MAX_PACKET_SIZE"}));
                    }
                    // Integrity: every byte carries the tag of a delivered frame of the same packet covering that position
                    let mut bad: Option<(usize, u8)> = None;
                    for (p, b) in data.iter().enumerate() {
                        let ok = seen.iter().any(|(s, o, l, t)| *s == *eso && *t == *b && *o <= p && p < *o + *l);
                        if !ok {
                            bad = Some((p, *b));
                            break;
                        }
                    }
                    if let Some((p, b)) = bad {
                        let whose = if b == 0 { "never written".to_string() } else {
                            let (s, _, _, _) = seen[(b - 1) as usize];
                            format!("written by frame #{} of packet {}", b, s / somul.max(1))
                        };
                        pv.push(json!({"key":"Integrity:foreign-or-stale-bytes","step":k,
                            "what": format!("emitted packet so={} size={}B: byte {} is {}", eso / somul.max(1), data.len(), p, whose)}));
                    }
                    // AtMostOnce
                    if emitted.contains(eso) {
                        let spec_emits = spec["kind"] == "emit";
                        let key = if last && off == 0 { "AtMostOnce:single-frame-packet-duplicated" }
                            else if spec_emits { "AtMostOnce:reassembled-again-after-slot-reuse" }
                            else { "AtMostOnce:reemission-not-allowed-by-spec" };
                        pv.push(json!({"key":key,"step":k,"what":format!("packet so={} emitted a second time", eso / somul.max(1))}));
                    }
                    emitted.push(*eso);
                }
                _ => {}
            }
            // ---- conformance with the I-spec
            let same = match (&o, spec["kind"].as_str().unwrap_or("")) {
                (Out::None, "none") => true,
                (Out::Err(c), "err") => spec["class"] == c.as_str(),
                (Out::Emit { so: eso, data }, "emit") => {
                    spec["so"].as_u64() == Some(eso / somul.max(1)) && spec["size"].as_u64().map(|s| s as usize * unit) == Some(data.len())
                }
                _ => false,
            };
            real_steps.push(real.clone());
            if !same && mis.is_none() {
                mis = Some(json!({"step":k,"spec":spec,"real":real}));
            }
        }
        w.write(&json!({"i": i, "conf": mis.is_none(), "mis": mis, "pv": pv, "real": real_steps}));
    }
    w.finish();
}

// ------------------------------------------------------------------------------------ record

struct Recorder {
    w: NdjsonWriter,
    events: u64,
}
impl Recorder {
    fn so_log(so: u64) -> u64 {
        if so == u64::MAX { NEVER_LOG } else { so }
    }
}

struct RunState {
    d: Defragmenter,
    // per stream offset: frames delivered (off, bytes)
    seen: HashMap<u64, Vec<(usize, Vec<u8>)>>,
    sent: HashMap<u64, Vec<u8>>, // honest packets by stream offset
    emitted: HashMap<u64, u32>,
    strict: bool,
}

#[derive(Default)]
struct Stats {
    runs: u64,
    frames: u64,
    emits: u64,
    errs: HashMap<String, u64>,
    pv: Vec<Value>,
    nontrivial_runs: u64,
}

fn deliver(rs: &mut RunState, rec: &mut Recorder, st: &mut Stats, run: u64, so: u64, off: u16, last: bool, payload: &[u8], fi: i64, nf: i64, size: i64) {
    let fb = frame_bytes(so, off, last, payload);
    rs.seen.entry(so).or_default().push((off as usize, payload.to_vec()));
    let o = recv(&mut rs.d, &fb);
    st.frames += 1;
    let out = match &o {
        Out::None => json!({"kind":"none"}),
        Out::Err(c) => {
            *st.errs.entry(c.clone()).or_default() += 1;
            json!({"kind":"err","class":c})
        }
        Out::Panic(m) => {
            st.pv.push(json!({"key": format!("Panic:{}", &m[..m.len().min(60)]), "run": run, "what": format!("recv panicked: {m}"),
                "frame": {"so": so.to_string(), "off": off, "len": payload.len(), "last": last}}));
            json!({"kind":"panic"})
        }
        Out::Emit { so: eso, data } => {
            st.emits += 1;
            // Integrity on real bytes
            let frames = rs.seen.get(eso).cloned().unwrap_or_default();
            let mut bad = None;
            for (p, b) in data.iter().enumerate() {
                if !frames.iter().any(|(o, d)| *o <= p && p < *o + d.len() && d[p - *o] == *b) {
                    bad = Some(p);
                    break;
                }
            }
            if let Some(p) = bad {
                st.pv.push(json!({"key":"Integrity:foreign-or-stale-bytes","run":run,
                    "what": format!("emitted packet so={eso} size={}: byte {p} was not delivered in any frame of this packet", data.len())}));
            }
            if data.len() > MAX_PACKET_SIZE {
                st.pv.push(json!({"key":"EmitInRange","run":run,"what":"emitted packet larger than MAX_PACKET_SIZE"}));
            }
            if rs.strict {
                match rs.sent.get(eso) {
                    Some(p) if p == data => {}
                    Some(p) => st.pv.push(json!({"key":"HonestExact:differs-from-sent","run":run,
                        "what": format!("honest packet so={eso} sent {} bytes, emitted {} bytes / different content", p.len(), data.len())})),
                    None if fi < 0 => {} // completed from forged frames on an offset the honest sender never used
                    None => st.pv.push(json!({"key":"HonestExact:never-sent","run":run,"what":format!("emitted so={eso} which was never sent")})),
                }
            }
            let c = rs.emitted.entry(*eso).or_default();
            *c += 1;
            if *c > 1 {
                let fast = last && off == 0;
                let key = if fast { "AtMostOnce:single-frame-packet-duplicated" } else { "AtMostOnce:reassembled-again" };
                if !fast && (!rs.strict || fi < 0) {
                    // forged frames on this offset: "the same packet" is not well defined, only Integrity is judged
                    *c = 1;
                } else {
                    st.pv.push(json!({"key":key,"run":run,"what":format!("packet so={eso} emitted {} times", *c)}));
                }
            }
            json!({"kind":"emit","so":Recorder::so_log(*eso),"size":data.len()})
        }
    };
    rec.w.write(&json!({"ev":"recv","so":Recorder::so_log(so),"off":off,"len":payload.len(),"last":last,
        "fi":fi,"nf":nf,"size":size,"out":out}));
    rec.events += 1;
}

struct HFrame {
    so: u64,
    off: u16,
    last: bool,
    data: Vec<u8>,
    fi: i64,
    nf: i64,
    size: i64,
}

fn honest_packet(fr: &mut Fragmenter, rng: &mut Rng, size: usize) -> (u64, Vec<u8>, Vec<HFrame>) {
    let data = rng.bytes(size);
    let mut raw: Vec<(u64, u16, bool, Vec<u8>)> = vec![];
    let so = fr
        .send(&data, |f| raw.push((f.header.stream_offset, f.header.frame_offset, f.header.is_last(), f.fragment.to_vec())))
        .expect("honest send");
    let nf = raw.len() as i64;
    let frames = raw
        .into_iter()
        .enumerate()
        .map(|(i, (so, off, last, d))| HFrame { so, off, last, data: d, fi: i as i64, nf, size: size as i64 })
        .collect();
    (so, data, frames)
}

fn hostile_frame(rng: &mut Rng, sos: &[u64]) -> HFrame {
    const OFFS: [u16; 16] = [0, 1, 255, 256, 257, 512, 768, 1024, 1280, 65024, 65279, 65280, 65281, 65534, 65535, 32768];
    const LENS: [usize; 11] = [0, 1, 255, 256, 257, 512, 768, 1024, 1, 256, 256];
    let so = *rng.pick(sos);
    let off = if rng.chance(1, 8) { rng.below(65536) as u16 } else { *rng.pick(&OFFS) };
    let len = if rng.chance(1, 10) { rng.below(1400) as usize } else { *rng.pick(&LENS) };
    let last = rng.chance(1, 3);
    HFrame { so, off, last, data: rng.bytes(len), fi: -1, nf: 0, size: 0 }
}

fn record(outp: &str, resp: &str) {
    let seed = vh_core::seed_from_env();
    let thorough = vh_core::tier_is_thorough();
    let runs: u64 = std::env::var("VERIF_RUNS").ok().and_then(|s| s.parse().ok()).unwrap_or(if thorough { 160 } else { 60 });
    let q: usize = std::env::var("VERIF_Q").ok().and_then(|s| s.parse().ok()).unwrap_or(3);
    let mut rng = Rng::new(seed ^ (q as u64) << 32);
    let mut rec = Recorder { w: NdjsonWriter::create(outp), events: 0 };
    rec.w.write(&json!({"ev":"meta","q":q,"seed":seed}));
    let mut st = Stats::default();
    let mtus = [MIN_MTU, MIN_MTU + 1, 1500, MAX_MTU, 300, 4096];
    for run in 0..runs {
        let mode = run % 4; // 0 honest, 1 hostile, 2 mixed (disjoint offsets), 3 forged frames on honest offsets
        let strict = mode == 0 || mode == 2;
        rec.w.write(&json!({"ev":"reset","strict":strict,"mode":mode,"run":run}));
        let mut rs = RunState { d: Defragmenter::new_unobserved(q), seen: HashMap::new(), sent: HashMap::new(), emitted: HashMap::new(), strict };
        st.runs += 1;
        if mode == 1 {
            let sos = [0u64, 1000, 70000, 2_000_000_000, u64::MAX, 5];
            let n = rng.range(20, 120);
            for _ in 0..n {
                if rng.chance(1, 25) {
                    // short frame: header does not parse
                    let k = rng.below(HDR as u64) as usize;
                    let o = recv(&mut rs.d, &rng.bytes(k));
                    st.frames += 1;
                    let out = match o {
                        Out::Err(c) => json!({"kind":"err","class":c}),
                        Out::Panic(m) => { st.pv.push(json!({"key":"Panic:short-frame","run":run,"what":m})); json!({"kind":"panic"}) }
                        Out::None => json!({"kind":"none"}),
                        Out::Emit { .. } => json!({"kind":"emit","so":0,"size":0}),
                    };
                    rec.w.write(&json!({"ev":"short","out":out}));
                    rec.events += 1;
                    continue;
                }
                let f = hostile_frame(&mut rng, &sos);
                deliver(&mut rs, &mut rec, &mut st, run, f.so, f.off, f.last, &f.data, -1, 0, 0);
            }
            st.nontrivial_runs += 1;
            continue;
        }
        // honest sender
        let mtu = *rng.pick(&mtus);
        let mut fr = Fragmenter::new_unobserved(mtu);
        let w = fr.mtu() - HDR;
        let sizes = [1usize, 255, 256, 257, w - 1, w, w + 1, 2 * w, 2 * w + 1, 3 * w - 1, 65535, 65534, 40000];
        let npk = rng.range(3, if thorough { 40 } else { 14 });
        // packets are released in windows of up to q+1 concurrent packets; frames inside a window are shuffled
        let mut pending: Vec<HFrame> = vec![];
        let mut reordered = false;
        let mut k = 0;
        while k < npk {
            let win = rng.range(1, q as u64 + 1);
            let mut window: Vec<HFrame> = vec![];
            for _ in 0..win {
                if k >= npk { break; }
                k += 1;
                let mut size = if rng.chance(2, 3) { *rng.pick(&sizes) } else { rng.range(1, 65535) as usize };
                size = size.clamp(1, MAX_PACKET_SIZE);
                let (so, data, frames) = honest_packet(&mut fr, &mut rng, size);
                rs.sent.insert(so, data);
                window.extend(frames);
            }
            // channel: duplicate, drop, shuffle
            let mut ch: Vec<HFrame> = vec![];
            for f in window {
                if rng.chance(1, 12) { continue; } // loss
                if rng.chance(1, 10) {
                    ch.push(HFrame { so: f.so, off: f.off, last: f.last, data: f.data.clone(), fi: f.fi, nf: f.nf, size: f.size });
                }
                ch.push(f);
            }
            match rng.below(4) {
                0 => {}
                1 => { ch.reverse(); reordered = true; }
                _ => { rng.shuffle(&mut ch); reordered = true; }
            }
            // late stragglers from earlier windows
            if !pending.is_empty() && rng.chance(1, 2) {
                ch.extend(pending.drain(..));
            }
            for f in ch {
                if rng.chance(1, 30) { pending.push(f); continue; }
                if mode == 2 && rng.chance(1, 6) {
                    let h = hostile_frame(&mut rng, &[1_900_000_000, 1_900_000_777, 1_950_000_000]);
                    deliver(&mut rs, &mut rec, &mut st, run, h.so, h.off, h.last, &h.data, -1, 0, 0);
                }
                if mode == 3 && rng.chance(1, 5) {
                    let h = hostile_frame(&mut rng, &[f.so]);
                    deliver(&mut rs, &mut rec, &mut st, run, h.so, h.off, h.last, &h.data, -1, 0, 0);
                }
                deliver(&mut rs, &mut rec, &mut st, run, f.so, f.off, f.last, &f.data, f.fi, f.nf, f.size);
            }
        }
        if reordered { st.nontrivial_runs += 1; }
    }
    let Recorder { w, events } = rec;
    w.finish();
    let res = json!({"runs": st.runs, "frames": st.frames, "events": events, "emits": st.emits, "errs": st.errs,
        "nontrivial_runs": st.nontrivial_runs, "pv": st.pv, "q": q});
    std::fs::write(resp, serde_json::to_string_pretty(&res).unwrap()).expect("write results");
}

fn main() {
    vh_core::quiet_panics();
    let a: Vec<String> = std::env::args().collect();
    match a.get(1).map(|s| s.as_str()) {
        Some("replay") => replay(&a[2], &a[3]),
        Some("record") => record(&a[2], &a[3]),
        _ => {
            eprintln!("usage: vh-edgetun replay <in> <out> | record <events> <results>");
            std::process::exit(2);
        }
    }
}
