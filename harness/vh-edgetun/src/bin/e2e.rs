//! C17 end-to-end driver: honest packets through the REAL edge-tun data plane
//! (EdgeTunClientState <-> EdgeTunServerState: fragmenter -> WireGuard -> channel -> WireGuard ->
//! defragmenter), both directions, with a reordering / dropping / duplicating channel.
//!
//! e2e <events.ndjson> <results.json>
//!
//! P-monitors on real outputs: every delivered packet is byte-identical to a packet that was sent
//! and not yet delivered (HonestExact + AtMostOnce), a packet whose frames all arrived while at
//! most Q packets were in flight is delivered (Complete), no panic.
//! The frame-level events the harness can INFER from the sender's configuration (MTU window) are
//! logged for Trace_Reassembly (ev "recvx": outcome emit(size) or quiet), so TLC checks that the
//! data plane uses the reassembler as the specification says (slot count, window, offsets).
use std::{
    collections::{HashMap, VecDeque},
    net::{IpAddr, Ipv4Addr, SocketAddr},
    sync::Arc,
    time::Instant,
};

use ana_gotatun::{
    noise::{TunnResult, rate_limiter::RateLimiter},
    packet::{Packet, WgKind},
    x25519,
};
use anapaya_edge_tun::{
    data::{
        client_state::{EdgeTunClientConfig, EdgeTunClientState},
        common::{AsIpAddr, EdgePacketBufPool},
        server::{EdgeTunAuthz, EdgeTunServerState, InboundTrafficPolicy},
    },
    fragmenting::{
        MAX_MTU, MIN_MTU,
        metrics::{DefragmentMetrics, FragmentMetrics},
    },
};
use scion_sdk_observability::metrics::registry::MetricsRegistry;
use serde_json::{Value, json};
use vh_core::{NdjsonWriter, Rng, catch};

#[derive(Debug, Clone, PartialEq, Eq, Hash)]
struct Net(SocketAddr);
impl AsIpAddr for Net {
    fn ip(&self) -> Option<IpAddr> {
        Some(self.0.ip())
    }
}

struct Authz(Vec<(x25519::PublicKey, IpAddr)>);
impl EdgeTunAuthz<IpAddr> for Authz {
    fn is_authorized(&self, _now: Instant, id: &x25519::PublicKey) -> Option<IpAddr> {
        self.0.iter().find(|(k, _)| k == id).map(|(_, a)| *a)
    }
}
struct AllowAll;
impl InboundTrafficPolicy<IpAddr> for AllowAll {
    fn check_inbound_policy(&self, _: &x25519::PublicKey, _: &IpAddr, _: &[u8]) -> bool {
        true
    }
}

fn keypair(n: u8) -> (x25519::StaticSecret, x25519::PublicKey) {
    let mut b = [0u8; 32];
    b[1] = n;
    b[2] = 0x5a;
    let s = x25519::StaticSecret::from(b);
    let p = x25519::PublicKey::from(&s);
    (s, p)
}

fn make_packet(pool: &EdgePacketBufPool, payload: &[u8]) -> Packet {
    let mut p = pool.get();
    let buf = p.buf_mut();
    buf.truncate(0);
    buf.extend_from_slice(payload);
    p
}

const HDR: usize = 16;

/// frames the honest Fragmenter produces for a packet of `size` with payload window `w`
fn infer_frames(so: u64, size: usize, w: usize) -> Vec<(u64, usize, usize, bool)> {
    let nf = size.div_ceil(w);
    (0..nf).map(|i| (so, i * w, if i == nf - 1 { size - i * w } else { w }, i == nf - 1)).collect()
}

struct Sent {
    so: u64,
    data: Vec<u8>,
    nf: usize,
    delivered_frames: usize,
    lost: bool,
    window_ok: bool,
}

struct Dir {
    name: &'static str,
    w: usize, // sender payload window
    q: usize, // receiver slot count
    so: u64,  // next stream offset of the sender
}

fn main() {
    vh_core::quiet_panics();
    let a: Vec<String> = std::env::args().collect();
    if a.len() < 3 {
        eprintln!("usage: e2e <events.ndjson> <results.json>");
        std::process::exit(2);
    }
    let seed = vh_core::seed_from_env();
    let thorough = vh_core::tier_is_thorough();
    let runs: u64 = std::env::var("VERIF_RUNS").ok().and_then(|s| s.parse().ok()).unwrap_or(if thorough { 120 } else { 24 });
    let mut rng = Rng::new(seed ^ 0xE2E);
    let mut pv: Vec<Value> = vec![];
    let mut stats = json!({});
    let (mut n_sent, mut n_deliv, mut n_frames, mut n_runs_nontrivial) = (0u64, 0u64, 0u64, 0u64);
    // one events file per direction kind because Q differs (server side 8, client side configurable)
    let mut wq: HashMap<usize, NdjsonWriter> = HashMap::new();

    for run in 0..runs {
        let client_mtu = *rng.pick(&[MIN_MTU as u16, (MIN_MTU + 1) as u16, 576, 1420, 1500, MAX_MTU as u16, 100, 9500]);
        let server_mtu = *rng.pick(&[MIN_MTU as u16, 1420, 1280, MAX_MTU as u16, 300]);
        let client_q = *rng.pick(&[1usize, 2, 3, 8]);
        let r = catch(|| {
            let (ss, sp) = keypair(1);
            let (cs, cp) = keypair(2 + (run % 200) as u8);
            let taddr = IpAddr::V4(Ipv4Addr::new(10, 0, 0, 1));
            let net = Net("127.0.0.1:51820".parse().unwrap());
            let reg = MetricsRegistry::new();
            let reg2 = MetricsRegistry::new();
            let mut srv = EdgeTunServerState::new(
                ss, Arc::new(RateLimiter::new(&sp, 1000)), Arc::new(Authz(vec![(cp, taddr)])), Arc::new(AllowAll),
                EdgePacketBufPool::new(4096), server_mtu, FragmentMetrics::new(&reg), DefragmentMetrics::new(&reg));
            let mut cli: EdgeTunClientState<Net> = EdgeTunClientState::new(
                EdgePacketBufPool::new(4096),
                EdgeTunClientConfig { peer_static: sp, static_secret: cs, rate_limit: 1000, mtu: client_mtu,
                    defrag_queue_counts: client_q, persistent_keep_alive: None },
                FragmentMetrics::new(&reg2), DefragmentMetrics::new(&reg2));
            let pool = EdgePacketBufPool::new(4096);
            // ---- handshake (the trigger packet is queued by the client and sent after the handshake)
            let mut cq: VecDeque<WgKind> = VecDeque::new();
            let trigger = vec![0xEEu8; 1];
            cli.handle_outgoing_packet(make_packet(&pool, &trigger), &mut cq);
            let mut sq: VecDeque<WgKind> = VecDeque::new();
            let init = Packet::from(cq.pop_front().expect("handshake init")).into_bytes();
            let _ = srv.handle_incoming_packet(net.clone(), init, &mut sq);
            let resp = Packet::from(sq.pop_front().expect("handshake response")).into_bytes();
            let mut cq: VecDeque<WgKind> = VecDeque::new();
            let _ = cli.handle_incoming_packet(net.clone(), resp, &mut cq);
            let mut trigger_seen = 0;
            for wg in cq {
                let mut sq: VecDeque<WgKind> = VecDeque::new();
                if let TunnResult::WriteToTunnel(p) = srv.handle_incoming_packet(net.clone(), Packet::from(wg).into_bytes(), &mut sq) {
                    if &*p == &trigger[..] { trigger_seen += 1; }
                }
            }
            let _ = trigger_seen;
            // the trigger consumed stream offset 0..1 on the client's fragmenter
            let cw = (client_mtu as usize).clamp(MIN_MTU, MAX_MTU) - HDR;
            let sw = (server_mtu as usize).clamp(MIN_MTU, MAX_MTU) - HDR;
            let mut dirs = [Dir { name: "c2s", w: cw, q: 8, so: 1 }, Dir { name: "s2c", w: sw, q: client_q, so: 0 }];
            let mut local_pv: Vec<Value> = vec![];
            let mut events: Vec<(usize, Value)> = vec![];
            let mut reordered = false;
            let npk = rng.range(4, if thorough { 40 } else { 16 });
            for d in dirs.iter_mut() {
                events.push((d.q, json!({"ev":"reset","strict":true,"run":run,"dir":d.name})));
                if d.name == "c2s" {
                    // the handshake trigger packet (1 byte, single frame) was already received: account for it
                    events.push((d.q, json!({"ev":"recvx","so":0,"off":0,"len":1,"last":true,"fi":0,"nf":1,"size":1,"out":{"kind":"emit","so":0,"size":1}})));
                }
                let mut sent: Vec<Sent> = vec![];
                let mut delivered: Vec<Vec<u8>> = vec![];
                let mut k = 0;
                while k < npk {
                    // up to Q+1 concurrent packets; only windows of <= Q packets are guaranteed to complete
                    let win = rng.range(1, d.q as u64 + 1) as usize;
                    let window_ok = win <= d.q;
                    // (packet index, frame tuple, wire bytes)
                    let mut ch: Vec<(usize, (u64, usize, usize, bool), usize, Vec<u8>)> = vec![];
                    let first = sent.len();
                    for _ in 0..win {
                        if k >= npk { break; }
                        k += 1;
                        let sizes = [1usize, 2, 255, 256, 257, d.w - 1, d.w, d.w + 1, 2 * d.w, 2 * d.w + 1, 3 * d.w - 1, 5 * d.w, 7 * d.w + 3];
                        // mostly a handful of frames per packet; now and then the largest packets
                        let size = (if rng.chance(1, 25) { *rng.pick(&[65535usize, 65534, 30000]) }
                                    else if rng.chance(2, 3) { *rng.pick(&sizes) }
                                    else { rng.range(1, 8 * d.w as u64) as usize }).clamp(1, 65535);
                        let data = rng.bytes(size);
                        let frames = infer_frames(d.so, size, d.w);
                        let mut wire: Vec<Vec<u8>> = vec![];
                        if d.name == "c2s" {
                            let mut q: VecDeque<WgKind> = VecDeque::new();
                            cli.handle_outgoing_packet(make_packet(&pool, &data), &mut q);
                            for wg in q { wire.push(Packet::from(wg).into_bytes().to_vec()); }
                        } else {
                            let mut q: VecDeque<(Net, WgKind)> = VecDeque::new();
                            srv.handle_outgoing_packet(make_packet(&pool, &data), &taddr, &mut q);
                            for (_, wg) in q { wire.push(Packet::from(wg).into_bytes().to_vec()); }
                        }
                        let pi = sent.len();
                        if wire.len() != frames.len() {
                            local_pv.push(json!({"key":"E2E:frame-count-differs-from-fragmenter-contract","run":run,
                                "what": format!("{}: packet of {} bytes with payload window {} produced {} datagrams, expected {}", d.name, size, d.w, wire.len(), frames.len())}));
                        }
                        sent.push(Sent { so: d.so, data, nf: frames.len(), delivered_frames: 0, lost: wire.len() != frames.len(), window_ok });
                        d.so += size as u64;
                        for (fi, (fr, wb)) in frames.into_iter().zip(wire.into_iter()).enumerate() {
                            ch.push((pi, fr, fi, wb));
                        }
                    }
                    // channel
                    let mut out: Vec<(usize, (u64, usize, usize, bool), usize, Vec<u8>, bool)> = vec![];
                    for (pi, fr, fi, wb) in ch {
                        if rng.chance(1, 14) { sent[pi].lost = true; reordered = true; continue; }
                        if rng.chance(1, 12) { out.push((pi, fr, fi, wb.clone(), true)); }
                        out.push((pi, fr, fi, wb, false));
                    }
                    match rng.below(4) { 0 => {} 1 => { out.reverse(); reordered = true; } _ => { rng.shuffle(&mut out); reordered = true; } }
                    let _ = first;
                    let mut seen_wire: Vec<Vec<u8>> = vec![];
                    for (pi, fr, fi, wb, _dup) in out {
                        // WireGuard's anti-replay window drops the second copy of a datagram before the reassembler
                        let replayed = seen_wire.contains(&wb);
                        seen_wire.push(wb.clone());
                        n_frames += 1;
                        let pkt = make_packet(&pool, &wb);
                        let mut q2: VecDeque<WgKind> = VecDeque::new();
                        let res = if d.name == "c2s" { srv.handle_incoming_packet(net.clone(), pkt, &mut q2) } else { cli.handle_incoming_packet(net.clone(), pkt, &mut q2) };
                        let (so, off, len, last) = fr;
                        match res {
                            TunnResult::WriteToTunnel(p) => {
                                let got = p.to_vec();
                                // HonestExact + AtMostOnce on real bytes
                                // multiset comparison: small packets may legitimately have equal contents
                                let n_sent = sent.iter().filter(|s| s.data == got).count();
                                let n_deliv = delivered.iter().filter(|x| **x == got).count() + 1;
                                if n_deliv > n_sent {
                                    local_pv.push(json!({"key": if n_sent > 0 {"E2E:delivered-twice"} else {"E2E:delivered-bytes-never-sent"}, "run":run,
                                        "what": format!("{}: delivered {} bytes {} (sent {} time(s), delivered {} time(s))", d.name, got.len(),
                                            if n_sent > 0 {"more often than they were sent"} else {"that equal no packet sent"}, n_sent, n_deliv)}));
                                }
                                delivered.push(got.clone());
                                sent[pi].delivered_frames += 1;
                                events.push((d.q, json!({"ev":"recvx","so":so,"off":off,"len":len,"last":last,"fi":fi,"nf":sent[pi].nf,"size":sent[pi].data.len(),
                                    "out":{"kind":"emit","so":so,"size":got.len()}})));
                            }
                            TunnResult::Done if replayed => {}
                            TunnResult::Done => {
                                sent[pi].delivered_frames += 1;
                                events.push((d.q, json!({"ev":"recvx","so":so,"off":off,"len":len,"last":last,"fi":fi,"nf":sent[pi].nf,"size":sent[pi].data.len(),
                                    "out":{"kind":"quiet"}})));
                            }
                            // WireGuard refused the datagram (duplicate counter): it never reached the reassembler
                            TunnResult::Err(_) => {}
                            TunnResult::WriteToNetwork(_) => {}
                        }
                    }
                }
                // Complete: every packet none of whose frames was dropped must have been delivered
                for s in &sent {
                    if !s.lost && s.window_ok && !delivered.iter().any(|x| *x == s.data) {
                        local_pv.push(json!({"key":"E2E:complete-packet-not-delivered","run":run,
                            "what": format!("{}: packet so={} size={} ({} frames, none dropped, <= Q packets in flight) was never delivered", d.name, s.so, s.data.len(), s.nf)}));
                    }
                }
                n_sent += sent.len() as u64;
                n_deliv += delivered.len() as u64;
            }
            (local_pv, events, reordered)
        });
        match r {
            Ok((lpv, events, reordered)) => {
                pv.extend(lpv);
                if reordered { n_runs_nontrivial += 1; }
                for (q, e) in events {
                    let w = wq.entry(q).or_insert_with(|| {
                        let mut w = NdjsonWriter::create(&format!("{}.q{}", a[1], q));
                        w.write(&json!({"ev":"meta","q":q,"seed":seed,"e2e":true}));
                        w
                    });
                    w.write(&e);
                }
            }
            Err(m) => pv.push(json!({"key": format!("Panic:e2e:{}", &m[..m.len().min(60)]), "run": run, "what": format!("data plane panicked: {m}")})),
        }
    }
    let qs: Vec<usize> = wq.keys().cloned().collect();
    for (_, w) in wq { w.finish(); }
    stats["runs"] = json!(runs);
    stats["sent"] = json!(n_sent);
    stats["delivered"] = json!(n_deliv);
    stats["frames"] = json!(n_frames);
    stats["nontrivial_runs"] = json!(n_runs_nontrivial);
    stats["qs"] = json!(qs);
    stats["pv"] = json!(pv);
    std::fs::write(&a[2], serde_json::to_string_pretty(&stats).unwrap()).unwrap();
}
