//! ScionNet harness (C01, C04, C13): binds the TLA+ reference (spec/ScionNet) to the real code.
//!
//!   scionnet replay <in.ndjson> <out.ndjson>    spec -> impl: one instance per input line as printed by
//!                                               Gen_ScionNet (topology, reference segments, per pair the
//!                                               reference path set, attack packets with reference verdicts)
//!   scionnet record <topos.ndjson> <events.ndjson> <results.json>
//!                                               impl -> spec: larger random topologies, events for Trace_ScionNet
//!
//! Only P-monitors (the properties as stated, evaluated on real outputs of combine()/paths()/
//! simulate_traversal) produce entries in "pv"; disagreements with the I-spec go to "drift".
#[path = "../scionnet/mod.rs"]
mod sn;

fn main() {
    sn::main();
}
