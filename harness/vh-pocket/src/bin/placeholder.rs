fn main() {}
