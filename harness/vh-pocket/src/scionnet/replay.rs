//! spec -> impl replay: every instance printed by Gen_ScionNet is rebuilt on the real code.
use std::collections::HashMap;

use pocketscion::network::scion::segment::registry::SegmentRegistry;
use sciparse::{
    segment::list_segment_plan::{CoreHint, Dst, ListSegmentPlan, Src},
    identifier::asn::Asn,
    core::view::View,
    dataplane_path::{standard::model::StandardPath, view::ScionDpPathView, view::ScionDpPathViewRef},
    identifier::isd_asn::IsdAsn,
    path::{ScionPath, combinator::combine},
    segment::UnsignedPathSegment,
};
use serde_json::{Value, json};

use super::{
    model::{Attack, Inst, PlanRow, PlanTableRow, RefPath, RefPiece, RefStep},
    monitors::{Findings, TruthMtu, c04_list},
    world::{self, Offered, RealSeg, SimOut, World, build_segment, chain_facts, concretize, describe, path_class, simulate},
};

pub const TS_REG: u32 = 1_700_000_000;

pub struct Parts {
    pub c01: bool,
    pub c04: bool,
    pub c13: bool,
}

pub fn run(inp: &str, outp: &str) {
    let parts_s = std::env::var("SN_PARTS").unwrap_or_else(|_| "c01,c04,c13".into());
    let parts = Parts { c01: parts_s.contains("c01"), c04: parts_s.contains("c04"), c13: parts_s.contains("c13") };
    let lines = vh_core::read_ndjson(inp);
    let mut out = vh_core::NdjsonWriter::create(outp);
    let seed = vh_core::seed_from_env();
    for l in lines {
        let inst: Inst = match serde_json::from_value(l) {
            Ok(i) => i,
            Err(e) => {
                eprintln!("bad instance line: {e}");
                std::process::exit(2);
            }
        };
        let mut rng = vh_core::Rng::new(seed ^ ((inst.inst as u64) << 20));
        // a panic of the code under test outside the individually guarded calls is data, not a tool error
        let r = match vh_core::catch(|| replay_instance(&inst, &parts, &mut rng)) {
            Ok(r) => r,
            Err(p) => {
                let mut pv = vec![];
                for (prop, on) in [("C01", parts.c01), ("C04", parts.c04), ("C13", parts.c13)] {
                    if on {
                        pv.push(json!({"prop": prop, "key": "panic:replay", "what": format!("the code under test panicked while instance {} was replayed: {p}", inst.name), "detail": {"topo": inst.name}}));
                    }
                }
                json!({"inst": inst.inst, "name": inst.name, "pv": pv, "drift": [], "counts": {}, "pairs": []})
            }
        };
        out.write(&r);
    }
    out.finish();
}

pub fn ref_class(p: &RefPath) -> &'static str {
    if p.pieces.iter().any(|q| q.peer) {
        return "peering";
    }
    let top_unused = |q: &RefPiece| -> bool {
        let h = if q.cd { q.hops.first() } else { q.hops.last() };
        h.map(|h| h.cin != 0).unwrap_or(false)
    };
    match p.pieces.len() {
        1 if top_unused(&p.pieces[0]) => "onpath",
        2 if top_unused(&p.pieces[0]) || top_unused(&p.pieces[1]) => "shortcut",
        _ => "plain",
    }
}

fn seg_key(s: &UnsignedPathSegment) -> Vec<(IsdAsn, u16, u16)> {
    s.as_entries.iter().map(|e| (e.local, e.hop_entry.hop_field.cons_ingress, e.hop_entry.hop_field.cons_egress)).collect()
}

fn beacon_faults(w: &World, segs: &HashMap<u32, RealSeg>) -> (Vec<Value>, bool, bool) {
    // returns (facts that violate the chain rule, any regular hop wrong, any peer hop wrong)
    let mut bad = vec![];
    let (mut reg, mut peer) = (false, false);
    for rs in segs.values() {
        for (i, k, ok) in chain_facts(w, rs) {
            if !ok {
                if k == 0 {
                    reg = true
                } else {
                    peer = true
                }
                if bad.len() < 6 {
                    bad.push(json!({"seg": rs.id, "entry": i, "peer": k}));
                }
            }
        }
    }
    (bad, reg, peer)
}

/// Which components break an offered path the reference walks successfully (DESIGN.md 7/C01 Oracle):
///   beacon      a hop field used by the path carries a MAC that violates the chain rule (AsEntry::update_macs)
///   combinator  the offered path differs from the reference pieces cut from the SAME real segments
///   simulator   the reference packet built from spec-correct segments is not delivered either
fn localise(w: &World, segs: &HashMap<u32, RealSeg>, ideal: &HashMap<u32, RealSeg>, offered: &StandardPath, rp: Option<&RefPath>, src: u32, dst: u32, now: u32) -> String {
    let Some(rp) = rp else { return "unmatched".into() };
    let mut comps = vec![];
    let mut beacon = false;
    for q in &rp.pieces {
        for h in &q.hops {
            if let Some(rs) = segs.get(&h.seg) {
                if chain_facts(w, rs).iter().any(|(i, k, ok)| *i == h.idx && *k == h.pk && !*ok) {
                    beacon = true;
                }
            }
        }
    }
    if beacon {
        comps.push("beacon");
    }
    // the offered path must be one of the reference candidates with this interface sequence
    let mut cands: Vec<&Vec<RefPiece>> = vec![&rp.pieces];
    cands.extend(rp.alts.iter());
    if !cands.iter().any(|ps| matches!(concretize(w, segs, ps, 1, 1, true), Ok(exp) if exp == *offered)) {
        comps.push("combinator");
    }
    if let Ok(m) = concretize(w, ideal, &rp.pieces, 1, 1, true) {
        let delivered = world::encode_path(&m)
            .and_then(|p| world::packet(w.ia[src as usize], w.ia[dst as usize], p))
            .map(|mut pkt| {
                // the reference candidate may use other segments (timestamps) than the offered path
                let now = now.max(m.segments.iter().map(|s| s.info_field.timestamp).max().unwrap_or(now));
                let o = simulate(w, &mut pkt, now, src, 0, m.hop_field_count() + 2);
                let l = o.last();
                l.k == "deliver" && l.asn == dst
            })
            .unwrap_or(false);
        if !delivered {
            comps.push("simulator");
        }
    }
    if comps.is_empty() { "unknown".into() } else { comps.join("+") }
}

fn walk_pairs(steps: &[RefStep]) -> Vec<(u32, u16)> {
    steps.iter().map(|s| (s.asn, s.ifin)).collect()
}

struct PathCtx<'a> {
    mode: &'a str,
    src: u32,
    dst: u32,
    now: u32,
    segs: &'a HashMap<u32, RealSeg>,
    ideal: &'a HashMap<u32, RealSeg>,
    rp: Option<&'a RefPath>,
}

/// C01 monitors for one offered path.
fn c01_path(f: &mut Findings, w: &World, o: &Offered, c: &PathCtx) {
    let Some(model) = &o.model else { return };
    let class = path_class(model);
    let nh = model.hop_field_count();
    let nontrivial = model.segments.len() >= 2 || class != "plain";
    f.count("c01:paths_simulated", 1);
    let ctx = || json!({"mode": c.mode, "src": c.src, "dst": c.dst, "now": c.now, "class": class, "path": world::model_json(model), "topo": w.t.name});
    let mut pkt = match world::encode_path(model).and_then(|p| world::packet(w.ia[c.src as usize], w.ia[c.dst as usize], p)) {
        Ok(p) => p,
        Err(e) => {
            f.pv("C01", format!("undeliverable:{class}:encode"), format!("offered path cannot be put into a packet: {e}"), ctx());
            return;
        }
    };
    let out = simulate(w, &mut pkt, c.now, c.src, 0, nh + 2);
    if let Some(p) = &out.panic {
        f.pv("C01", format!("panic:simulate:{class}"), format!("simulator panicked: {p}"), ctx());
        return;
    }
    let last = out.last();
    let delivered = last.k == "deliver" && last.asn == c.dst;
    f.count(&format!("c01:class:{class}:{}", if delivered { "delivered" } else { "failed" }), 1);
    if nontrivial {
        f.count("c01:nontrivial", 1);
    }
    if !delivered {
        let comp = localise(w, c.segs, c.ideal, model, c.rp, c.src, c.dst, c.now);
        let mut d = ctx();
        d["trace"] = out.trace_json();
        d["component"] = json!(comp);
        f.pv(
            "C01",
            format!("undeliverable:{class}:{comp}"),
            format!("offered {class} path {}->{} is not carried to the destination: simulator ends with {} {} at AS {} (fault localised in: {comp})", c.src, c.dst, last.k, last.class, last.asn),
            d,
        );
        return;
    }
    // conformance with the reference walk
    if let Some(rp) = c.rp {
        let got: Vec<(u32, u16)> = out.steps.iter().map(|s| (s.asn, s.ifin)).collect();
        if got != walk_pairs(&rp.walk) {
            f.drift("C01", format!("walk differs: spec {:?} real {:?}", walk_pairs(&rp.walk), got), ctx());
        }
    }
    // ---- the reversed path of the DELIVERED packet carries the reply
    let dp: ScionDpPathView = match pkt.header().path() {
        ScionDpPathViewRef::Standard(v) => ScionDpPathView::Standard(v.to_boxed()),
        _ => return,
    };
    let delivered_model = world::std_path_of(&pkt).unwrap();
    let mut sp = ScionPath::new(w.ia[c.src as usize], w.ia[c.dst as usize], dp, None, None);
    let rev = vh_core::catch(|| sp.try_reverse());
    let rmodel = match rev {
        Err(p) => {
            f.pv("C01", format!("panic:reverse:{class}"), format!("try_reverse panicked: {p}"), ctx());
            return;
        }
        Ok(Err(e)) => {
            f.pv("C01", format!("reverse:{class}:error"), format!("the delivered packet's path cannot be reversed: {e:?}"), ctx());
            return;
        }
        Ok(Ok(())) => match sp.dp_path() {
            ScionDpPathView::Standard(v) => <StandardPath as sciparse::core::convert::FromView>::from_view(v),
            _ => return,
        },
    };
    let mut m2 = delivered_model.clone();
    if m2.try_reverse().is_err() || m2 != rmodel {
        f.drift("C01", "view and model reversal of the delivered path differ".into(), ctx());
    }
    let mut rpkt = match world::encode_path(&rmodel).and_then(|p| world::packet(w.ia[c.dst as usize], w.ia[c.src as usize], p)) {
        Ok(p) => p,
        Err(e) => {
            f.pv("C01", format!("reverse:{class}:encode"), format!("reversed path cannot be put into a packet: {e}"), ctx());
            return;
        }
    };
    let rout = simulate(w, &mut rpkt, c.now, c.dst, 0, nh + 2);
    let rl = rout.last();
    f.count("c01:reverse_simulated", 1);
    if !(rl.k == "deliver" && rl.asn == c.src) {
        let mut d = ctx();
        d["reversed"] = world::model_json(&rmodel);
        d["trace"] = rout.trace_json();
        f.pv(
            "C01",
            format!("reverse:{class}"),
            format!("the reversed path of the delivered packet does not carry the reply {}->{}: {} {} at AS {}", c.dst, c.src, rl.k, rl.class, rl.asn),
            d,
        );
    } else if let Some(rp) = c.rp {
        let got: Vec<(u32, u16)> = rout.steps.iter().map(|s| (s.asn, s.ifin)).collect();
        if got != walk_pairs(&rp.rev) {
            f.drift("C01", format!("reverse walk differs: spec {:?} real {:?}", walk_pairs(&rp.rev), got), ctx());
        }
    }
}

fn permutations(n: usize, rng: &mut vh_core::Rng, limit: usize) -> Vec<Vec<usize>> {
    // all permutations for n <= 4, seeded samples beyond
    let mut out = vec![];
    if n <= 4 {
        let mut idx: Vec<usize> = (0..n).collect();
        fn heap(k: usize, a: &mut Vec<usize>, out: &mut Vec<Vec<usize>>) {
            if k <= 1 {
                out.push(a.clone());
                return;
            }
            for i in 0..k {
                heap(k - 1, a, out);
                if k % 2 == 0 {
                    a.swap(i, k - 1)
                } else {
                    a.swap(0, k - 1)
                }
            }
        }
        heap(n, &mut idx, &mut out);
        out.sort();
        out.dedup();
    } else {
        for _ in 0..limit {
            let mut idx: Vec<usize> = (0..n).collect();
            rng.shuffle(&mut idx);
            out.push(idx);
        }
        out.push((0..n).rev().collect());
    }
    out
}

fn offered_of(w: &World, ps: &[ScionPath]) -> Vec<Offered> {
    ps.iter().map(|p| describe(w, p)).collect()
}

pub fn replay_instance(inst: &Inst, parts: &Parts, rng: &mut vh_core::Rng) -> Value {
    let mut f = Findings::default();
    let mut res = json!({"inst": inst.inst, "name": inst.name});
    let mut w = match World::build(&inst.topo, rng) {
        Ok(w) => w,
        Err(e) => {
            res["tool_error"] = json!(format!("topology builder rejected a valid topology: {e}"));
            return res;
        }
    };
    // ---------------- real segments
    // (b) direct: built from the reference's segment list with the real beacon-extension code, varied profile
    let mut direct: HashMap<u32, RealSeg> = HashMap::new();
    for s in &inst.segs {
        let segid = rng.below(65536) as u16;
        direct.insert(s.id, build_segment(&w, s, segid, None));
    }
    // (a) registry: pocketscion's own control plane
    let reg = SegmentRegistry::from_topology(&w.topo);
    let valid_after = chrono::DateTime::<chrono::Utc>::from_timestamp(TS_REG as i64, 0).unwrap();
    let mut regsegs: HashMap<u32, RealSeg> = HashMap::new();
    {
        let by_key: HashMap<Vec<(IsdAsn, u16, u16)>, u32> = direct.values().map(|rs| (seg_key(&rs.seg), rs.id)).collect();
        let mut all = vec![];
        for ls in reg.core_segments().iter_segments_filtered(|_| true) {
            all.push((true, ls));
        }
        let mut isds: Vec<u16> = inst.topo.ases.iter().map(|a| a.isd).collect();
        isds.sort();
        isds.dedup();
        for i in isds {
            let isd = w.ia[inst.topo.ases.iter().find(|a| a.isd == i).unwrap().id as usize].isd();
            if let Some(st) = reg.isd_segments(&isd) {
                for ls in st.iter_segments_filtered(|_| true) {
                    all.push((false, ls));
                }
            }
        }
        let mut n_unmatched = 0;
        for (core, ls) in all {
            match ls.to_path_segment(&w.topo, valid_after, 0, 255, false) {
                Ok(sps) => {
                    let us = sps.into_unsigned_segment();
                    match by_key.get(&seg_key(&us)) {
                        Some(id) => {
                            regsegs.insert(*id, RealSeg { id: *id, core, seg: us });
                        }
                        None => n_unmatched += 1,
                    }
                }
                Err(e) => f.drift("C01", format!("to_path_segment failed: {e}"), json!({"topo": inst.name})),
            }
        }
        if n_unmatched > 0 || regsegs.len() != direct.len() {
            f.drift(
                "C01",
                format!("control-plane segment set differs from the reference beaconing: {} registry segments matched of {} reference segments, {} extra", regsegs.len(), direct.len(), n_unmatched),
                json!({"topo": inst.name}),
            );
        }
        // peer entry sets must agree too (the reference pieces address peer entries by index)
        for (id, rs) in &regsegs {
            let d = &direct[id];
            for (a, b) in rs.seg.as_entries.iter().zip(d.seg.as_entries.iter()) {
                let pa: Vec<_> = a.peer_entries.iter().map(|p| (p.hop_field.cons_ingress, p.peer, p.peer_interface)).collect();
                let pb: Vec<_> = b.peer_entries.iter().map(|p| (p.hop_field.cons_ingress, p.peer, p.peer_interface)).collect();
                if pa != pb {
                    f.drift("C01", format!("peer entries of segment {id} differ: registry {pa:?} reference {pb:?}"), json!({"topo": inst.name}));
                }
            }
        }
    }
    let ideal_direct: HashMap<u32, RealSeg> = direct.iter().map(|(k, v)| (*k, world::ideal_segment(&w, v))).collect();
    let ideal_reg: HashMap<u32, RealSeg> = regsegs.iter().map(|(k, v)| (*k, world::ideal_segment(&w, v))).collect();
    f.count("segments", direct.len() as u64);
    let (bad_d, _, _) = beacon_faults(&w, &direct);
    let (bad_r, _, _) = beacon_faults(&w, &regsegs);
    res["beacon_faults"] = json!({"direct": bad_d, "registry": bad_r});

    // ---------------- pairs
    let mut pair_out = vec![];
    if parts.c01 || parts.c04 {
        for pr in &inst.pairs {
            let (src, dst) = (pr.src, pr.dst);
            let (sia, dia) = (w.ia[src as usize], w.ia[dst as usize]);
            let refmap: HashMap<Vec<(u32, u16)>, (String, u32, u32)> = pr.paths.iter().map(|p| (p.ifs.clone(), (ref_class(p).to_string(), p.mtu, p.exp))).collect();
            let refpath: HashMap<Vec<(u32, u16)>, &RefPath> = pr.paths.iter().map(|p| (p.ifs.clone(), p)).collect();
            f.count("pairs", 1);
            f.count("ref_paths", pr.paths.len() as u64);
            let ctx = json!({"topo": inst.name, "inst": inst.inst, "src": src, "dst": dst});

            // ======== (a) path lookup through pocketscion's registry
            let looked = vh_core::catch(|| reg.paths(sia, dia, valid_after, &w.topo));
            let reg_paths: Vec<ScionPath> = match looked {
                Err(p) => {
                    f.pv("C01", "panic:paths".into(), format!("paths({src},{dst}) panicked: {p}"), ctx.clone());
                    f.pv("C04", "panic:combine".into(), format!("paths({src},{dst}) panicked: {p}"), ctx.clone());
                    vec![]
                }
                Ok(Err(e)) => {
                    f.count("lookup_errors", 1);
                    if pr.joinable {
                        f.count("lookup_errors_joinable", 1);
                    }
                    res["last_lookup_error"] = json!(format!("{e:#}"));
                    vec![]
                }
                Ok(Ok(v)) => v,
            };
            let reg_off = offered_of(&w, &reg_paths);
            f.count("offered_registry", reg_off.len() as u64);
            let mut seqs_a = vec![];
            if parts.c04 {
                let mut c = ctx.clone();
                c["mode"] = json!("registry");
                seqs_a = c04_list(&mut f, &w, "registry", src, dst, &reg_off, &refmap, &TruthMtu { constant: Some(1280), w: &w }, &c);
            }
            if parts.c01 {
                // P3: a joinable pair gets at least one path
                if pr.joinable && reg_off.is_empty() {
                    f.pv("C01", "none-offered-when-joinable".into(), format!("segments join {src}->{dst} ({} candidate combinations) but path lookup offers nothing", pr.ncand), ctx.clone());
                }
                for o in &reg_off {
                    let ifs = o.model.as_ref().and_then(|m| world::decode_ifs(&w, src, m).ok());
                    let rp = ifs.as_ref().and_then(|i| refpath.get(i)).copied();
                    let now = TS_REG + 3;
                    c01_path(&mut f, &w, o, &PathCtx { mode: "registry", src, dst, now, segs: &regsegs, ideal: &ideal_reg, rp });
                }
            }

            // ======== (b) combine() on segments built from the reference's list (varied MTU/expiry/timestamps)
            let cores: Vec<UnsignedPathSegment> = {
                let mut v: Vec<&RealSeg> = direct.values().filter(|s| s.core).collect();
                v.sort_by_key(|s| s.id);
                v.iter().map(|s| s.seg.clone()).collect()
            };
            let ncs: Vec<UnsignedPathSegment> = {
                let mut v: Vec<&RealSeg> = direct.values().filter(|s| !s.core && (s.leaf() == sia || s.leaf() == dia)).collect();
                v.sort_by_key(|s| s.id);
                v.iter().map(|s| s.seg.clone()).collect()
            };
            let base = match vh_core::catch(|| combine(sia, dia, cores.clone(), ncs.clone())) {
                Ok(v) => v,
                Err(p) => {
                    f.pv("C04", "panic:combine".into(), format!("combine({src},{dst}) panicked: {p}"), ctx.clone());
                    vec![]
                }
            };
            let dir_off = offered_of(&w, &base);
            f.count("offered_direct", dir_off.len() as u64);
            if parts.c04 {
                let mut c = ctx.clone();
                c["mode"] = json!("direct");
                let seqs_b = c04_list(&mut f, &w, "direct", src, dst, &dir_off, &refmap, &TruthMtu { constant: None, w: &w }, &c);
                // the two modes must offer the same routes (conformance)
                let mut sa: Vec<_> = seqs_a.iter().flatten().cloned().collect();
                let mut sb: Vec<_> = seqs_b.iter().flatten().cloned().collect();
                sa.sort();
                sb.sort();
                sa.dedup();
                sb.dedup();
                if sa != sb && f.counts.get("lookup_errors").copied().unwrap_or(0) == 0 {
                    f.drift("C04", format!("registry lookup and direct combine offer different routes for {src}->{dst}"), c.clone());
                }
                // ---- independence of input order and duplication
                let key_of = |ps: &[ScionPath]| -> (Vec<Vec<(u32, u16)>>, Vec<usize>) {
                    let offs = offered_of(&w, ps);
                    let mut set = vec![];
                    let mut costs = vec![];
                    for o in &offs {
                        if let Some(i) = o.model.as_ref().and_then(|m| world::decode_ifs(&w, src, m).ok()) {
                            costs.push(i.len() / 2);
                            set.push(i);
                        }
                    }
                    set.sort();
                    (set, costs)
                };
                let base_key = key_of(&base);
                let limit = if vh_core::tier_is_thorough() { 12 } else { 3 };
                let pc = permutations(cores.len(), rng, limit);
                let pn = permutations(ncs.len(), rng, limit);
                let mut variants: Vec<(Vec<UnsignedPathSegment>, Vec<UnsignedPathSegment>, String)> = vec![];
                for a in &pc {
                    for b in &pn {
                        if variants.len() >= if vh_core::tier_is_thorough() { 600 } else { 40 } {
                            break;
                        }
                        variants.push((a.iter().map(|i| cores[*i].clone()).collect(), b.iter().map(|i| ncs[*i].clone()).collect(), format!("perm {a:?} {b:?}")));
                    }
                }
                // duplications: every list doubled, and each single segment doubled
                let dbl = |v: &Vec<UnsignedPathSegment>| -> Vec<UnsignedPathSegment> { v.iter().chain(v.iter()).cloned().collect() };
                variants.push((dbl(&cores), dbl(&ncs), "all doubled".into()));
                for i in 0..ncs.len().min(4) {
                    let mut v = ncs.clone();
                    v.insert(0, ncs[i].clone());
                    variants.push((cores.clone(), v, format!("non-core {i} doubled")));
                }
                for i in 0..cores.len().min(3) {
                    let mut v = cores.clone();
                    v.push(cores[i].clone());
                    variants.push((v, ncs.clone(), format!("core {i} doubled")));
                }
                for (vc, vn, what) in variants {
                    f.count("c04:input_variants", 1);
                    match vh_core::catch(|| combine(sia, dia, vc, vn)) {
                        Err(p) => f.pv("C04", "panic:combine".into(), format!("combine panicked on {what}: {p}"), c.clone()),
                        Ok(ps) => {
                            let k = key_of(&ps);
                            if k.0 != base_key.0 {
                                f.pv("C04", "order-dependence:set".into(), format!("result set changes under {what}: {} vs {} paths", k.0.len(), base_key.0.len()), c.clone());
                            } else if k.1 != base_key.1 {
                                f.pv("C04", "order-dependence:cost-order".into(), format!("cost sequence changes under {what}: {:?} vs {:?}", k.1, base_key.1), c.clone());
                            }
                        }
                    }
                }
            }
            if parts.c01 {
                if pr.joinable && dir_off.is_empty() {
                    f.pv("C01", "none-offered-when-joinable:direct".into(), format!("segments join {src}->{dst} but combine() offers nothing"), ctx.clone());
                }
                for o in &dir_off {
                    let Some(m) = &o.model else { continue };
                    let ifs = world::decode_ifs(&w, src, m).ok();
                    let rp = ifs.as_ref().and_then(|i| refpath.get(i)).copied();
                    let now = m.segments.iter().map(|s| s.info_field.timestamp).max().unwrap_or(TS_REG);
                    c01_path(&mut f, &w, o, &PathCtx { mode: "direct", src, dst, now, segs: &direct, ideal: &ideal_direct, rp });
                    // last valid second of the path
                    if let Some(e) = o.exp_fn {
                        if e > now + 1 {
                            c01_path(&mut f, &w, o, &PathCtx { mode: "direct-lastsecond", src, dst, now: e - 1, segs: &direct, ideal: &ideal_direct, rp });
                        }
                    }
                }
            }
            pair_out.push(json!({"src": src, "dst": dst, "ref": pr.paths.len(), "registry": reg_off.len(), "direct": dir_off.len()}));
        }
    }

    // ---------------- segment request plan (C01: "whenever the segments can be joined, a path is offered")
    if parts.c01 {
        for row in &inst.plantable {
            plan_table_row(&mut f, row);
        }
        let by_key: HashMap<Vec<(IsdAsn, u16, u16)>, u32> = regsegs.values().map(|rs| (seg_key(&rs.seg), rs.id)).collect();
        for row in &inst.plans {
            plan_instance_row(&mut f, &w, &reg, &by_key, valid_after, inst, row);
        }
    }

    // ---------------- attack packets (C13)
    if parts.c13 {
        for (n, a) in inst.attacks.iter().enumerate() {
            c13_attack(&mut f, &mut w, &ideal_direct, inst, n, a);
        }
        w.set_links(&[]);
    }

    res["pairs"] = json!(pair_out);
    res["pv"] = json!(f.pv);
    res["drift"] = json!(f.drift);
    res["counts"] = json!(f.counts);
    res
}

fn sim_class(s: &world::SimStep) -> String {
    match s.k.as_str() {
        "drop" | "error" => "malformed".to_string(),
        _ => s.class.clone(),
    }
}

/// C13 monitors for one attack packet.
fn c13_attack(f: &mut Findings, w: &mut World, segs: &HashMap<u32, RealSeg>, inst: &Inst, n: usize, a: &Attack) {
    f.count("c13:packets", 1);
    f.count(&format!("c13:fam:{}", a.fam.split(':').next().unwrap_or("")), 1);
    if a.nf > 0 || a.fam == "recomb" || a.fam == "peermix" || a.cls != "plain" {
        f.count("c13:nontrivial", 1);
    }
    w.set_links(&a.down);
    let ctx = |extra: Value| json!({"topo": inst.name, "inst": inst.inst, "attack": n, "atk": a, "real": extra});
    let (mut pkt, nh) = if a.onehop {
        // one-hop path: first hop field of the piece, MACed by the source AS (unless marked corrupted)
        let q = &a.pieces[0];
        let h = &q.hops[0];
        let mut key = w.keys[a.src as usize];
        if h.mb {
            key[0] ^= 0xff;
        }
        let p = world::one_hop(key, h.eg, q.ts, 0x1234, h.exp);
        match world::packet(w.ia[a.src as usize], w.ia[a.dst as usize], p) {
            Ok(p) => (p, 2usize),
            Err(e) => {
                f.drift("C13", format!("cannot encode one-hop attack: {e}"), ctx(json!(null)));
                return;
            }
        }
    } else {
        let model = match concretize(w, segs, &a.pieces, a.ci, a.ch, false) {
            Ok(m) => m,
            Err(e) => {
                f.drift("C13", format!("cannot concretise attack: {e}"), ctx(json!(null)));
                return;
            }
        };
        let nh = model.hop_field_count();
        match world::encode_path(&model).and_then(|p| world::packet(w.ia[a.src as usize], w.ia[a.dst as usize], p)) {
            Ok(p) => (p, nh),
            Err(e) => {
                // the wire format cannot express this header state: not a packet (counted, not judged)
                f.count("c13:unencodable", 1);
                let _ = e;
                return;
            }
        }
    };
    let bound = nh + 1;
    let out: SimOut = if a.sched.is_empty() { simulate(w, &mut pkt, a.now, a.at, a.ifin, bound + 3) } else { world::simulate_sched(w, &mut pkt, a.now, a.at, a.ifin, &a.sched, bound + 3) };
    if let Some(p) = &out.panic {
        f.pv("C13", format!("panic:{}", a.fam), format!("simulator panicked: {p}"), ctx(out.trace_json()));
        return;
    }
    let last = out.last();
    let verdict_reached = matches!(last.k.as_str(), "deliver" | "reject" | "drop" | "error" | "external" | "other");
    // (1) bounded number of AS steps
    if !verdict_reached || out.steps.len() > bound {
        f.pv("C13", format!("unbounded:{}", a.fam), format!("no verdict within {bound} AS steps ({} steps taken, last {})", out.steps.len(), last.k), ctx(out.trace_json()));
        return;
    }
    // (2) local delivery only in the destination AS
    if last.k == "deliver" && last.asn != a.dst {
        f.pv("C13", format!("delivered-elsewhere:{}", a.fam), format!("delivered locally in AS {} but the destination is AS {}", last.asn, a.dst), ctx(out.trace_json()));
    }
    // (3) forwarding only over existing, up links
    for (n, s) in out.steps.iter().enumerate() {
        if s.k == "fwd" {
            let down_now: &Vec<usize> = if a.sched.is_empty() { &a.down } else { &a.sched[n.min(a.sched.len() - 1)] };
            match w.ifmap.get(&(s.asn, s.egress)) {
                None => f.pv("C13", format!("forward-nonexistent-link:{}", a.fam), format!("AS {} forwards over interface {} which does not exist", s.asn, s.egress), ctx(out.trace_json())),
                Some((l, _, _)) if down_now.contains(&(l + 1)) => {
                    f.pv("C13", format!("forward-down-link:{}", a.fam), format!("AS {} forwards over interface {} whose link is down", s.asn, s.egress), ctx(out.trace_json()))
                }
                _ => {}
            }
        }
    }
    // (4) verdict = reference router
    let v = &a.verdict;
    let ref_deliver = v.k == "deliver";
    let sim_deliver = last.k == "deliver";
    let sc = sim_class(&last);
    let fam = format!("{}/{}", a.fam, a.cls);
    let mut mismatch: Option<String> = None;
    if ref_deliver != sim_deliver {
        mismatch = Some(format!("{}->{}", if ref_deliver { "deliver".to_string() } else { format!("reject-{}", v.class) }, if sim_deliver { "deliver".to_string() } else { format!("{}-{}", last.k, sc) }));
    } else if ref_deliver && last.asn != v.asn {
        mismatch = Some(format!("deliver@{}->deliver@{}", v.asn, last.asn));
    } else if !ref_deliver && !a.onehop && a.nf <= 1 && v.faults.len() == 1 && sc != v.class {
        // (one-hop paths: a router may drop an invalid packet silently, as scionproto does - only accept/reject is compared)
        mismatch = Some(format!("class-{}->{}", v.class, sc));
    }
    match mismatch {
        Some(m) if a.p => {
            f.pv(
                "C13",
                format!("verdict:{fam}:{m}"),
                format!("reference router: {} {} at AS {}; simulator: {} {} at AS {} (attack family {fam})", v.k, v.class, v.asn, last.k, sc, last.asn),
                ctx(out.trace_json()),
            );
        }
        Some(m) => f.drift("C13", format!("I-spec verdict differs ({fam}): {m}"), ctx(out.trace_json())),
        None => {
            f.count("c13:verdict_equal", 1);
            // conformance: same walk
            let got: Vec<(u32, u16)> = out.steps.iter().map(|s| (s.asn, s.ifin)).collect();
            if got != walk_pairs(&a.walk) && !(last.k == "error") {
                f.drift("C13", format!("walk differs ({fam}): spec {:?} real {:?}", walk_pairs(&a.walk), got), ctx(out.trace_json()));
            }
        }
    }
    f.count(&format!("c13:ref:{}", if ref_deliver { "deliver".to_string() } else { format!("reject-{}", v.class) }), 1);
}


fn ia(isd: u16, asn: u64) -> IsdAsn {
    IsdAsn::new(sciparse::identifier::isd::Isd::new(isd), Asn::new(asn))
}

/// I-spec binding of the decision table: ListSegmentPlan::new on a concretisation of the abstract cell.
fn plan_table_row(f: &mut Findings, row: &PlanTableRow) {
    f.count("plan:table_cells", 1);
    let c = &row.cell;
    let disd: u16 = if c.same { 1 } else { 2 };
    let single = ia(1, 1);
    let src = if c.src_core { ia(1, 1) } else { ia(1, 11) };
    let dst = match c.dst_kind.as_str() {
        "any" => ia(disd, 0),
        "core" => {
            if c.same && c.single && !c.src_core {
                single
            } else {
                ia(disd, 2)
            }
        }
        _ => ia(disd, 12),
    };
    let term = |t: &str| -> IsdAsn {
        match t {
            "src" => src,
            "dst" => dst,
            "srcW" => ia(1, 0),
            "dstW" => ia(disd, 0),
            _ => single,
        }
    };
    let want = |l: &Vec<String>| -> Option<(IsdAsn, IsdAsn)> { if l.len() == 2 { Some((term(&l[0]), term(&l[1]))) } else { None } };
    let hint = if c.single { CoreHint::Single(single) } else { CoreHint::Multiple };
    let real = vh_core::catch(|| Src::new(src, c.src_core).map_err(|e| format!("{e}")).and_then(|s| ListSegmentPlan::new(s, hint, Dst::new(dst, c.dst_kind == "core")).map_err(|e| format!("{e}"))));
    let ctx = json!({"cell": row.cell, "spec": row.plan, "src": src.to_string(), "dst": dst.to_string()});
    match real {
        Err(p) => f.pv("C01", "panic:list_segment_plan".into(), format!("ListSegmentPlan::new panicked: {p}"), ctx),
        Ok(Err(e)) => {
            if !row.err {
                f.drift("C01", format!("request plan: spec has lookups, ListSegmentPlan::new fails: {e}"), ctx);
            }
        }
        Ok(Ok(p)) => {
            if row.err || p.up != want(&row.plan.up) || p.core != want(&row.plan.core) || p.down != want(&row.plan.down) {
                f.drift("C01", format!("request plan differs from the decision table: real up {:?} core {:?} down {:?}", p.up, p.core, p.down), ctx);
            } else {
                f.count("plan:table_equal", 1);
            }
        }
    }
}

/// The control plane's answer for (src, dst) on a real topology against the spec's Fetched set (I-spec), and for a
/// wildcard destination the P-monitor: some core AS of the ISD is reachable over the listed segments.
fn plan_instance_row(
    f: &mut Findings,
    w: &World,
    reg: &SegmentRegistry,
    by_key: &HashMap<Vec<(IsdAsn, u16, u16)>, u32>,
    valid_after: chrono::DateTime<chrono::Utc>,
    inst: &Inst,
    row: &PlanRow,
) {
    f.count("plan:lookups", 1);
    let sia = w.ia[row.src as usize];
    let wildcard = row.dst.1 == 0;
    let dia = if wildcard { ia(row.dst.0, 0) } else { w.ia[row.dst.1 as usize] };
    let ctx = json!({"topo": inst.name, "src": row.src, "dst": row.dst, "cell": row.cell, "plan": row.plan});
    let listed = vh_core::catch(|| reg.endhost_list_segments(sia, sia, dia).and_then(|l| l.into_path_segments(&w.topo, valid_after, 0, 255)));
    let listed = match listed {
        Err(p) => {
            f.pv("C01", "panic:list_segments".into(), format!("endhost_list_segments({},{}) panicked: {p}", row.src, dia), ctx);
            return;
        }
        Ok(Err(e)) => {
            if !row.err {
                if wildcard && row.reach {
                    f.pv("C01", "none-offered-when-joinable:anycore".into(), format!("a core AS of ISD {} is reachable from AS {} but the segment lookup fails: {e:#}", row.dst.0, row.src), ctx);
                } else {
                    f.drift("C01", format!("segment listing fails where the plan has lookups: {e:#}"), ctx);
                }
            }
            return;
        }
        Ok(Ok(l)) => l,
    };
    let cores: Vec<UnsignedPathSegment> = listed.iter_cores().map(|s| s.clone().into_unsigned_segment()).collect();
    let ncs: Vec<UnsignedPathSegment> = listed.iter_non_cores().map(|s| s.clone().into_unsigned_segment()).collect();
    let ids = |v: &Vec<UnsignedPathSegment>| -> Vec<u32> {
        let mut x: Vec<u32> = v.iter().map(|s| by_key.get(&seg_key(s)).copied().unwrap_or(0)).collect();
        x.sort();
        x.dedup();
        x
    };
    let (rc, rn) = (ids(&cores), ids(&ncs));
    if rc != row.fetched.cores || rn != row.fetched.ncs {
        f.drift("C01", format!("listed segments differ from the plan's lookups: cores {rc:?} vs {:?}, non-cores {rn:?} vs {:?}", row.fetched.cores, row.fetched.ncs), ctx.clone());
    } else {
        f.count("plan:listing_equal", 1);
    }
    if wildcard && row.reach {
        f.count("plan:anycore_checked", 1);
        let targets: Vec<IsdAsn> = inst.topo.ases.iter().filter(|a| a.core && a.isd == row.dst.0 && a.id != row.src).map(|a| w.ia[a.id as usize]).collect();
        let reached = targets.iter().any(|d| vh_core::catch(|| combine(sia, *d, cores.clone(), ncs.clone())).map(|p| !p.is_empty()).unwrap_or(false));
        if !reached {
            f.pv("C01", "none-offered-when-joinable:anycore".into(), format!("a core AS of ISD {} is reachable from AS {} but the segments listed for the wildcard destination yield no path", row.dst.0, row.src), ctx);
        }
    }
}
