//! P-monitors: the properties as stated, evaluated on real outputs.
use std::collections::{HashMap, HashSet};

use serde_json::{Value, json};

use super::world::{Offered, World, as_seq, decode_ifs, path_class};

#[derive(Default)]
pub struct Findings {
    pub pv: Vec<Value>,
    pub drift: Vec<Value>,
    pub counts: HashMap<String, u64>,
}

impl Findings {
    pub fn pv(&mut self, prop: &str, key: String, what: String, detail: Value) {
        *self.counts.entry(format!("pv:{prop}")).or_insert(0) += 1;
        // keep one full record per (prop,key) and count the rest
        if self.pv.iter().filter(|v| v["prop"] == prop && v["key"] == key).count() < 2 {
            self.pv.push(json!({"prop": prop, "key": key, "what": what, "detail": detail}));
        } else {
            *self.counts.entry(format!("pvmore:{prop}:{key}")).or_insert(0) += 1;
        }
    }
    pub fn drift(&mut self, prop: &str, what: String, detail: Value) {
        *self.counts.entry(format!("drift:{prop}")).or_insert(0) += 1;
        if self.drift.len() < 40 {
            self.drift.push(json!({"prop": prop, "what": what, "detail": detail}));
        }
    }
    pub fn count(&mut self, k: &str, n: u64) {
        *self.counts.entry(k.to_string()).or_insert(0) += n;
    }
}

/// expiry of a hop field: ts + floor((exp+1) * 337.5 s)
pub fn hop_expiry(ts: u32, exp: u8) -> u32 {
    ts.saturating_add(((exp as u32 + 1) * 675) / 2)
}

pub struct TruthMtu<'a> {
    /// registry mode: pocketscion's segments announce 1280 everywhere
    pub constant: Option<u16>,
    pub w: &'a World<'a>,
}

impl TruthMtu<'_> {
    pub fn of(&self, src: u32, ifs: &[(u32, u16)]) -> u32 {
        if let Some(c) = self.constant {
            return c as u32;
        }
        let mut m = u32::MAX;
        for x in as_seq(src, ifs) {
            m = m.min(self.w.t.ases[(x - 1) as usize].mtu);
        }
        for c in ifs.chunks(2) {
            if let Some((n, _, _)) = self.w.ifmap.get(&c[0]) {
                m = m.min(self.w.t.links[*n].mtu as u32);
            }
        }
        m
    }
}

/// C04 monitors on one result list of combine()/paths() for the request (src, dst).
/// `reference`: the reference set of interface sequences (TLA+ RefPaths) with the class of each member.
/// Returns the decoded interface sequence of each offered path (None if undecodable).
pub fn c04_list(
    f: &mut Findings,
    w: &World,
    mode: &str,
    src: u32,
    dst: u32,
    offered: &[Offered],
    reference: &HashMap<Vec<(u32, u16)>, (String, u32, u32)>,
    mtu: &TruthMtu,
    ctx: &Value,
) -> Vec<Option<Vec<(u32, u16)>>> {
    let mut seqs: Vec<Option<Vec<(u32, u16)>>> = vec![];
    let mut seen: HashSet<Vec<(u32, u16)>> = HashSet::new();
    let mut last_links = 0usize;
    for (n, o) in offered.iter().enumerate() {
        f.count("c04:paths_checked", 1);
        let Some(model) = &o.model else {
            f.pv("C04", "metadata:not-a-standard-path".into(), "combine returned a path without a standard data-plane path".into(), ctx.clone());
            seqs.push(None);
            continue;
        };
        let class = path_class(model);
        if model.segments.len() >= 2 || class != "plain" {
            f.count("c04:nontrivial", 1);
        }
        let dctx = || json!({"ctx": ctx, "n": n, "class": class, "meta_ifs": o.meta_ifs, "path": super::world::model_json(model)});
        // --- metadata truth: src/dst
        if w.id(o.src) != src || w.id(o.dst) != dst {
            f.pv("C04", format!("metadata:srcdst:{class}"), format!("path src/dst {}->{} differ from the request {src}->{dst}", o.src, o.dst), dctx());
        }
        // --- metadata truth: interface list names the links encoded in the hop fields, in travel order
        let dec = decode_ifs(w, src, model);
        let ifs = match &dec {
            Ok(d) => {
                match &o.meta_ifs {
                    Some(m) if m == d => {}
                    m => f.pv("C04", format!("metadata:interfaces:{class}"), format!("interface list {m:?} differs from the links encoded in the hop fields {d:?}"), dctx()),
                }
                d.clone()
            }
            Err(e) => {
                f.pv("C04", format!("unsound:not-a-walk:{class}"), format!("hop fields do not follow links of the topology: {e}"), dctx());
                seqs.push(None);
                continue;
            }
        };
        if ifs.last().map(|l| l.0) != Some(dst) {
            f.pv("C04", format!("unsound:wrong-destination:{class}"), format!("hop fields end in AS {:?}, not in {dst}", ifs.last()), dctx());
        }
        // --- expiry = earliest hop expiry
        let truth_exp = model.segments.iter().flat_map(|s| s.hop_fields.iter().map(move |h| hop_expiry(s.info_field.timestamp, h.expiration_units))).min().unwrap_or(0);
        if o.meta_exp != Some(truth_exp as u64) || o.exp_fn != Some(truth_exp) {
            f.pv("C04", format!("metadata:expiry:{class}"), format!("expiration {:?}/{:?} but the earliest hop expiry is {truth_exp}", o.meta_exp, o.exp_fn), dctx());
        }
        // --- MTU = min over traversed ASes and links
        let truth_mtu = mtu.of(src, &ifs);
        if o.meta_mtu.map(|m| m as u32) != Some(truth_mtu) {
            f.pv("C04", format!("metadata:mtu:{class}"), format!("mtu {:?} but the minimum over traversed ASes and links is {truth_mtu}", o.meta_mtu), dctx());
        }
        // --- none visits an AS twice
        let seq = as_seq(src, &ifs);
        let uniq: HashSet<u32> = seq.iter().copied().collect();
        if uniq.len() != seq.len() {
            f.pv("C04", format!("loop:{class}"), format!("path visits an AS twice: {seq:?}"), dctx());
        }
        // --- each once
        if !seen.insert(ifs.clone()) {
            f.pv("C04", format!("duplicate:{class}"), format!("interface sequence offered twice: {ifs:?}"), dctx());
        }
        // --- cheapest (fewest hops) first
        if ifs.len() / 2 < last_links {
            f.pv("C04", format!("order:{class}"), format!("path with {} links listed after one with {last_links}", ifs.len() / 2), dctx());
        }
        last_links = ifs.len() / 2;
        // --- soundness w.r.t. the combination rules
        match reference.get(&ifs) {
            None => f.pv("C04", format!("unsound:not-in-reference:{class}"), format!("{mode}: offered path {ifs:?} is not obtainable by the SCION combination rules"), dctx()),
            Some((_, rmtu, rexp)) => {
                // I-spec conformance of the metadata (varied profile only)
                if mtu.constant.is_none() && (*rmtu != truth_mtu || o.meta_mtu.map(|m| m as u32) != Some(*rmtu)) {
                    f.drift("C04", format!("mtu: spec {rmtu} harness truth {truth_mtu} code {:?}", o.meta_mtu), dctx());
                }
                if mtu.constant.is_none() && o.exp_fn != Some(*rexp) {
                    f.drift("C04", format!("expiry (which duplicate is kept): spec {rexp} code {:?}", o.exp_fn), dctx());
                }
            }
        }
        seqs.push(Some(ifs));
    }
    // --- completeness
    for (r, (class, _, _)) in reference {
        if !seen.contains(r) {
            f.pv("C04", format!("missing:{class}"), format!("{mode}: reference path {r:?} ({src}->{dst}) is not offered"), json!({"ctx": ctx, "ref": r}));
        }
    }
    seqs
}
