//! ScionNet harness implementation (see bin/scionnet.rs).
#![allow(clippy::too_many_arguments, clippy::type_complexity)]

pub mod model;
pub mod monitors;
pub mod record;
pub mod replay;
pub mod world;

pub fn main() {
    let args: Vec<String> = std::env::args().collect();
    vh_core::quiet_panics();
    match args.get(1).map(|s| s.as_str()) {
        Some("replay") if args.len() >= 4 => replay::run(&args[2], &args[3]),
        Some("record") if args.len() >= 5 => record::run(&args[2], &args[3], &args[4]),
        _ => {
            eprintln!("usage: scionnet replay <in.ndjson> <out.ndjson> | record <topos.ndjson> <events.ndjson> <results.json>");
            std::process::exit(2);
        }
    }
}
