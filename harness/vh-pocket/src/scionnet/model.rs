//! JSON interchange types (field names = TLA+ record fields, see spec/ScionNet/ScionNetSym.tla *Out operators
//! and DESIGN.md Appendix D).  Reusable by other families (C11/C12/C19): Topo, Seg, RefPath.
use serde::{Deserialize, Serialize};

#[derive(Clone, Debug, Serialize, Deserialize)]
pub struct TopoAs {
    pub id: u32,
    pub isd: u16,
    pub core: bool,
    pub mtu: u32,
    pub exp: u8,
}

#[derive(Clone, Debug, Serialize, Deserialize)]
pub struct TopoLink {
    pub a: u32,
    pub aif: u16,
    pub b: u32,
    pub bif: u16,
    /// "core" | "parent" (a is parent of b) | "peer"
    pub t: String,
    pub mtu: u16,
}

#[derive(Clone, Debug, Serialize, Deserialize)]
pub struct Topo {
    pub name: String,
    #[serde(rename = "as")]
    pub ases: Vec<TopoAs>,
    pub links: Vec<TopoLink>,
}

#[derive(Clone, Debug, Serialize, Deserialize)]
pub struct SegPeer {
    pub pif: u16,
    pub pas: u32,
    pub prif: u16,
    pub exp: u8,
    pub pmtu: u16,
}

#[derive(Clone, Debug, Serialize, Deserialize)]
pub struct SegEntry {
    #[serde(rename = "as")]
    pub asn: u32,
    #[serde(rename = "in")]
    pub cin: u16,
    pub eg: u16,
    pub exp: u8,
    pub mtu: u32,
    pub inmtu: u16,
    pub peers: Vec<SegPeer>,
}

#[derive(Clone, Debug, Serialize, Deserialize)]
pub struct Seg {
    pub id: u32,
    pub kind: String,
    pub ts: u32,
    pub es: Vec<SegEntry>,
}

/// a hop of a reference path / attack packet: copied from entry `idx` (1-based) of segment `seg`,
/// `pk` = 1-based peer entry index or 0; in/eg/exp are the wire values (they differ from the entry's when the
/// attack corrupts them); `mb` = MAC corrupted.
#[derive(Clone, Debug, Serialize, Deserialize)]
pub struct RefHop {
    pub seg: u32,
    pub idx: usize,
    pub pk: usize,
    #[serde(rename = "in")]
    pub cin: u16,
    pub eg: u16,
    pub exp: u8,
    #[serde(default)]
    pub mb: bool,
}

#[derive(Clone, Debug, Serialize, Deserialize)]
pub struct RefPiece {
    pub cd: bool,
    pub peer: bool,
    /// segid = BetaAt(segment sb[0], index sb[1]) (1-based, N+1 = after the last entry)
    pub sb: (u32, usize),
    pub ts: u32,
    pub hops: Vec<RefHop>,
    /// segid corrupted (XOR with a non-zero constant)
    #[serde(default)]
    pub sx: bool,
}

#[derive(Clone, Debug, Serialize, Deserialize, PartialEq)]
pub struct RefStep {
    #[serde(rename = "as")]
    pub asn: u32,
    pub ifin: u16,
    pub ci: u32,
    pub ch: u32,
    pub k: String,
    pub class: String,
}

#[derive(Clone, Debug, Serialize, Deserialize)]
pub struct RefPath {
    pub ifs: Vec<(u32, u16)>,
    pub pieces: Vec<RefPiece>,
    /// other loop-free candidates with the same interface sequence
    #[serde(default)]
    pub alts: Vec<Vec<RefPiece>>,
    pub mtu: u32,
    pub exp: u32,
    pub nlinks: u32,
    pub walk: Vec<RefStep>,
    pub rev: Vec<RefStep>,
    pub ok: bool,
}

#[derive(Clone, Debug, Serialize, Deserialize)]
pub struct Pair {
    pub src: u32,
    pub dst: u32,
    pub joinable: bool,
    pub ncand: u32,
    pub paths: Vec<RefPath>,
}

#[derive(Clone, Debug, Serialize, Deserialize)]
pub struct Verdict {
    /// "deliver" | "reject"
    pub k: String,
    #[serde(rename = "as")]
    pub asn: u32,
    pub class: String,
    /// all checks failing at the rejecting AS
    pub faults: Vec<String>,
    pub steps: u32,
}

#[derive(Clone, Debug, Serialize, Deserialize)]
pub struct Attack {
    /// class of the path the packet was derived from: plain | onpath | shortcut | peering | onehop
    #[serde(default)]
    pub cls: String,
    /// attack family: "honest" | "clock" | "linkdown" | "recomb" | "corrupt:<field>" | "ingress" | "splice" | "onehop"
    pub fam: String,
    /// true when the verdict comparison is part of the property (false: I-spec conformance only)
    pub p: bool,
    pub pieces: Vec<RefPiece>,
    pub ci: u32,
    pub ch: u32,
    pub src: u32,
    pub dst: u32,
    pub at: u32,
    pub ifin: u16,
    pub now: u32,
    /// link indices (1-based) that are down
    pub down: Vec<usize>,
    pub verdict: Verdict,
    pub walk: Vec<RefStep>,
    /// number of independent faults injected by construction (0 = authentic)
    pub nf: u32,
    #[serde(default)]
    pub onehop: bool,
    /// link state schedule: sched[n] = links down when the (n+1)-th AS step is taken (empty: `down` throughout)
    #[serde(default)]
    pub sched: Vec<Vec<usize>>,
}

/// a cell of the segment request plan decision table (spec/ScionNet/SegPlan.tla)
#[derive(Clone, Debug, Serialize, Deserialize)]
pub struct PlanCell {
    #[serde(rename = "srcCore")]
    pub src_core: bool,
    /// "core" | "noncore" | "any"
    #[serde(rename = "dstKind")]
    pub dst_kind: String,
    pub same: bool,
    pub single: bool,
}

/// abstract plan: each lookup is [] or [from, to] over the terms src | dst | srcW | dstW | single
#[derive(Clone, Debug, Serialize, Deserialize)]
pub struct PlanSym {
    pub up: Vec<String>,
    pub core: Vec<String>,
    pub down: Vec<String>,
}

#[derive(Clone, Debug, Serialize, Deserialize)]
pub struct PlanTableRow {
    pub cell: PlanCell,
    pub plan: PlanSym,
    pub err: bool,
}

/// concrete plan on an instance: endpoints are (isd, as) with as = 0 for "any core AS"
#[derive(Clone, Debug, Serialize, Deserialize)]
pub struct PlanConc {
    pub up: Vec<(u16, u32)>,
    pub core: Vec<(u16, u32)>,
    pub down: Vec<(u16, u32)>,
}

#[derive(Clone, Debug, Serialize, Deserialize)]
pub struct Fetched {
    pub cores: Vec<u32>,
    pub ncs: Vec<u32>,
}

#[derive(Clone, Debug, Serialize, Deserialize)]
pub struct PlanRow {
    pub src: u32,
    pub dst: (u16, u32),
    pub cell: PlanCell,
    pub plan: PlanConc,
    pub err: bool,
    pub fetched: Fetched,
    /// the reference has a route from src to dst (to some core AS of the ISD for a wildcard destination)
    pub reach: bool,
}

#[derive(Clone, Debug, Serialize, Deserialize)]
pub struct Inst {
    pub inst: u32,
    pub name: String,
    pub topo: Topo,
    pub segs: Vec<Seg>,
    pub pairs: Vec<Pair>,
    #[serde(default)]
    pub attacks: Vec<Attack>,
    #[serde(default)]
    pub plans: Vec<PlanRow>,
    #[serde(default)]
    pub plantable: Vec<PlanTableRow>,
}
