//! impl -> spec: executions of the real control plane / combinator / simulator on larger random topologies,
//! recorded as events for Trace_ScionNet (concrete 16-bit XOR, MAC verification as logged facts).
//!
//! events (ndjson):
//!   {"ev":"topo","topo":{..}}
//!   {"ev":"seg","seg":{"id","kind","ts","segid","es":[{"as","in","eg","exp","mtu","inmtu","mac":{"p","ok":[..]},
//!                       "peers":[{"pif","pas","prif","exp","pmtu","mac":{"p","ok":[..]}}]}]}}
//!        mac.p  = first 16 bits of the MAC; mac.ok = those accumulator values of the segment's own chain
//!        (beta_1..beta_{n+1}, computed from the logged prefixes) under which the MAC verifies with the AS key
//!   {"ev":"offered","src","dst","cores":[ids],"ncs":[ids],"paths":[[[as,if],..],..]}
//!   {"ev":"inject","cls","fam","pkt":{"segs":[{"cd","peer","segid","ts","hops":[{"in","eg","exp","mac":{"p","ok":[]}}]}],
//!                  "ci","ch","src","dst"},"at","ifin","now","down":[link ids]}
//!   {"ev":"step","as","ifin","facts":[[..],[..]],"k","class","eg","nas","nif","ci1","ch1","segids1":[..]}
//!        facts[0] / facts[1] = accumulator values among the candidates {segid, segid XOR prefix} of the current /
//!        next segment under which the current hop field / the hop field after it verifies with the key of "as"
use std::collections::HashMap;

use pocketscion::network::scion::segment::registry::SegmentRegistry;
use sciparse::{
    core::view::View,
    dataplane_path::standard::model::StandardPath,
    identifier::isd_asn::IsdAsn,
    packet::view::ScionRawPacketView,
    path::combinator::combine,
    segment::UnsignedPathSegment,
};
use serde_json::{Value, json};

use super::{
    model::Topo,
    world::{self, RealSeg, World, hop_mac, is_cd, is_peer, path_class, pfx},
};

const TS: u32 = 1_700_000_000;

fn mac_json(key: &[u8; 16], ts: u32, exp: u8, cin: u16, ceg: u16, mac: &[u8; 6], cands: &[u16]) -> Value {
    let mut ok = vec![];
    for b in cands {
        if hop_mac(key, *b, ts, exp, cin, ceg) == *mac && !ok.contains(b) {
            ok.push(*b);
        }
    }
    json!({"p": pfx(mac), "ok": ok})
}

fn seg_event(w: &World, rs: &RealSeg) -> Value {
    let ts = rs.seg.info().timestamp;
    let n = rs.seg.as_entries.len();
    let chain: Vec<u16> = (1..=n + 1).map(|i| rs.beta_at(i)).collect();
    let es: Vec<Value> = rs
        .seg
        .as_entries
        .iter()
        .map(|e| {
            let key = &w.keys[w.id(e.local) as usize];
            let h = &e.hop_entry.hop_field;
            json!({
                "as": w.id(e.local), "in": h.cons_ingress, "eg": h.cons_egress, "exp": h.expiration_units,
                "mtu": e.mtu, "inmtu": e.hop_entry.ingress_mtu,
                "mac": mac_json(key, ts, h.expiration_units, h.cons_ingress, h.cons_egress, h.mac.as_bytes(), &chain),
                "peers": e.peer_entries.iter().map(|p| {
                    let h = &p.hop_field;
                    json!({"pif": h.cons_ingress, "pas": w.id(p.peer), "prif": p.peer_interface, "exp": h.expiration_units, "pmtu": p.peer_mtu,
                           "mac": mac_json(key, ts, h.expiration_units, h.cons_ingress, h.cons_egress, h.mac.as_bytes(), &chain)})
                }).collect::<Vec<_>>(),
            })
        })
        .collect();
    json!({"ev": "seg", "seg": {"id": rs.id, "kind": if rs.core { "core" } else { "down" }, "ts": ts, "segid": rs.seg.info().segment_id, "es": es}})
}

fn pkt_json(p: &StandardPath, src: u32, dst: u32) -> Value {
    json!({
        "ci": p.current_info_field as u32 + 1, "ch": p.current_hop_field as u32 + 1, "src": src, "dst": dst,
        "segs": p.segments.iter().map(|s| json!({
            "cd": is_cd(s), "peer": is_peer(s), "segid": s.info_field.segment_id, "ts": s.info_field.timestamp,
            "hops": s.hop_fields.iter().map(|h| json!({"in": h.cons_ingress, "eg": h.cons_egress, "exp": h.expiration_units,
                                                        "mac": {"p": pfx(h.mac.as_bytes()), "ok": []}})).collect::<Vec<_>>()
        })).collect::<Vec<_>>()
    })
}

/// verification facts for the hop field at global index `g` of `p`, evaluated with the key of AS `x`
fn hop_fact(w: &World, p: &StandardPath, g: usize, x: u32) -> Value {
    let mut off = 0;
    for s in &p.segments {
        if g < off + s.hop_fields.len() {
            let h = &s.hop_fields[g - off];
            let sid = s.info_field.segment_id;
            let cands = [sid, sid ^ pfx(h.mac.as_bytes())];
            return mac_json(&w.keys[x as usize], s.info_field.timestamp, h.expiration_units, h.cons_ingress, h.cons_egress, h.mac.as_bytes(), &cands)["ok"].clone();
        }
        off += s.hop_fields.len();
    }
    json!([])
}

struct Rec<'a> {
    out: &'a mut vh_core::NdjsonWriter,
    events: u64,
    steps: u64,
    injects: u64,
    nontrivial: u64,
    by_fam: HashMap<String, u64>,
    by_cls: HashMap<String, u64>,
    by_verdict: HashMap<String, u64>,
}

impl Rec<'_> {
    fn ev(&mut self, v: Value) {
        self.events += 1;
        self.out.write(&v);
    }

    /// inject `model` at (at, ifin) and record every AS step of the real simulator; `sched[n]` = links that are
    /// down when the (n+1)-th AS step is taken (the last entry stays in force): a `links` event is logged whenever
    /// the link state changes while the packet travels
    fn inject(&mut self, w: &mut World, fam: &str, cls: &str, model: &StandardPath, src: u32, dst: u32, at: u32, ifin: u16, now: u32, sched: &[Vec<usize>]) -> (Option<Box<ScionRawPacketView>>, Vec<(StandardPath, u32, u16)>) {
        let mut snaps: Vec<(StandardPath, u32, u16)> = vec![];
        let Ok(dp) = world::encode_path(model) else { return (None, snaps) };
        let Ok(mut pk) = world::packet(w.ia[src as usize], w.ia[dst as usize], dp) else { return (None, snaps) };
        let down_at = |n: usize| -> Vec<usize> { if sched.is_empty() { vec![] } else { sched[n.min(sched.len() - 1)].clone() } };
        self.injects += 1;
        *self.by_fam.entry(fam.to_string()).or_insert(0) += 1;
        *self.by_cls.entry(cls.to_string()).or_insert(0) += 1;
        if fam != "honest" || cls != "plain" {
            self.nontrivial += 1;
        }
        self.ev(json!({"ev": "inject", "fam": fam, "cls": cls, "pkt": pkt_json(model, src, dst), "at": at, "ifin": ifin, "now": now, "down": down_at(0)}));
        let bound = model.hop_field_count() + 2;
        let (mut cur_as, mut cur_if) = (at, ifin);
        let mut last_k = String::new();
        for n in 0..bound {
            let down = down_at(n);
            if n > 0 && down != down_at(n - 1) {
                self.ev(json!({"ev": "links", "down": down}));
            }
            let pre = world::std_path_of(&pk);
            if let Some(pm) = &pre {
                snaps.push((pm.clone(), cur_as, cur_if));
            }
            let o = world::simulate_sched(w, &mut pk, now, cur_as, cur_if, std::slice::from_ref(&down), 1);
            let Some(s) = o.steps.first() else { break };
            let (mut f0, mut f1) = (json!([]), json!([]));
            if let Some(pm) = &pre {
                let g = pm.current_hop_field as usize;
                f0 = hop_fact(w, pm, g, s.asn);
                f1 = hop_fact(w, pm, g + 1, s.asn);
            }
            let (nas, nif) = if s.k == "fwd" { w.ifmap.get(&(s.asn, s.egress)).map(|(_, a, i)| (*a, *i)).unwrap_or((0, 0)) } else { (0, 0) };
            let post = world::header_state(&pk);
            let (ci1, ch1, sids) = post.map(|(a, b, c)| (a as u32 + 1, b as u32 + 1, c)).unwrap_or((0, 0, vec![]));
            self.steps += 1;
            self.ev(json!({"ev": "step", "as": s.asn, "ifin": s.ifin, "facts": [f0, f1], "k": s.k, "class": if s.k == "error" { "" } else { &s.class },
                           "eg": s.egress, "nas": nas, "nif": nif, "ci1": ci1, "ch1": ch1, "segids1": sids}));
            last_k = s.k.clone();
            if s.k != "fwd" || nas == 0 {
                break;
            }
            cur_as = nas;
            cur_if = nif;
        }
        *self.by_verdict.entry(last_k.clone()).or_insert(0) += 1;
        w.set_links(&[]);
        (if last_k == "deliver" { Some(pk) } else { None }, snaps)
    }
}

fn seg_key(s: &UnsignedPathSegment) -> Vec<(IsdAsn, u16, u16)> {
    s.as_entries.iter().map(|e| (e.local, e.hop_entry.hop_field.cons_ingress, e.hop_entry.hop_field.cons_egress)).collect()
}

pub fn run(topos: &str, events: &str, results: &str) {
    let lines = vh_core::read_ndjson(topos);
    let mut out = vh_core::NdjsonWriter::create(events);
    let seed = vh_core::seed_from_env();
    let pairs_per_topo: usize = std::env::var("SN_PAIRS").ok().and_then(|s| s.parse().ok()).unwrap_or(6);
    let paths_per_pair: usize = std::env::var("SN_PATHS").ok().and_then(|s| s.parse().ok()).unwrap_or(4);
    // none: segments and offered sets only; honest: + honest packets and their reverse; all: + attacker mutations
    let inject_mode = std::env::var("SN_INJECT").unwrap_or_else(|_| "all".into());
    let mut rec = Rec { out: &mut out, events: 0, steps: 0, injects: 0, nontrivial: 0, by_fam: HashMap::new(), by_cls: HashMap::new(), by_verdict: HashMap::new() };
    rec.ev(json!({"ev": "meta", "spec": "ScionNet", "seed": seed}));
    let mut ntopo = 0u64;
    let mut npairs = 0u64;
    let mut noffered = 0u64;
    let mut tool_errors: Vec<String> = vec![];
    for (ti, l) in lines.into_iter().enumerate() {
        let t: Topo = match serde_json::from_value(l) {
            Ok(t) => t,
            Err(e) => {
                eprintln!("bad topology line: {e}");
                std::process::exit(2);
            }
        };
        let mut rng = vh_core::Rng::new(seed.wrapping_mul(7919) ^ ((ti as u64) << 24));
        let mut w = match World::build(&t, &mut rng) {
            Ok(w) => w,
            Err(e) => {
                tool_errors.push(format!("{}: {e}", t.name));
                continue;
            }
        };
        ntopo += 1;
        rec.ev(json!({"ev": "topo", "topo": t}));
        // ---- the control plane's segments
        let reg = SegmentRegistry::from_topology(&w.topo);
        let valid_after = chrono::DateTime::<chrono::Utc>::from_timestamp(TS as i64, 0).unwrap();
        let mut segs: Vec<RealSeg> = vec![];
        let mut stores = vec![(true, reg.core_segments())];
        let mut isds: Vec<u16> = t.ases.iter().map(|a| a.isd).collect();
        isds.sort();
        isds.dedup();
        for i in &isds {
            let isd = w.ia[t.ases.iter().find(|a| a.isd == *i).unwrap().id as usize].isd();
            if let Some(st) = reg.isd_segments(&isd) {
                stores.push((false, st));
            }
        }
        let mut lss = vec![];
        for (core, st) in stores {
            for ls in st.iter_segments_filtered(|_| true) {
                lss.push((core, ls));
            }
        }
        // deterministic order
        let mut tmp: Vec<(bool, UnsignedPathSegment)> = lss
            .iter()
            .filter_map(|(c, ls)| ls.to_path_segment(&w.topo, valid_after, 0, 255, false).ok().map(|s| (*c, s.into_unsigned_segment())))
            .collect();
        tmp.sort_by_key(|(c, s)| (*c, seg_key(s)));
        for (n, (core, s)) in tmp.into_iter().enumerate() {
            segs.push(RealSeg { id: n as u32 + 1, core, seg: s });
        }
        if segs.len() > 400 {
            // keep TLC's work bounded: skip very segment-rich topologies
            continue;
        }
        for rs in &segs {
            rec.ev(seg_event(&w, rs));
        }
        let by_key: HashMap<Vec<(IsdAsn, u16, u16)>, u32> = segs.iter().map(|rs| (seg_key(&rs.seg), rs.id)).collect();
        // ---- sampled ordered pairs
        let k = t.ases.len() as u64;
        let mut chosen: Vec<(u32, u32)> = vec![];
        for _ in 0..pairs_per_topo * 4 {
            let s = rng.range(1, k) as u32;
            let d = rng.range(1, k) as u32;
            if s != d && !chosen.contains(&(s, d)) {
                chosen.push((s, d));
            }
            if chosen.len() >= pairs_per_topo {
                break;
            }
        }
        for (src, dst) in chosen {
            let (sia, dia) = (w.ia[src as usize], w.ia[dst as usize]);
            // what the control plane answers for this pair
            let listed = match reg.endhost_list_segments(sia, sia, dia).and_then(|l| l.into_path_segments(&w.topo, valid_after, 0, 255)) {
                Ok(l) => l,
                Err(_) => continue,
            };
            let cores: Vec<UnsignedPathSegment> = listed.iter_cores().map(|s| s.clone().into_unsigned_segment()).collect();
            let ncs: Vec<UnsignedPathSegment> = listed.iter_non_cores().map(|s| s.clone().into_unsigned_segment()).collect();
            let ids = |v: &Vec<UnsignedPathSegment>| -> Option<Vec<u32>> { v.iter().map(|s| by_key.get(&seg_key(s)).copied()).collect() };
            let (Some(cid), Some(nid)) = (ids(&cores), ids(&ncs)) else {
                tool_errors.push(format!("{}: listed segment not in the registry dump", t.name));
                continue;
            };
            if cid.len() * nid.len().max(1) * nid.len().max(1) > 4000 {
                continue; // reference enumeration too large for the trace tier
            }
            let paths = match vh_core::catch(|| combine(sia, dia, cores.clone(), ncs.clone())) {
                Ok(p) => p,
                Err(_) => continue,
            };
            npairs += 1;
            noffered += paths.len() as u64;
            let offs: Vec<world::Offered> = paths.iter().map(|p| world::describe(&w, p)).collect();
            let mut seqs = vec![];
            for o in &offs {
                if let Some(m) = &o.model {
                    match world::decode_ifs(&w, src, m) {
                        Ok(i) => seqs.push(json!(i)),
                        Err(e) => seqs.push(json!([[0, 0], e])),
                    }
                }
            }
            rec.ev(json!({"ev": "offered", "src": src, "dst": dst, "cores": cid, "ncs": nid, "paths": seqs}));
            // ---- packets
            let mut idx: Vec<usize> = (0..offs.len()).collect();
            rng.shuffle(&mut idx);
            // always include the most structured paths
            idx.sort_by_key(|i| offs[*i].model.as_ref().map(|m| if path_class(m) == "plain" { 1 } else { 0 }).unwrap_or(2));
            for i in idx.into_iter().take(if inject_mode == "none" { 0 } else { paths_per_pair }) {
                let Some(m) = offs[i].model.clone() else { continue };
                let cls = path_class(&m);
                let now = TS + 2;
                let (delivered, snaps) = rec.inject(&mut w, "honest", cls, &m, src, dst, src, 0, now, &[]);
                if let Some(delivered) = delivered {
                    if let Some(mut r) = world::std_path_of(&delivered) {
                        if r.try_reverse().is_ok() {
                            rec.inject(&mut w, "honest-rev", cls, &r, dst, src, dst, 0, now, &[]);
                        }
                    }
                }
                if inject_mode == "all" && snaps.len() > 1 {
                    // the walked packet injected at a LATER hop of its path with a shifted clock (before the
                    // timestamp of the current segment / valid / expired), from the link or from inside the AS
                    let k = 1 + rng.below((snaps.len() - 1) as u64) as usize;
                    let (pm, at_k, if_k) = snaps[k].clone();
                    let cur_ts = pm.segments.get(pm.current_info_field as usize).map(|s| s.info_field.timestamp).unwrap_or(now);
                    let (famc, nowc) = match rng.below(3) {
                        0 => ("mid-future", cur_ts.saturating_sub(1 + rng.below(50) as u32)),
                        1 => ("mid-expired", offs[i].exp_fn.unwrap_or(now) + 1 + rng.below(3) as u32),
                        _ => ("mid-valid", now),
                    };
                    let ifin_k = if rng.chance(1, 4) { 0 } else { if_k };
                    rec.inject(&mut w, famc, cls, &pm, src, dst, at_k, ifin_k, nowc, &[]);
                }
                if inject_mode != "all" {
                    continue;
                }
                // seeded attacker mutations
                let nh = m.hop_field_count();
                let mutation = rng.below(8);
                let mut mm = m.clone();
                let mut at = src;
                let mut ifin = 0u16;
                let mut sched: Vec<Vec<usize>> = vec![];
                let mut nowm = now;
                let fam = match mutation {
                    0 => {
                        let g = rng.below(nh as u64) as usize;
                        let mut off = 0;
                        for s in mm.segments.iter_mut() {
                            if g < off + s.hop_fields.len() {
                                s.hop_fields[g - off].mac.0[4] ^= 0x10;
                                break;
                            }
                            off += s.hop_fields.len();
                        }
                        "mut-mac"
                    }
                    1 => {
                        let g = rng.below(nh as u64) as usize;
                        let mut off = 0;
                        for s in mm.segments.iter_mut() {
                            if g < off + s.hop_fields.len() {
                                let h = &mut s.hop_fields[g - off];
                                if rng.chance(1, 2) {
                                    h.cons_ingress = h.cons_ingress.wrapping_add(1)
                                } else {
                                    h.cons_egress = h.cons_egress.wrapping_add(1)
                                }
                                break;
                            }
                            off += s.hop_fields.len();
                        }
                        "mut-iface"
                    }
                    2 => {
                        let k = rng.below(mm.segments.len() as u64) as usize;
                        mm.segments[k].info_field.segment_id ^= 1 << rng.below(16);
                        "mut-segid"
                    }
                    3 => {
                        // a link of the path goes down
                        if let Ok(ifs) = world::decode_ifs(&w, src, &m) {
                            if !ifs.is_empty() {
                                let c = ifs[(rng.below((ifs.len() / 2) as u64) * 2) as usize];
                                if let Some((l, _, _)) = w.ifmap.get(&c) {
                                    sched = vec![vec![l + 1]];
                                }
                            }
                        }
                        "mut-linkdown"
                    }
                    4 => {
                        at = rng.range(1, k) as u32;
                        let ifs: Vec<u16> = w.ifmap.keys().filter(|(a, _)| *a == at).map(|(_, i)| *i).collect();
                        let mut ifs = ifs;
                        ifs.sort();
                        ifin = if ifs.is_empty() || rng.chance(1, 3) { 0 } else { *rng.pick(&ifs) };
                        "mut-ingress"
                    }
                    5 => {
                        if rng.chance(1, 2) {
                            nowm = offs[i].exp_fn.unwrap_or(now) + 1 + rng.below(3) as u32;
                            "mut-expired"
                        } else {
                            nowm = m.segments.iter().map(|s| s.info_field.timestamp).max().unwrap_or(now).saturating_sub(1 + rng.below(50) as u32);
                            "mut-future"
                        }
                    }
                    7 => {
                        // a link of the path fails (or recovers) while the packet travels
                        if let Ok(ifs) = world::decode_ifs(&w, src, &m) {
                            if !ifs.is_empty() {
                                let nl = ifs.len() / 2;
                                let c = ifs[(rng.below(nl as u64) * 2) as usize];
                                if let Some((l, _, _)) = w.ifmap.get(&c) {
                                    let k = 1 + rng.below(nl as u64) as usize;
                                    let fails = rng.chance(1, 2);
                                    sched = (0..=nl).map(|n| if (n >= k) == fails { vec![l + 1] } else { vec![] }).collect();
                                }
                            }
                        }
                        "mut-toggle"
                    }
                    _ => {
                        let k = rng.below(mm.segments.len() as u64) as usize;
                        mm.segments[k].info_field.timestamp = mm.segments[k].info_field.timestamp.wrapping_sub(1 + rng.below(5) as u32);
                        "mut-ts"
                    }
                };
                rec.inject(&mut w, fam, cls, &mm, src, dst, at, ifin, nowm, &sched);
            }
        }
    }
    let (events, steps, injects, nontrivial) = (rec.events, rec.steps, rec.injects, rec.nontrivial);
    let by_fam = rec.by_fam.clone();
    let by_cls = rec.by_cls.clone();
    let by_verdict = rec.by_verdict.clone();
    drop(rec);
    out.finish();
    let res = json!({"topologies": ntopo, "pairs": npairs, "offered": noffered, "events": events, "steps": steps, "injects": injects,
                     "nontrivial": nontrivial, "by_fam": by_fam, "by_cls": by_cls, "by_verdict": by_verdict, "tool_errors": tool_errors});
    std::fs::write(results, serde_json::to_string_pretty(&res).unwrap()).expect("write results");
}
