//! Concretisation of a model instance on the real code: pocketscion topology, real segments (real
//! AES-CMAC keys), packets, and the simulator adapter.
use std::collections::HashMap;

use pocketscion::network::scion::{
    routing::{AsRoutingAction, LocalAsRoutingAction, ScionNetworkTime, spec::SpecRoutingLogic},
    simulator::ScionNetworkSim,
    topology::{ScionAs, ScionLink, ScionLinkType, ScionTopology, ScionTopologyBuilder},
};
use sciparse::{
    address::addr::{ScionAddr, ScionAddrV4},
    core::{convert::FromView, encode::WireEncode, model::Model},
    dataplane_path::{
        model::DpPath,
        onehop::model::OneHopPath,
        standard::{
            model::{HopField, InfoField, Segment, StandardPath},
            types::{HopFieldFlags, HopFieldMac, InfoFieldFlags},
        },
        view::{ScionDpPathView, ScionDpPathViewRef},
    },
    identifier::isd_asn::IsdAsn,
    packet::{model::ScionRawPacket, view::ScionRawPacketView},
    path::ScionPath,
    payload::{
        ProtocolNumber,
        scmp::{model::ScmpErrorMessage, types::ScmpParameterProblemCode},
    },
    segment::{AsEntry, HopEntry, PeerEntry, SegmentHopField, UnsignedPathSegment},
};
use serde_json::{Value, json};

use super::model::{RefPiece, Seg, Topo};

pub struct World<'a> {
    pub t: &'a Topo,
    pub topo: ScionTopology,
    /// IsdAsn by AS id (index 0 unused)
    pub ia: Vec<IsdAsn>,
    pub id_of: HashMap<IsdAsn, u32>,
    pub keys: Vec<[u8; 16]>,
    /// (as, if) -> (link index 0-based, far as, far if)
    pub ifmap: HashMap<(u32, u16), (usize, u32, u16)>,
}

pub fn ia_of(isd: u16, id: u32) -> IsdAsn {
    format!("{}-{}", isd, id).parse().expect("ia")
}

impl<'a> World<'a> {
    /// Builds the pocketscion topology of a model instance.  `Err` = the builder rejected a topology the
    /// specification calls valid.
    pub fn build(t: &'a Topo, rng: &mut vh_core::Rng) -> Result<World<'a>, String> {
        let mut b = ScionTopologyBuilder::new();
        let mut ia = vec![IsdAsn(0)];
        let mut keys = vec![[0u8; 16]];
        let mut id_of = HashMap::new();
        for a in &t.ases {
            let x = ia_of(a.isd, a.id);
            let mut key = [0u8; 16];
            key.copy_from_slice(&rng.bytes(16));
            let sas = if a.core { ScionAs::new_core(x) } else { ScionAs::new(x) }.with_forwarding_key(key);
            b.add_as(sas).map_err(|e| format!("add_as {x}: {e}"))?;
            id_of.insert(x, a.id);
            ia.push(x);
            keys.push(key);
        }
        let mut ifmap = HashMap::new();
        for (n, l) in t.links.iter().enumerate() {
            let ty = match l.t.as_str() {
                "core" => ScionLinkType::Core,
                "parent" => ScionLinkType::Parent,
                "peer" => ScionLinkType::Peer,
                o => return Err(format!("bad link type {o}")),
            };
            let link = ScionLink::new(ia[l.a as usize], l.aif, ty, ia[l.b as usize], l.bif).map_err(|e| format!("link {n}: {e}"))?;
            b.add_link(link).map_err(|e| format!("add_link {n}: {e}"))?;
            ifmap.insert((l.a, l.aif), (n, l.b, l.bif));
            ifmap.insert((l.b, l.bif), (n, l.a, l.aif));
        }
        let topo = b.build().map_err(|e| format!("build: {e}"))?;
        Ok(World { t, topo, ia, id_of, keys, ifmap })
    }

    pub fn id(&self, x: IsdAsn) -> u32 {
        *self.id_of.get(&x).unwrap_or(&0)
    }

    pub fn set_links(&mut self, down: &[usize]) {
        // S6 binding self-test: a deliberately wrong ADAPTER (never applies the link state) must be reported
        // as a violation by the P-monitors
        if std::env::var("SN_MUTANT").map(|m| m == "nolinkstate").unwrap_or(false) {
            return;
        }
        for (n, l) in self.t.links.iter().enumerate() {
            let up = !down.contains(&(n + 1));
            if let Some(k) = self.topo.mut_scion_link(&self.ia[l.a as usize], l.aif) {
                k.set_is_up(up);
            }
        }
    }

    /// link kind seen from AS x through interface i: "core" | "child" | "parent" | "peer" | "none"
    pub fn link_to(&self, x: u32, i: u16) -> &'static str {
        match self.ifmap.get(&(x, i)) {
            None => "none",
            Some((n, _, _)) => {
                let l = &self.t.links[*n];
                match l.t.as_str() {
                    "core" => "core",
                    "peer" => "peer",
                    _ => {
                        if l.a == x {
                            "child"
                        } else {
                            "parent"
                        }
                    }
                }
            }
        }
    }
}

// ------------------------------------------------------------------------------------------------
// independent MAC evaluation (primitive trusted, input layout restated from the SCION header spec)

/// AES-CMAC over  0,0 | beta(2) | ts(4) | 0 | exp(1) | consIngress(2) | consEgress(2) | 0,0 ; first 6 bytes
pub fn hop_mac(key: &[u8; 16], beta: u16, ts: u32, exp: u8, cin: u16, ceg: u16) -> [u8; 6] {
    use cmac::Mac;
    let mut inp = [0u8; 16];
    inp[2..4].copy_from_slice(&beta.to_be_bytes());
    inp[4..8].copy_from_slice(&ts.to_be_bytes());
    inp[9] = exp;
    inp[10..12].copy_from_slice(&cin.to_be_bytes());
    inp[12..14].copy_from_slice(&ceg.to_be_bytes());
    let mut m = <cmac::Cmac<aes::Aes128> as Mac>::new(key.into());
    m.update(&inp);
    let out: [u8; 16] = m.finalize().into_bytes().into();
    let mut r = [0u8; 6];
    r.copy_from_slice(&out[..6]);
    r
}

pub fn pfx(mac: &[u8; 6]) -> u16 {
    u16::from_be_bytes([mac[0], mac[1]])
}

/// The accumulator value under which `mac` verifies with `key`, found by exhaustive search over all 2^16
/// values (None = under no value).  Independent of any rule about WHICH value should apply.
pub fn ok_beta(key: &[u8; 16], ts: u32, exp: u8, cin: u16, ceg: u16, mac: &[u8; 6], cache: &mut HashMap<([u8; 16], u32, u8, u16, u16, [u8; 6]), i32>) -> i32 {
    let k = (*key, ts, exp, cin, ceg, *mac);
    if let Some(v) = cache.get(&k) {
        return *v;
    }
    let mut found = -1i32;
    for b in 0..=u16::MAX {
        if hop_mac(key, b, ts, exp, cin, ceg) == *mac {
            found = b as i32;
            break;
        }
    }
    cache.insert(k, found);
    found
}

// ------------------------------------------------------------------------------------------------
// segments

/// A real control-plane segment together with the model's description of it.
pub struct RealSeg {
    pub id: u32,
    pub core: bool,
    pub seg: UnsignedPathSegment,
}

impl RealSeg {
    pub fn n(&self) -> usize {
        self.seg.as_entries.len()
    }
    pub fn leaf(&self) -> IsdAsn {
        self.seg.as_entries.last().unwrap().local
    }
    /// accumulator before entry i (1-based; n+1 = after the last entry), computed from the segment's real MACs
    pub fn beta_at(&self, i: usize) -> u16 {
        let mut b = self.seg.info().segment_id;
        for e in &self.seg.as_entries[..i - 1] {
            b ^= pfx(e.hop_entry.hop_field.mac.as_bytes());
        }
        b
    }
}

/// Builds the segment with the real beacon-extension code (`add_unsigned_entry` -> `AsEntry::update_macs`).
pub fn build_segment(w: &World, s: &Seg, segid: u16, profile_pocket: Option<u32>) -> RealSeg {
    let ts = profile_pocket.unwrap_or(s.ts);
    let mut seg = UnsignedPathSegment::new(ts, segid, vec![]);
    for (i, e) in s.es.iter().enumerate() {
        let (exp, mtu, inmtu) = if profile_pocket.is_some() { (255u8, 1280u32, 1280u16) } else { (e.exp, e.mtu, e.inmtu) };
        let next = s.es.get(i + 1).map(|n| w.ia[n.asn as usize]).unwrap_or(IsdAsn(0));
        let entry = AsEntry {
            local: w.ia[e.asn as usize],
            next,
            mtu,
            hop_entry: HopEntry {
                ingress_mtu: if i == 0 && profile_pocket.is_none() { 0 } else { inmtu },
                hop_field: SegmentHopField { expiration_units: exp, cons_ingress: e.cin, cons_egress: e.eg, mac: HopFieldMac::zero() },
            },
            peer_entries: e
                .peers
                .iter()
                .map(|p| PeerEntry {
                    peer: w.ia[p.pas as usize],
                    peer_interface: p.prif,
                    peer_mtu: if profile_pocket.is_some() { 1280 } else { p.pmtu },
                    hop_field: SegmentHopField {
                        expiration_units: if profile_pocket.is_some() { 255 } else { p.exp },
                        cons_ingress: p.pif,
                        cons_egress: e.eg,
                        mac: HopFieldMac::zero(),
                    },
                })
                .collect(),
            extensions: vec![],
            unsigned_extensions: vec![],
        };
        seg.add_unsigned_entry(entry, &w.keys[e.asn as usize]);
    }
    RealSeg { id: s.id, core: s.kind == "core", seg }
}

/// The same segment with every MAC recomputed by the SPECIFICATION's chain rule (regular hop under beta_i,
/// peer hops under beta_{i+1}) with the real AES-CMAC primitive: what a correct beacon extension produces.
pub fn ideal_segment(w: &World, rs: &RealSeg) -> RealSeg {
    let mut seg = rs.seg.clone();
    let ts = seg.info().timestamp;
    let mut beta = seg.info().segment_id;
    for e in seg.as_entries.iter_mut() {
        let key = &w.keys[w.id(e.local) as usize];
        let h = &mut e.hop_entry.hop_field;
        let m = hop_mac(key, beta, ts, h.expiration_units, h.cons_ingress, h.cons_egress);
        h.mac = HopFieldMac(m);
        let beta2 = beta ^ pfx(&m);
        for p in e.peer_entries.iter_mut() {
            let h = &mut p.hop_field;
            h.mac = HopFieldMac(hop_mac(key, beta2, ts, h.expiration_units, h.cons_ingress, h.cons_egress));
        }
        beta = beta2;
    }
    RealSeg { id: rs.id, core: rs.core, seg }
}

/// MAC facts of a segment against the SCION chain rule: list of (entry index 1-based, peer index 0 = regular hop,
/// ok) where ok = the MAC verifies with the AS key under the accumulator the specification prescribes
/// (beta_i for the regular hop, beta_{i+1} for peer hops).
pub fn chain_facts(w: &World, rs: &RealSeg) -> Vec<(usize, usize, bool)> {
    let ts = rs.seg.info().timestamp;
    let mut out = vec![];
    for (i0, e) in rs.seg.as_entries.iter().enumerate() {
        let i = i0 + 1;
        let key = &w.keys[w.id(e.local) as usize];
        let h = &e.hop_entry.hop_field;
        out.push((i, 0, hop_mac(key, rs.beta_at(i), ts, h.expiration_units, h.cons_ingress, h.cons_egress) == *h.mac.as_bytes()));
        for (k, p) in e.peer_entries.iter().enumerate() {
            let h = &p.hop_field;
            out.push((i, k + 1, hop_mac(key, rs.beta_at(i + 1), ts, h.expiration_units, h.cons_ingress, h.cons_egress) == *h.mac.as_bytes()));
        }
    }
    out
}

// ------------------------------------------------------------------------------------------------
// offered paths

#[derive(Clone, Debug)]
pub struct Offered {
    pub src: IsdAsn,
    pub dst: IsdAsn,
    pub meta_ifs: Option<Vec<(u32, u16)>>,
    pub meta_mtu: Option<u16>,
    pub meta_exp: Option<u64>,
    pub exp_fn: Option<u32>,
    pub model: Option<StandardPath>,
}

pub fn describe(w: &World, p: &ScionPath) -> Offered {
    let model = match p.dp_path() {
        ScionDpPathView::Standard(v) => Some(StandardPath::from_view(v)),
        _ => None,
    };
    let md = p.metadata();
    Offered {
        src: p.src_ia(),
        dst: p.dst_ia(),
        meta_ifs: md.and_then(|m| m.interfaces.as_ref()).map(|v| v.iter().map(|i| (w.id(i.interface.isd_asn), i.interface.id)).collect()),
        meta_mtu: md.map(|m| m.mtu),
        meta_exp: md.map(|m| m.expiration),
        exp_fn: p.expiration(),
        model,
    }
}

pub fn t_in(h: &HopField, cd: bool) -> u16 {
    if cd { h.cons_ingress } else { h.cons_egress }
}
pub fn t_out(h: &HopField, cd: bool) -> u16 {
    if cd { h.cons_egress } else { h.cons_ingress }
}
pub fn is_cd(s: &Segment) -> bool {
    s.info_field.flags.contains(InfoFieldFlags::CONS_DIR)
}
pub fn is_peer(s: &Segment) -> bool {
    s.info_field.flags.contains(InfoFieldFlags::PEERING)
}

/// The links encoded in the hop fields, in travel order, decoded from the data-plane path and looked up in
/// the instance's link table (independent of the path's metadata).
pub fn decode_ifs(w: &World, src: u32, p: &StandardPath) -> Result<Vec<(u32, u16)>, String> {
    let mut out = vec![];
    let mut cur = src;
    let ns = p.segments.len();
    let mut arrived: Option<u16> = None; // interface through which `cur` was entered
    for (k, s) in p.segments.iter().enumerate() {
        let nh = s.hop_fields.len();
        let cd = is_cd(s);
        let pe = is_peer(s);
        for (j, h) in s.hop_fields.iter().enumerate() {
            let first_of_later = j == 0 && k > 0 && !pe;
            let last_of_earlier = j + 1 == nh && k + 1 < ns && !pe;
            let path_first = k == 0 && j == 0;
            let path_last = k + 1 == ns && j + 1 == nh;
            if !path_first && !first_of_later {
                // this hop was entered over a link: its travel ingress must be the arrival interface
                if Some(t_in(h, cd)) != arrived {
                    return Err(format!("hop {k}.{j}: travel ingress {} but arrived on {:?} at AS {cur}", t_in(h, cd), arrived));
                }
            }
            if path_last || last_of_earlier {
                continue;
            }
            let e = t_out(h, cd);
            let Some(&(_, far, farif)) = w.ifmap.get(&(cur, e)) else {
                return Err(format!("hop {k}.{j}: AS {cur} has no interface {e}"));
            };
            out.push((cur, e));
            out.push((far, farif));
            cur = far;
            arrived = Some(farif);
        }
    }
    Ok(out)
}

pub fn as_seq(src: u32, ifs: &[(u32, u16)]) -> Vec<u32> {
    let mut v = vec![src];
    for c in ifs.chunks(2) {
        if c.len() == 2 {
            v.push(c[1].0);
        }
    }
    v
}

/// plain | onpath | shortcut | peering   (non-trivial: >= 2 segments or not plain)
pub fn path_class(p: &StandardPath) -> &'static str {
    if p.segments.iter().any(is_peer) {
        return "peering";
    }
    let top_unused = |s: &Segment| -> bool {
        // the hop at the construction-direction start of the piece carries an unused (non-zero) ingress
        let h = if is_cd(s) { s.hop_fields.first() } else { s.hop_fields.last() };
        h.map(|h| h.cons_ingress != 0).unwrap_or(false)
    };
    match p.segments.len() {
        1 => {
            if top_unused(&p.segments[0]) {
                "onpath"
            } else {
                "plain"
            }
        }
        2 => {
            if top_unused(&p.segments[0]) || top_unused(&p.segments[1]) {
                "shortcut"
            } else {
                "plain"
            }
        }
        _ => "plain",
    }
}

// ------------------------------------------------------------------------------------------------
// packets and simulation

pub fn host(ia: IsdAsn, last: u8) -> ScionAddr {
    ScionAddr::V4(ScionAddrV4::new(ia, std::net::Ipv4Addr::new(10, 0, 0, last)))
}

pub fn packet(src: IsdAsn, dst: IsdAsn, path: DpPath) -> Result<Box<ScionRawPacketView>, String> {
    ScionRawPacket::new(host(src, 1), host(dst, 2), path, ProtocolNumber::Other(253), b"verif".to_vec())
        .try_encode_to_owned_view()
        .map_err(|e| format!("encode: {e:?}"))
}

#[derive(Clone, Debug)]
pub struct SimStep {
    pub asn: u32,
    pub ifin: u16,
    /// "fwd" | "deliver" | "reject" | "drop" | "error" | "other"
    pub k: String,
    pub class: String,
    pub egress: u16,
}

#[derive(Clone, Debug)]
pub struct SimOut {
    pub steps: Vec<SimStep>,
    pub panic: Option<String>,
}

impl SimOut {
    pub fn last(&self) -> SimStep {
        self.steps.last().cloned().unwrap_or(SimStep { asn: 0, ifin: 0, k: "none".into(), class: String::new(), egress: 0 })
    }
    pub fn trace_json(&self) -> Value {
        Value::Array(self.steps.iter().map(|s| json!({"as": s.asn, "ifin": s.ifin, "k": s.k, "class": s.class, "eg": s.egress})).collect())
    }
}

pub fn scmp_class(e: &ScmpErrorMessage) -> String {
    match e {
        ScmpErrorMessage::ParameterProblem(p) => match p.code {
            ScmpParameterProblemCode::InvalidHopFieldMac => "mac",
            ScmpParameterProblemCode::PathExpired => "expired",
            ScmpParameterProblemCode::InvalidPath => "future",
            ScmpParameterProblemCode::UnknownHopFieldConsIngressInterface | ScmpParameterProblemCode::UnknownHopFieldConsEgressInterface => "iface",
            ScmpParameterProblemCode::InvalidSegmentChange => "segchange",
            ScmpParameterProblemCode::NonLocalDelivery | ScmpParameterProblemCode::InvalidDestinationAddress => "dst",
            ScmpParameterProblemCode::ErroneousHeaderField => "alert",
            _ => "other",
        }
        .to_string(),
        ScmpErrorMessage::ExternalInterfaceDown(_) => "ifdown".to_string(),
        _ => "other".to_string(),
    }
}

fn classify_step(w: &World, o: &pocketscion::network::scion::simulator::ScionNetworkSimIterOutput) -> SimStep {
    let (k, class, egress) = match &o.action {
        AsRoutingAction::ForwardNextHop { egress_interface_id } => ("fwd", String::new(), *egress_interface_id),
        AsRoutingAction::Drop => ("drop", "malformed".to_string(), 0),
        AsRoutingAction::Local(LocalAsRoutingAction::ForwardLocal) => ("deliver", String::new(), 0),
        AsRoutingAction::Local(LocalAsRoutingAction::SendSCMPErrorResponse(e)) => ("reject", scmp_class(e), 0),
        AsRoutingAction::Local(LocalAsRoutingAction::ForwardExternal { sim_egress_interface_id, .. }) => ("external", String::new(), *sim_egress_interface_id),
        AsRoutingAction::Local(_) => ("other", "scmp-request".to_string(), 0),
    };
    SimStep { asn: w.id(o.at_as), ifin: o.at_ingress_interface, k: k.into(), class, egress }
}

/// One AS step at a time, with the link state `sched[n]` (1-based link ids that are down; the last entry stays in
/// force) applied before the n-th step: links failing / recovering while the packet travels.  Each step is a fresh
/// `ScionNetworkSim::iter` started where the previous one forwarded the packet to.
pub fn simulate_sched(w: &mut World, pkt: &mut ScionRawPacketView, now: u32, at: u32, ifin: u16, sched: &[Vec<usize>], max_steps: usize) -> SimOut {
    let mut steps: Vec<SimStep> = vec![];
    let mut panic = None;
    let (mut cur_as, mut cur_if) = (w.ia[at as usize], ifin);
    for n in 0..max_steps {
        let down: Vec<usize> = if sched.is_empty() { vec![] } else { sched[n.min(sched.len() - 1)].clone() };
        w.set_links(&down);
        let wr: &World = w;
        let pk: &mut ScionRawPacketView = &mut *pkt;
        let r = vh_core::catch(|| {
            let mut it = match ScionNetworkSim::iter::<SpecRoutingLogic>(&wr.topo, pk, ScionNetworkTime::from_timestamp_secs(now), cur_as, cur_if, false) {
                Ok(it) => it,
                Err(e) => return (SimStep { asn: wr.id(cur_as), ifin: cur_if, k: "error".into(), class: format!("{e}"), egress: 0 }, cur_as, cur_if),
            };
            match it.next() {
                None => (SimStep { asn: wr.id(cur_as), ifin: cur_if, k: "none".into(), class: String::new(), egress: 0 }, cur_as, cur_if),
                Some(Err(e)) => (SimStep { asn: wr.id(cur_as), ifin: cur_if, k: "error".into(), class: format!("{e:#}"), egress: 0 }, cur_as, cur_if),
                Some(Ok(o)) => {
                    let st = classify_step(wr, &o);
                    (st, it.get_processing_as(), it.get_processing_interface_id())
                }
            }
        });
        match r {
            Err(p) => {
                panic = Some(p);
                break;
            }
            Ok((st, na, ni)) => {
                let fwd = st.k == "fwd";
                steps.push(st);
                if !fwd {
                    break;
                }
                cur_as = na;
                cur_if = ni;
            }
        }
    }
    SimOut { steps, panic }
}

/// Runs the real simulator (`ScionNetworkSim::iter::<SpecRoutingLogic>`, real keys, MACs verified) for at most
/// `max_steps` AS steps on `pkt` (modified in place).
pub fn simulate(w: &World, pkt: &mut ScionRawPacketView, now: u32, at: u32, ifin: u16, max_steps: usize) -> SimOut {
    let mut steps = vec![];
    let r = vh_core::catch(|| {
        let it = match ScionNetworkSim::iter::<SpecRoutingLogic>(&w.topo, pkt, ScionNetworkTime::from_timestamp_secs(now), w.ia[at as usize], ifin, false) {
            Ok(it) => it,
            Err(e) => {
                steps.push(SimStep { asn: at, ifin, k: "error".into(), class: format!("{e}"), egress: 0 });
                return;
            }
        };
        for item in it.take(max_steps) {
            match item {
                Err(e) => {
                    let (a, i) = steps.last().map(|s: &SimStep| (s.asn, s.ifin)).unwrap_or((at, ifin));
                    steps.push(SimStep { asn: a, ifin: i, k: "error".into(), class: format!("{e:#}"), egress: 0 });
                    break;
                }
                Ok(o) => steps.push(classify_step(w, &o)),
            }
        }
    });
    SimOut { steps, panic: r.err() }
}

/// state of the path header of a packet: (ci, ch, segids)  (0-based as on the wire)
pub fn header_state(pkt: &ScionRawPacketView) -> Option<(u8, u8, Vec<u16>)> {
    match pkt.header().path() {
        ScionDpPathViewRef::Standard(v) => Some((v.curr_info_field_idx(), v.curr_hop_field_idx(), v.info_fields().iter().map(|i| i.segment_id()).collect())),
        _ => None,
    }
}

pub fn std_path_of(pkt: &ScionRawPacketView) -> Option<StandardPath> {
    match pkt.header().path() {
        ScionDpPathViewRef::Standard(v) => Some(StandardPath::from_view(v)),
        _ => None,
    }
}

// ------------------------------------------------------------------------------------------------
// concretising a model packet (reference path / attack) from real segments

/// `from_real`: take timestamps and expiry units from the real segments (the reference describes the varied
/// profile; pocketscion's registry uses its own constants) instead of the wire values given by the model.
pub fn concretize(w: &World, segs: &HashMap<u32, RealSeg>, pieces: &[RefPiece], ci: u32, ch: u32, from_real: bool) -> Result<StandardPath, String> {
    let _ = w;
    let mut p = StandardPath::new_empty();
    for q in pieces {
        let rs = segs.get(&q.sb.0).ok_or_else(|| format!("no segment {}", q.sb.0))?;
        let mut flags = InfoFieldFlags::empty();
        flags.set(InfoFieldFlags::CONS_DIR, q.cd);
        flags.set(InfoFieldFlags::PEERING, q.peer);
        let mut segid = rs.beta_at(q.sb.1);
        if q.sx {
            segid ^= 0x5a5a;
        }
        let ts = if from_real { rs.seg.info().timestamp } else { q.ts };
        let mut s = Segment { info_field: InfoField { flags, segment_id: segid, timestamp: ts }, ..Default::default() };
        for h in &q.hops {
            let hs = segs.get(&h.seg).ok_or_else(|| format!("no segment {}", h.seg))?;
            let e = hs.seg.as_entries.get(h.idx - 1).ok_or_else(|| format!("segment {} has no entry {}", h.seg, h.idx))?;
            let real = if h.pk == 0 { &e.hop_entry.hop_field } else { &e.peer_entries.get(h.pk - 1).ok_or("no peer entry")?.hop_field };
            let mut mac = *real.mac.as_bytes();
            if h.mb {
                mac[3] ^= 0x01;
                mac[0] ^= 0x80;
            }
            let exp = if from_real { real.expiration_units } else { h.exp };
            s.hop_fields.push(HopField { flags: HopFieldFlags::empty(), expiration_units: exp, cons_ingress: h.cin, cons_egress: h.eg, mac: HopFieldMac(mac) });
        }
        p.segments.push(s);
    }
    p.current_info_field = (ci.max(1) - 1) as u8;
    p.current_hop_field = (ch.max(1) - 1) as u8;
    Ok(p)
}

pub fn one_hop(key: [u8; 16], egress: u16, ts: u32, segid: u16, exp: u8) -> DpPath {
    OneHopPath::new(egress, segid, ts, key, exp).into()
}

pub fn model_json(p: &StandardPath) -> Value {
    json!({
        "ci": p.current_info_field, "ch": p.current_hop_field,
        "segs": p.segments.iter().map(|s| json!({
            "cd": is_cd(s), "peer": is_peer(s), "segid": s.info_field.segment_id, "ts": s.info_field.timestamp,
            "hops": s.hop_fields.iter().map(|h| json!([h.cons_ingress, h.cons_egress, h.expiration_units, format!("{:02x?}", h.mac.as_bytes())])).collect::<Vec<_>>()
        })).collect::<Vec<_>>()
    })
}

pub fn encode_path(p: &StandardPath) -> Result<DpPath, String> {
    // make sure the model is encodable at all (a model the encoder rejects is reported by the caller)
    p.try_encode_to_vec().map_err(|e| format!("{e:?}"))?;
    Ok(p.clone().into())
}
