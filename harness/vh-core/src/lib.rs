//! Shared helpers for the /verif harness binaries: seeded RNG, panic capture, ndjson I/O.
use std::io::{BufRead, Write};

/// Deterministic RNG (splitmix64); all random choices in the harness derive from VERIF_SEED.
#[derive(Clone)]
pub struct Rng(pub u64);
impl Rng {
    pub fn new(seed: u64) -> Self {
        Rng(seed.wrapping_mul(0x9E37_79B9_7F4A_7C15).wrapping_add(0xD1B5_4A32_D192_ED03))
    }
    pub fn from_env() -> Self {
        Self::new(seed_from_env())
    }
    pub fn next_u64(&mut self) -> u64 {
        self.0 = self.0.wrapping_add(0x9E37_79B9_7F4A_7C15);
        let mut z = self.0;
        z = (z ^ (z >> 30)).wrapping_mul(0xBF58_476D_1CE4_E5B9);
        z = (z ^ (z >> 27)).wrapping_mul(0x94D0_49BB_1331_11EB);
        z ^ (z >> 31)
    }
    /// uniform in 0..n (n > 0)
    pub fn below(&mut self, n: u64) -> u64 {
        self.next_u64() % n
    }
    pub fn range(&mut self, lo: u64, hi_incl: u64) -> u64 {
        lo + self.below(hi_incl - lo + 1)
    }
    pub fn chance(&mut self, num: u64, den: u64) -> bool {
        self.below(den) < num
    }
    pub fn pick<'a, T>(&mut self, xs: &'a [T]) -> &'a T {
        &xs[self.below(xs.len() as u64) as usize]
    }
    pub fn shuffle<T>(&mut self, xs: &mut [T]) {
        for i in (1..xs.len()).rev() {
            let j = self.below(i as u64 + 1) as usize;
            xs.swap(i, j);
        }
    }
    pub fn bytes(&mut self, n: usize) -> Vec<u8> {
        let mut v = Vec::with_capacity(n);
        while v.len() < n {
            let x = self.next_u64().to_le_bytes();
            let k = (n - v.len()).min(8);
            v.extend_from_slice(&x[..k]);
        }
        v
    }
}

pub fn seed_from_env() -> u64 {
    std::env::var("VERIF_SEED").ok().and_then(|s| s.parse().ok()).unwrap_or(1)
}

pub fn tier_is_thorough() -> bool {
    std::env::var("VERIF_TIER").map(|t| t == "thorough").unwrap_or(false)
}

/// Run `f`, turning a panic of the code under test into data (DESIGN.md S1).
pub fn catch<R>(f: impl FnOnce() -> R) -> Result<R, String> {
    let r = std::panic::catch_unwind(std::panic::AssertUnwindSafe(f));
    r.map_err(|e| {
        if let Some(s) = e.downcast_ref::<&str>() {
            s.to_string()
        } else if let Some(s) = e.downcast_ref::<String>() {
            s.clone()
        } else {
            "panic".to_string()
        }
    })
}

/// Silence the default panic hook (panics are captured by `catch` and reported as data).
pub fn quiet_panics() {
    std::panic::set_hook(Box::new(|_| {}));
}

pub fn read_ndjson(path: &str) -> Vec<serde_json::Value> {
    let f = std::fs::File::open(path).unwrap_or_else(|e| {
        eprintln!("cannot open {path}: {e}");
        std::process::exit(2)
    });
    std::io::BufReader::new(f)
        .lines()
        .map(|l| l.expect("read"))
        .filter(|l| !l.trim().is_empty())
        .map(|l| serde_json::from_str(&l).unwrap_or_else(|e| {
            eprintln!("bad json line: {e}: {l}");
            std::process::exit(2)
        }))
        .collect()
}

pub struct NdjsonWriter(std::io::BufWriter<std::fs::File>);
impl NdjsonWriter {
    pub fn create(path: &str) -> Self {
        NdjsonWriter(std::io::BufWriter::new(std::fs::File::create(path).unwrap_or_else(|e| {
            eprintln!("cannot create {path}: {e}");
            std::process::exit(2)
        })))
    }
    pub fn write(&mut self, v: &serde_json::Value) {
        serde_json::to_writer(&mut self.0, v).expect("write");
        self.0.write_all(b"\n").expect("write");
    }
    pub fn finish(mut self) {
        self.0.flush().expect("flush");
    }
}
