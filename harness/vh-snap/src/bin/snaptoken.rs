//! C10 harness: SNAP token verification.
//!
//! `replay <cells.ndjson> <out.ndjson>`: every line is a cell of the TLA+ decision table
//!   (spec/Snap/SnapToken.tla): an abstract feature record.  It is concretised into one or more
//!   real JWT strings (hand-assembled base64url segments, real Ed25519 keys and signatures) and
//!   given to the real `SnapTokenVerifier::verify` and to the real control-plane router
//!   (`build_router`: auth middleware + RegisterSnapTunIdentity handler with a recording registry).
//! `record <events.ndjson> <summary.json>`: seeded random strings / mutated tokens / random claim
//!   sets are given to the verifier; the feature record of every string is extracted by this
//!   file's own splitter/decoder/signature check (independent of jsonwebtoken) and written next to
//!   the observed verdict, for validation by Trace_SnapToken.tla.
use std::{
    net::SocketAddr,
    sync::{Arc, Mutex},
    time::{Duration, Instant, SystemTime, UNIX_EPOCH},
};

use axum::{Json, Router, body::Body, extract::ConnectInfo, routing::get};
use base64::Engine;
use base64::engine::general_purpose::{STANDARD_NO_PAD, URL_SAFE_NO_PAD};
use ed25519_dalek::{Signer, SigningKey, Verifier, pkcs8::EncodePublicKey};
use jsonwebtoken::DecodingKey;
use prost::Message;
use serde_json::{Value, json};
use snap_control::{
    api::crpc::model::{SnapDataPlane, SnapDataPlaneResolver, SnapTunIdentityRegistry},
    model::{SnapUnderlay, UdpUnderlay, UnderlayDiscovery},
    proto::anapaya::snap::v1::RegisterSnapTunIdentityRequest,
    server::{
        SnapTokenVerifier, build_router, jwks_key_store::JwksKeyStore, metrics::Metrics,
        token_verifier::SnapTokenVerifyError,
    },
};
use tokio_util::sync::CancellationToken;
use tower::ServiceExt;
use vh_core::{NdjsonWriter, Rng, catch, read_ndjson};

const KID_KNOWN: &str = "k~~~known";
const KID_UNKNOWN: &str = "k~~~unknown";
const UUID: &str = "123e4567-e89b-12d3-a456-426614174000";

// ------------------------------------------------------------------------------------------
// environment: keys, verifiers, router with recording registry
// ------------------------------------------------------------------------------------------

struct Keys {
    stat: SigningKey,
    jwks: SigningKey,
    other: SigningKey,
}

#[derive(Default)]
struct RecReg {
    calls: Mutex<Vec<(String, Duration)>>,
}
impl SnapTunIdentityRegistry for RecReg {
    fn register(
        &self,
        _now: Instant,
        key: &str,
        _id: [u8; 32],
        _psk: Option<[u8; 32]>,
        lifetime: Duration,
        _claims: &snap_tokens::AnyClaims,
    ) -> anyhow::Result<bool> {
        self.calls.lock().unwrap().push((key.to_string(), lifetime));
        Ok(true)
    }
    fn remove_expired(&self, _now: Instant) {}
}

struct NoUnderlays;
impl UnderlayDiscovery for NoUnderlays {
    fn list_snap_underlays(&self) -> Vec<SnapUnderlay> {
        vec![]
    }
    fn list_udp_underlays(&self) -> Vec<UdpUnderlay> {
        vec![]
    }
}
struct NoSegments;
#[async_trait::async_trait]
impl endhost_api_models::SegmentsDiscovery for NoSegments {
    async fn list_segments(
        &self,
        _src: sciparse::identifier::isd_asn::IsdAsn,
        _dst: sciparse::identifier::isd_asn::IsdAsn,
        _page_size: i32,
        _page_token: String,
    ) -> Result<sciparse::segment::SegmentsPage, endhost_api_models::SegmentsError> {
        Err(endhost_api_models::SegmentsError::InternalError("none".into()))
    }
}
struct NoResolver;
impl SnapDataPlaneResolver for NoResolver {
    fn get_data_plane_address(
        &self,
        _ip: std::net::IpAddr,
    ) -> Result<SnapDataPlane, (axum::http::StatusCode, anyhow::Error)> {
        Err((axum::http::StatusCode::NOT_FOUND, anyhow::anyhow!("none")))
    }
}

struct Env {
    keys: Keys,
    v_static: SnapTokenVerifier,
    v_jwks: SnapTokenVerifier,
    r_static: Router,
    r_jwks: Router,
    reg: Arc<RecReg>,
}

fn decoding_key(sk: &SigningKey) -> DecodingKey {
    let pem = sk.verifying_key().to_public_key_pem(Default::default()).expect("pem");
    DecodingKey::from_ed_pem(pem.as_bytes()).expect("decoding key")
}

async fn make_env() -> Env {
    scion_sdk_utils::rustls::select_ring_crypto_provider(); // as the real binaries do at start-up (reqwest in JwksKeyStore)
    let keys = Keys {
        stat: SigningKey::from_bytes(&[0x51; 32]),
        jwks: SigningKey::from_bytes(&[0x52; 32]),
        other: SigningKey::from_bytes(&[0x53; 32]),
    };
    // JWKS endpoint on loopback, as the repository's own tests do
    let x = URL_SAFE_NO_PAD.encode(keys.jwks.verifying_key().as_bytes());
    let jwks = json!({"keys": [{"kid": KID_KNOWN, "kty": "OKP", "use": "sig", "alg": "EdDSA", "crv": "Ed25519", "x": x}]});
    let listener = tokio::net::TcpListener::bind("127.0.0.1:0").await.expect("bind");
    let addr = listener.local_addr().unwrap();
    let app = Router::new().route(
        "/.well-known/jwks.json",
        get(move || {
            let jwks = jwks.clone();
            async move { Json(jwks) }
        }),
    );
    tokio::spawn(async move { axum::serve(listener, app).await.unwrap() });
    let url = format!("http://{addr}/.well-known/jwks.json").parse().unwrap();
    let store = Arc::new(JwksKeyStore::new(url, Duration::from_secs(36000), CancellationToken::new()));
    let v_static = SnapTokenVerifier::new(decoding_key(&keys.stat));
    let v_jwks = SnapTokenVerifier::new(decoding_key(&keys.stat)).with_jwks_store(store.clone());
    // warm the store (not required: verify() fetches on demand); a store that cannot resolve the key is
    // an observation about the code under test (kid-bearing tokens will be refused), not a tool failure
    if tokio::time::timeout(Duration::from_secs(60), store.await_key(KID_KNOWN)).await.ok().flatten().is_none() {
        eprintln!("note: JWKS key could not be resolved through the JwksKeyStore over loopback");
    }
    let reg = Arc::new(RecReg::default());
    let mk = |v: &SnapTokenVerifier| {
        build_router(
            NoUnderlays,
            "http://127.0.0.1:1/".parse().unwrap(),
            NoSegments,
            NoResolver,
            reg.clone(),
            None,
            v.clone(),
            Metrics::new(&scion_sdk_observability::metrics::registry::MetricsRegistry::new()),
        )
        .expect("router")
    };
    let r_static = mk(&v_static);
    let r_jwks = mk(&v_jwks);
    Env { keys, v_static, v_jwks, r_static, r_jwks, reg }
}

fn now_secs() -> i64 {
    SystemTime::now().duration_since(UNIX_EPOCH).unwrap().as_secs() as i64
}

fn outcome_name(r: &Result<snap_tokens::AnyClaims, SnapTokenVerifyError>) -> &'static str {
    match r {
        Ok(_) => "ok",
        Err(SnapTokenVerifyError::HeaderDecodeError(_)) => "HeaderDecodeError",
        Err(SnapTokenVerifyError::UnknownKid(_)) => "UnknownKid",
        Err(SnapTokenVerifyError::VerificationFailed(_)) => "VerificationFailed",
    }
}

/// One concrete call: verifier + router.  Returns JSON with the observations.
async fn observe(env: &Env, cfg: &str, token: &str, exp_abs: Option<i64>) -> Value {
    let verifier = if cfg == "jwks" { &env.v_jwks } else { &env.v_static };
    let got = match tokio::task::spawn({
        let v = verifier.clone();
        let t = token.to_string();
        async move {
            let r = v.verify(&t).await;
            (outcome_name(&r).to_string(), r.err().map(|e| e.to_string()))
        }
    })
    .await
    {
        Ok(x) => x,
        Err(e) => ("panic".to_string(), Some(format!("{e}"))),
    };
    // the real router: auth middleware -> RegisterSnapTunIdentity handler -> recording registry
    let mut http = json!(null);
    let mut reg = json!(null);
    if let Ok(hv) = axum::http::HeaderValue::from_str(&format!("Bearer {token}")) {
        let body = RegisterSnapTunIdentityRequest { initiator_static_x25519: vec![9u8; 32], psk_share: vec![0u8; 32] }
            .encode_to_vec();
        let mut req = axum::http::Request::builder()
            .method("POST")
            .uri("/anapaya.snap.v1.SnapControl/RegisterSnapTunIdentity")
            .header("content-type", "application/proto")
            .header("authorization", hv)
            .body(Body::from(body))
            .unwrap();
        req.extensions_mut().insert(ConnectInfo(SocketAddr::from(([127, 0, 0, 1], 4242))));
        let router = if cfg == "jwks" { env.r_jwks.clone() } else { env.r_static.clone() };
        env.reg.calls.lock().unwrap().clear();
        let before = SystemTime::now();
        let resp = tokio::task::spawn(async move { router.oneshot(req).await }).await;
        match resp {
            Ok(Ok(r)) => http = json!(r.status().as_u16()),
            Ok(Err(_)) => http = json!("error"),
            Err(_) => http = json!("panic"),
        }
        let calls = env.reg.calls.lock().unwrap().clone();
        if !calls.is_empty() {
            let before_s = before.duration_since(UNIX_EPOCH).unwrap().as_secs_f64();
            let (k, life) = &calls[0];
            reg = json!({"n": calls.len(), "key": k, "life": life.as_secs_f64(),
                          "bound": exp_abs.map(|e| e as f64 - before_s)});
        }
    }
    json!({"got": got.0, "err": got.1, "http": http, "reg": reg})
}

/// The router's answer to a request whose Authorization header is `authz` (None: no header at all).
async fn router_status(env: &Env, cfg: &str, authz: Option<String>) -> Value {
    let body = RegisterSnapTunIdentityRequest { initiator_static_x25519: vec![9u8; 32], psk_share: vec![0u8; 32] }.encode_to_vec();
    let mut b = axum::http::Request::builder()
        .method("POST")
        .uri("/anapaya.snap.v1.SnapControl/RegisterSnapTunIdentity")
        .header("content-type", "application/proto");
    if let Some(a) = authz {
        let Ok(hv) = axum::http::HeaderValue::from_str(&a) else { return Value::Null };
        b = b.header("authorization", hv);
    }
    let mut req = b.body(Body::from(body)).unwrap();
    req.extensions_mut().insert(ConnectInfo(SocketAddr::from(([127, 0, 0, 1], 4242))));
    let router = if cfg == "jwks" { env.r_jwks.clone() } else { env.r_static.clone() };
    env.reg.calls.lock().unwrap().clear();
    let resp = tokio::task::spawn(async move { router.oneshot(req).await }).await;
    let status = match resp {
        Ok(Ok(r)) => json!(r.status().as_u16()),
        Ok(Err(_)) => json!("error"),
        Err(_) => json!("panic"),
    };
    json!({"status": status, "registered": !env.reg.calls.lock().unwrap().is_empty()})
}

// ------------------------------------------------------------------------------------------
// concretisation of a feature record
// ------------------------------------------------------------------------------------------

fn f<'a>(case: &'a Value, k: &str) -> &'a str {
    case.get(k).and_then(|v| v.as_str()).unwrap_or_else(|| {
        eprintln!("cell without field {k}: {case}");
        std::process::exit(2)
    })
}

struct Offsets {
    exp: Value,
    nbf: Value,
}

fn v1_pssid(first: u8, n: usize) -> String {
    let u = uuid::Uuid::parse_str(UUID).unwrap();
    let mut b = vec![first];
    b.extend_from_slice(&u.as_bytes()[..n]);
    URL_SAFE_NO_PAD.encode(b)
}

/// JSON text of the header for a feature record (pad = number of trailing spaces).
fn header_text(case: &Value, pad: usize) -> String {
    let mut m: Vec<(String, String)> = vec![];
    match f(case, "typ") {
        "JWT" => m.push(("typ".into(), "\"JWT\"".into())),
        "other" => m.push(("typ".into(), "\"at+jwt\"".into())),
        "num" => m.push(("typ".into(), "7".into())),
        _ => {}
    }
    match f(case, "alg") {
        "absent" => {}
        "lower" => m.push(("alg".into(), "\"eddsa\"".into())),
        "num" => m.push(("alg".into(), "5".into())),
        "other" => m.push(("alg".into(), "\"XS999\"".into())),
        a => m.push(("alg".into(), format!("\"{a}\""))),
    }
    match f(case, "kid") {
        "known" => m.push(("kid".into(), format!("\"{KID_KNOWN}\""))),
        "unknown" => m.push(("kid".into(), format!("\"{KID_UNKNOWN}\""))),
        "num" => m.push(("kid".into(), "5".into())),
        _ => {}
    }
    match f(case, "hextra") {
        "str" => m.push(("x-extra".into(), "\"v~~~\"".into())),
        "num" => m.push(("x-extra".into(), "1".into())),
        _ => {}
    }
    let body = match f(case, "hjson") {
        "obj" => format!("{{{}}}", m.iter().map(|(k, v)| format!("\"{k}\":{v}")).collect::<Vec<_>>().join(",")),
        "array" => format!("[{}]", m.iter().map(|(_, v)| v.clone()).collect::<Vec<_>>().join(",")),
        _ => format!("{{{}", m.iter().map(|(k, v)| format!("\"{k}\":{v}")).collect::<Vec<_>>().join(",")),
    };
    format!("{body}{}", " ".repeat(pad))
}

/// JSON text of the claims; returns (text, absolute exp if numeric integer)
fn payload_text(case: &Value, off: &Offsets, now: i64, nonce: u64, pad: usize) -> (String, Option<i64>) {
    let mut m: Vec<(String, String)> = vec![];
    let mut exp_abs = None;
    match f(case, "ver") {
        "absent" => {}
        "1" => m.push(("ver".into(), "1".into())),
        "2" => m.push(("ver".into(), "2".into())),
        "0" => m.push(("ver".into(), "0".into())),
        "str" => m.push(("ver".into(), "\"1\"".into())),
        "str2" => m.push(("ver".into(), "\"2\"".into())),
        "null" => m.push(("ver".into(), "null".into())),
        "bool" => m.push(("ver".into(), "true".into())),
        "float" => m.push(("ver".into(), "1.5".into())),
        "arr" => m.push(("ver".into(), "[1]".into())),
        "obj" => m.push(("ver".into(), "{}".into())),
        _ => m.push(("ver".into(), "-1".into())),
    }
    match f(case, "iss") {
        "ssr" => m.push(("iss".into(), "\"ssr\"".into())),
        "other" => m.push(("iss".into(), "\"someone-else\"".into())),
        "num" => m.push(("iss".into(), "3".into())),
        _ => {}
    }
    match f(case, "aud") {
        "snap" => m.push(("aud".into(), "\"snap\"".into())),
        "other" => m.push(("aud".into(), "\"not-snap\"".into())),
        "arr_snap" => m.push(("aud".into(), "[\"snap\",\"x\"]".into())),
        "arr_other" => m.push(("aud".into(), "[\"x\",\"y\"]".into())),
        "arr_empty" => m.push(("aud".into(), "[]".into())),
        "num" => m.push(("aud".into(), "5".into())),
        _ => {}
    }
    let timeval = |name: &str, table: &Value, cls: &str| -> Option<(String, Option<i64>)> {
        match cls {
            "absent" => None,
            "str" => Some((format!("\"{}\"", now + 3600), None)),
            "null" => Some(("null".into(), None)),
            "ok" => Some((format!("{}", now - 60), None)),
            c => {
                let o = table.get(c).and_then(|v| v.as_i64()).unwrap_or_else(|| {
                    eprintln!("no offset for {name} class {c}");
                    std::process::exit(2)
                });
                if c == "float" {
                    Some((format!("{}.5", now + o), None))
                } else if c == "neg" {
                    Some((format!("{o}"), None))
                } else {
                    Some((format!("{}", now + o), Some(now + o)))
                }
            }
        }
    };
    if let Some((t, a)) = timeval("exp", &off.exp, f(case, "exp")) {
        m.push(("exp".into(), t));
        exp_abs = a;
    }
    if let Some((t, _)) = timeval("nbf", &off.nbf, f(case, "nbf")) {
        m.push(("nbf".into(), t));
    }
    if let Some((t, _)) = timeval("iat", &Value::Null, f(case, "iat")) {
        m.push(("iat".into(), t));
    }
    match f(case, "jti") {
        "ok" => m.push(("jti".into(), format!("\"jti~~~{nonce}\""))),
        "num" => m.push(("jti".into(), "17".into())),
        _ => {}
    }
    match f(case, "pssid") {
        "v0" => m.push(("pssid".into(), format!("\"{UUID}\""))),
        "v1" => m.push(("pssid".into(), format!("\"{}\"", v1_pssid(0, 16)))),
        "badstr" => m.push(("pssid".into(), "\"not-a-pssid\"".into())),
        "num" => m.push(("pssid".into(), "12345".into())),
        "null" => m.push(("pssid".into(), "null".into())),
        "v1ver1" => m.push(("pssid".into(), format!("\"{}\"", v1_pssid(1, 16)))),
        "v1len16" => m.push(("pssid".into(), format!("\"{}\"", v1_pssid(0, 15)))),
        _ => {}
    }
    match f(case, "pextra") {
        "str" => m.push(("aa_acc_subject_id".into(), format!("\"subj~~~{nonce}\""))),
        "obj" => m.push(("x_obj".into(), format!("{{\"a\":[1,2,\"~~~{nonce}\"]}}"))),
        _ => {}
    }
    let body = match f(case, "pjson") {
        "obj" => format!("{{{}}}", m.iter().map(|(k, v)| format!("\"{k}\":{v}")).collect::<Vec<_>>().join(",")),
        "array" => format!("[{}]", m.iter().map(|(_, v)| v.clone()).collect::<Vec<_>>().join(",")),
        _ => format!("{{{}", m.iter().map(|(k, v)| format!("\"{k}\":{v}")).collect::<Vec<_>>().join(",")),
    };
    (format!("{body}{}", " ".repeat(pad)), exp_abs)
}

/// Encode `bytes` in the requested base64 variant. None = the variant cannot be realised for these bytes.
fn encode_variant(bytes: &[u8], variant: &str, k: usize) -> Option<String> {
    let canon = URL_SAFE_NO_PAD.encode(bytes);
    match variant {
        "ok" => Some(canon),
        "padded" => {
            if bytes.len() % 3 == 0 {
                return None;
            }
            Some(base64::engine::general_purpose::URL_SAFE.encode(bytes))
        }
        "std" => {
            let s = STANDARD_NO_PAD.encode(bytes);
            if s == canon { None } else { Some(s) }
        }
        "garbage" => {
            let mut s = canon.clone();
            let bad = ['!', '*', '$', '%', '~'][k % 5];
            if s.is_empty() || k % 2 == 0 {
                s.push(bad);
            } else {
                let i = s.len() / 2;
                s.replace_range(i..i + 1, &bad.to_string());
            }
            Some(s)
        }
        "trail" => {
            if bytes.len() % 3 == 0 {
                return None;
            }
            // set a non-zero unused low bit in the last sextet
            let alphabet = b"ABCDEFGHIJKLMNOPQRSTUVWXYZabcdefghijklmnopqrstuvwxyz0123456789-_";
            let mut s = canon.into_bytes();
            let last = *s.last().unwrap();
            let idx = alphabet.iter().position(|c| *c == last).unwrap();
            s.pop();
            s.push(alphabet[idx | 1]);
            let s = String::from_utf8(s).unwrap();
            if URL_SAFE_NO_PAD.encode(bytes) == s { None } else { Some(s) }
        }
        _ => None,
    }
}

fn needs_pad(variant: &str) -> bool {
    variant == "padded" || variant == "trail"
}

fn designated<'a>(case: &Value, keys: &'a Keys) -> Option<&'a SigningKey> {
    match (f(case, "cfg"), f(case, "kid")) {
        (_, "absent") | ("static", _) => Some(&keys.stat),
        ("jwks", "known") => Some(&keys.jwks),
        _ => None,
    }
}

/// Build the k-th concrete token of a cell.  None: this variant cannot be realised.
fn concretise(case: &Value, off: &Offsets, keys: &Keys, now: i64, nonce: u64, k: usize) -> Option<(String, Option<i64>)> {
    let (hv, pv, sv) = (f(case, "hb64"), f(case, "pb64"), f(case, "sb64"));
    // header / payload segments; retry paddings so that the variant is effective
    let mut hseg = None;
    for pad in 0..3 {
        let t = header_text(case, pad);
        if needs_pad(hv) && t.len() % 3 == 0 {
            continue;
        }
        if let Some(s) = encode_variant(t.as_bytes(), hv, k) {
            hseg = Some(s);
            break;
        }
    }
    let hseg = hseg?;
    let mut found = None;
    'outer: for attempt in 0..40u64 {
        for pad in 0..3 {
            let (t, exp_abs) = payload_text(case, off, now, nonce * 100 + attempt, pad);
            if needs_pad(pv) && t.len() % 3 == 0 {
                continue;
            }
            let Some(pseg) = encode_variant(t.as_bytes(), pv, k) else { continue };
            let msg = format!("{hseg}.{pseg}");
            let dkey = designated(case, keys).unwrap_or(&keys.stat);
            let sig: Vec<u8> = match f(case, "sig") {
                "static" => keys.stat.sign(msg.as_bytes()).to_bytes().to_vec(),
                "jwks" => keys.jwks.sign(msg.as_bytes()).to_bytes().to_vec(),
                "other" => keys.other.sign(msg.as_bytes()).to_bytes().to_vec(),
                "flip" => {
                    let mut s = dkey.sign(msg.as_bytes()).to_bytes().to_vec();
                    let positions = [(0usize, 0u8), (31, 7), (32, 0), (63, 7), (17, 3), (47, 5)];
                    let (i, b) = positions[k % positions.len()];
                    s[i] ^= 1 << b;
                    s
                }
                "splice" => {
                    // signature of another valid token (same header, different claims) by the right key
                    let (t2, _) = payload_text(case, off, now, nonce * 100 + attempt + 7777, pad);
                    let other_msg = format!("{hseg}.{}", URL_SAFE_NO_PAD.encode(t2.as_bytes()));
                    if other_msg == msg {
                        dkey.sign(format!("{msg}x").as_bytes()).to_bytes().to_vec()
                    } else {
                        dkey.sign(other_msg.as_bytes()).to_bytes().to_vec()
                    }
                }
                "empty" => vec![],
                "hmacpub" => {
                    // algorithm confusion: HMAC-SHA256 keyed with the (public) verification key
                    let pk = dkey.verifying_key();
                    let secret: Vec<u8> = if k % 2 == 0 {
                        pk.as_bytes().to_vec()
                    } else {
                        pk.to_public_key_pem(Default::default()).unwrap().into_bytes()
                    };
                    let s = jsonwebtoken::crypto::sign(msg.as_bytes(), &jsonwebtoken::EncodingKey::from_secret(&secret), jsonwebtoken::Algorithm::HS256)
                        .expect("hmac");
                    URL_SAFE_NO_PAD.decode(s).expect("b64")
                }
                x => {
                    eprintln!("unknown sig class {x}");
                    std::process::exit(2)
                }
            };
            if sig.is_empty() && sv != "ok" && sv != "garbage" {
                return None;
            }
            let Some(sseg) = encode_variant(&sig, sv, k) else { continue 'outer };
            found = Some((hseg.clone(), pseg, sseg, exp_abs));
            break 'outer;
        }
    }
    let (h, p, s, exp_abs) = found?;
    let tok = match f(case, "parts") {
        "3" => format!("{h}.{p}.{s}"),
        "0" => String::new(),
        "1" => match k % 2 { 0 => format!("{h}{p}{s}"), _ => h.clone() },
        "2" => match k % 2 { 0 => format!("{h}.{p}"), _ => format!("{p}.{s}") },
        _ => match k % 3 { 0 => format!("{h}.{p}.{s}.{s}"), 1 => format!("{h}.{p}.{s}."), _ => format!(".{h}.{p}.{s}") },
    };
    Some((tok, exp_abs))
}

fn variants_of(case: &Value) -> usize {
    let mut n = 1;
    if f(case, "sig") == "flip" {
        n = n.max(6);
    }
    if f(case, "sig") == "hmacpub" {
        n = n.max(2);
    }
    for k in ["hb64", "pb64", "sb64"] {
        if f(case, k) == "garbage" {
            n = n.max(4);
        }
    }
    match f(case, "parts") {
        "1" | "2" => n = n.max(2),
        "4" => n = n.max(3),
        _ => {}
    }
    n
}

async fn replay(inp: &str, outp: &str) {
    let env = make_env().await;
    let rows = read_ndjson(inp);
    let mut w = NdjsonWriter::create(outp);
    let mut off = Offsets { exp: Value::Null, nbf: Value::Null };
    let mut nonce = 0u64;
    for row in rows {
        if row.get("ev").and_then(|v| v.as_str()) == Some("meta") {
            off.exp = row["expoff"].clone();
            off.nbf = row["nbfoff"].clone();
            continue;
        }
        let case = &row["case"];
        let cfg = f(case, "cfg").to_string();
        let mut obs = vec![];
        let mut unreal = 0;
        for k in 0..variants_of(case) {
            nonce += 1;
            let now = now_secs();
            let c = catch(|| concretise(case, &off, &env.keys, now, nonce, k));
            let c = match c {
                Ok(c) => c,
                Err(e) => {
                    eprintln!("harness bug while concretising {case}: {e}");
                    std::process::exit(2)
                }
            };
            match c {
                None => unreal += 1,
                Some((tok, exp_abs)) => {
                    let mut o = observe(&env, &cfg, &tok, exp_abs).await;
                    // seconds between building the token and the end of the observation (a stalled machine
                    // moves the time classes; the check does not judge time-sensitive cells then)
                    o["stall_s"] = json!(now_secs() - now);
                    if row["must"] == "accept" && k == 0 {
                        // a valid token presented in any other way than as a Bearer credential
                        o["hdrvars"] = json!({
                            "none": router_status(&env, &cfg, None).await,
                            "basic": router_status(&env, &cfg, Some(format!("Basic {tok}"))).await,
                            "bare": router_status(&env, &cfg, Some(tok.clone())).await,
                            "lower": router_status(&env, &cfg, Some(format!("bearer {tok}"))).await,
                            "twice": router_status(&env, &cfg, Some(format!("Bearer Bearer {tok}"))).await,
                        });
                    }
                    o["token"] = json!(tok);
                    obs.push(o);
                }
            }
        }
        w.write(&json!({"obs": obs, "unreal": unreal}));
    }
    w.finish();
}

// ------------------------------------------------------------------------------------------
// record: random strings -> independent feature extraction
// ------------------------------------------------------------------------------------------

const B64URL: &[u8] = b"ABCDEFGHIJKLMNOPQRSTUVWXYZabcdefghijklmnopqrstuvwxyz0123456789-_";

/// Independent base64 classification + decoding of one segment.
fn seg_class(s: &str) -> (&'static str, Option<Vec<u8>>) {
    let val = |c: u8| -> Option<u32> {
        match c {
            b'A'..=b'Z' => Some((c - b'A') as u32),
            b'a'..=b'z' => Some((c - b'a') as u32 + 26),
            b'0'..=b'9' => Some((c - b'0') as u32 + 52),
            b'-' | b'+' => Some(62),
            b'_' | b'/' => Some(63),
            _ => None,
        }
    };
    let bytes = s.as_bytes();
    let stripped: &[u8] = {
        let mut e = bytes.len();
        while e > 0 && bytes[e - 1] == b'=' {
            e -= 1;
        }
        &bytes[..e]
    };
    let padded = stripped.len() != bytes.len();
    if stripped.iter().any(|c| val(*c).is_none()) || stripped.len() % 4 == 1 {
        return ("garbage", None);
    }
    let std = stripped.iter().any(|c| *c == b'+' || *c == b'/');
    let mut out = vec![];
    let mut acc = 0u32;
    let mut nbits = 0;
    for c in stripped {
        acc = (acc << 6) | val(*c).unwrap();
        nbits += 6;
        if nbits >= 8 {
            nbits -= 8;
            out.push((acc >> nbits) as u8);
            acc &= (1 << nbits) - 1;
        }
    }
    let trail = acc != 0;
    let cls = if std && stripped.iter().any(|c| *c == b'-' || *c == b'_') {
        "garbage" // mixed alphabets
    } else if padded {
        // any '=' makes it not unpadded base64url; a wrong amount of padding is garbage for everyone
        if (stripped.len() + (bytes.len() - stripped.len())) % 4 == 0 && !std && !trail { "padded" } else { "garbage" }
    } else if std {
        if trail { "garbage" } else { "std" }
    } else if trail {
        "trail"
    } else {
        "ok"
    };
    (cls, Some(out))
}

fn classify_off(o: i64, table: &[(&'static str, i64, i64)]) -> &'static str {
    for (name, lo, hi) in table {
        if o >= *lo && o <= *hi {
            return name;
        }
    }
    "unk"
}

/// Extract the abstract feature record of an arbitrary string (independent of jsonwebtoken).
fn extract(tok: &str, cfg: &str, keys: &Keys, now: i64) -> Value {
    let mut c = serde_json::Map::new();
    let mut set = |k: &str, v: &str| {
        c.insert(k.to_string(), json!(v));
    };
    set("cfg", cfg);
    let segs: Vec<&str> = if tok.is_empty() { vec![] } else { tok.split('.').collect() };
    let parts = match segs.len() {
        0 => "0",
        1 => "1",
        2 => "2",
        3 => "3",
        _ => "4",
    };
    set("parts", parts);
    // defaults for everything that cannot be determined
    for k in ["hb64", "pb64", "sb64", "hjson", "pjson", "alg", "typ", "kid", "hextra", "sig", "ver", "pssid", "exp", "nbf", "iat", "jti", "iss", "aud", "pextra"] {
        set(k, "unk");
    }
    if parts != "3" {
        return Value::Object(c);
    }
    let (hc, hbytes) = seg_class(segs[0]);
    let (pc, pbytes) = seg_class(segs[1]);
    let (sc, sbytes) = seg_class(segs[2]);
    set("hb64", hc);
    set("pb64", pc);
    set("sb64", sc);
    // header
    let mut kid_cls = "unk";
    if let Some(hb) = &hbytes {
        match serde_json::from_slice::<Value>(hb) {
            Ok(Value::Object(m)) => {
                set("hjson", "obj");
                let alg = match m.get("alg") {
                    None => "absent",
                    Some(Value::String(s)) => match s.as_str() {
                        "EdDSA" => "EdDSA",
                        "HS256" => "HS256",
                        "ES256" => "ES256",
                        "none" => "none",
                        "eddsa" => "lower",
                        "RS256" | "RS384" | "RS512" | "PS256" | "PS384" | "PS512" | "HS384" | "HS512" | "ES384" => "RS256",
                        _ => "other",
                    },
                    Some(Value::Number(_)) => "num",
                    _ => "unk",
                };
                set("alg", alg);
                let typ = match m.get("typ") {
                    None => "absent",
                    Some(Value::String(s)) if s == "JWT" => "JWT",
                    Some(Value::String(_)) => "other",
                    Some(Value::Number(_)) => "num",
                    _ => "unk",
                };
                set("typ", typ);
                kid_cls = match m.get("kid") {
                    None => "absent",
                    Some(Value::String(s)) if s == KID_KNOWN => "known",
                    Some(Value::String(_)) => "unknown",
                    Some(Value::Number(_)) => "num",
                    _ => "unk",
                };
                set("kid", kid_cls);
                let registered = ["typ", "alg", "kid", "cty", "jku", "jwk", "x5u", "x5c", "x5t", "x5t#S256", "crit", "enc", "zip", "url", "nonce"];
                let extras: Vec<&Value> = m.iter().filter(|(k, _)| !registered.contains(&k.as_str())).map(|(_, v)| v).collect();
                let other_registered = m.keys().any(|k| registered[3..].contains(&k.as_str()));
                let hextra = if other_registered {
                    "unk"
                } else if extras.is_empty() {
                    "none"
                } else if extras.iter().all(|v| v.is_string()) {
                    "str"
                } else if extras.iter().all(|v| v.is_number()) {
                    "num"
                } else {
                    "unk"
                };
                set("hextra", hextra);
            }
            Ok(Value::Array(_)) => set("hjson", "array"),
            Ok(_) => set("hjson", "unk"),
            Err(_) => set("hjson", "notjson"),
        }
    }
    // signature: who signed header.payload as transmitted?
    if let Some(sb) = &sbytes {
        let msg = format!("{}.{}", segs[0], segs[1]);
        let cls = if sb.is_empty() {
            "empty"
        } else if let Ok(sig) = ed25519_dalek::Signature::from_slice(sb) {
            if keys.stat.verifying_key().verify(msg.as_bytes(), &sig).is_ok() {
                "static"
            } else if keys.jwks.verifying_key().verify(msg.as_bytes(), &sig).is_ok() {
                "jwks"
            } else if keys.other.verifying_key().verify(msg.as_bytes(), &sig).is_ok() {
                "other"
            } else {
                "flip"
            }
        } else {
            "flip"
        };
        set("sig", cls);
    }
    let _ = kid_cls;
    // payload
    if let Some(pb) = &pbytes {
        match serde_json::from_slice::<Value>(pb) {
            Ok(Value::Object(m)) => {
                // duplicate member names are outside the abstract domain
                let dup = {
                    #[derive(serde::Deserialize)]
                    struct Pairs(#[serde(with = "pairs")] Vec<String>);
                    mod pairs {
                        use serde::de::{Deserializer, MapAccess, Visitor};
                        pub fn deserialize<'de, D: Deserializer<'de>>(d: D) -> Result<Vec<String>, D::Error> {
                            struct V;
                            impl<'de> Visitor<'de> for V {
                                type Value = Vec<String>;
                                fn expecting(&self, f: &mut std::fmt::Formatter) -> std::fmt::Result {
                                    f.write_str("map")
                                }
                                fn visit_map<A: MapAccess<'de>>(self, mut a: A) -> Result<Vec<String>, A::Error> {
                                    let mut v = vec![];
                                    while let Some((k, _)) = a.next_entry::<String, serde::de::IgnoredAny>()? {
                                        v.push(k);
                                    }
                                    Ok(v)
                                }
                            }
                            d.deserialize_map(V)
                        }
                    }
                    match serde_json::from_slice::<Pairs>(pb) {
                        Ok(Pairs(ks)) => {
                            let mut s = ks.clone();
                            s.sort();
                            s.dedup();
                            s.len() != ks.len()
                        }
                        Err(_) => true,
                    }
                };
                set("pjson", if dup { "unk" } else { "obj" });
                let int_of = |v: &Value| -> Option<i64> { if v.is_i64() || v.is_u64() { v.as_i64() } else { None } };
                let ver = match m.get("ver") {
                    None => "absent",
                    Some(Value::Null) => "null",
                    Some(Value::String(x)) if x == "1" => "str",
                    Some(Value::String(_)) => "str2",
                    Some(Value::Bool(_)) => "bool",
                    Some(Value::Array(_)) => "arr",
                    Some(Value::Object(_)) => "obj",
                    Some(v) if v.is_u64() => match v.as_u64() {
                        Some(1) => "1",
                        Some(0) => "0",
                        Some(2) => "2",
                        _ => "2", // any other non-negative integer is an unknown version
                    },
                    Some(v) if v.is_i64() => "neg",
                    Some(v) if v.is_f64() => {
                        // 1.0 is numerically the supported version: outside the abstract domain (latitude)
                        if v.as_f64() == Some(1.0) { "unk" } else { "float" }
                    }
                    _ => "unk",
                };
                set("ver", ver);
                let pssid = match m.get("pssid") {
                    None => "absent",
                    Some(Value::Null) => "null",
                    Some(Value::Number(_)) => "num",
                    Some(Value::String(s)) => {
                        let hy = s.len() == 36
                            && s.char_indices().all(|(i, ch)| if [8, 13, 18, 23].contains(&i) { ch == '-' } else { ch.is_ascii_hexdigit() });
                        if hy {
                            "v0"
                        } else {
                            match seg_class(s) {
                                ("ok", Some(b)) if b.len() == 17 && b[0] == 0 => "v1",
                                ("ok", Some(b)) if b.len() == 17 => "v1ver1",
                                ("ok", Some(b)) if b.len() == 16 && b[0] == 0 => "v1len16",
                                _ => {
                                    // other spellings a UUID parser might accept are outside the domain
                                    if s.len() == 32 || s.starts_with("urn:") || s.starts_with('{') { "unk" } else { "badstr" }
                                }
                            }
                        }
                    }
                    _ => "unk",
                };
                set("pssid", pssid);
                let exp = match m.get("exp") {
                    None => "absent",
                    Some(Value::Null) => "null",
                    Some(Value::String(_)) => "str",
                    Some(v) if v.is_f64() => "unk",
                    Some(v) => match int_of(v) {
                        Some(e) if e < 0 => "neg",
                        Some(e) => classify_off(e - now, &[("fut", 15, i64::MAX / 4), ("lee", -45, -15), ("gone", -1_000_000_000, -75)]),
                        None => "unk",
                    },
                };
                set("exp", exp);
                let nbf = match m.get("nbf") {
                    None => "absent",
                    Some(Value::Null) => "null",
                    Some(Value::String(_)) => "str",
                    Some(v) if v.is_f64() => "unk",
                    Some(v) => match int_of(v) {
                        Some(e) if e >= 0 => classify_off(e - now, &[("past", -i64::MAX / 4, -15), ("lee", 15, 45), ("far", 75, i64::MAX / 4)]),
                        _ => "unk",
                    },
                };
                set("nbf", nbf);
                let iat = match m.get("iat") {
                    None => "absent",
                    Some(Value::String(_)) => "str",
                    Some(v) if v.is_u64() => "ok",
                    _ => "unk",
                };
                set("iat", iat);
                let jti = match m.get("jti") {
                    None => "absent",
                    Some(Value::String(_)) => "ok",
                    Some(Value::Number(_)) => "num",
                    _ => "unk",
                };
                set("jti", jti);
                let iss = match m.get("iss") {
                    None => "absent",
                    Some(Value::String(s)) if s == "ssr" => "ssr",
                    Some(Value::String(_)) => "other",
                    Some(Value::Number(_)) => "num",
                    _ => "unk",
                };
                set("iss", iss);
                let aud = match m.get("aud") {
                    None => "absent",
                    Some(Value::String(s)) if s == "snap" => "snap",
                    Some(Value::String(_)) => "other",
                    Some(Value::Number(_)) => "num",
                    Some(Value::Array(a)) if a.is_empty() => "arr_empty",
                    Some(Value::Array(a)) if a.iter().all(|x| x.is_string()) => {
                        if a.iter().any(|x| x == "snap") { "arr_snap" } else { "arr_other" }
                    }
                    _ => "unk",
                };
                set("aud", aud);
                let known = ["ver", "iss", "aud", "exp", "nbf", "iat", "jti", "pssid", "sub"];
                let extras: Vec<&Value> = m.iter().filter(|(k, _)| !known.contains(&k.as_str())).map(|(_, v)| v).collect();
                let pextra = if m.contains_key("sub") {
                    "unk"
                } else if extras.is_empty() {
                    "none"
                } else if extras.iter().all(|v| v.is_string()) {
                    "str"
                } else {
                    "obj"
                };
                set("pextra", pextra);
            }
            Ok(Value::Array(_)) => set("pjson", "array"),
            Ok(_) => set("pjson", "unk"),
            Err(_) => set("pjson", "notjson"),
        }
    }
    Value::Object(c)
}

fn b64(b: &[u8]) -> String {
    URL_SAFE_NO_PAD.encode(b)
}

/// a random claim set / header, signed by a random key
fn random_token(rng: &mut Rng, keys: &Keys, now: i64) -> String {
    let pick_off = |rng: &mut Rng, zones: &[(i64, i64)]| -> i64 {
        let (lo, hi) = zones[rng.below(zones.len() as u64) as usize];
        lo + rng.below((hi - lo + 1) as u64) as i64
    };
    let mut h = serde_json::Map::new();
    if rng.chance(9, 10) {
        h.insert("alg".into(), json!(*rng.pick(&["EdDSA", "EdDSA", "EdDSA", "EdDSA", "HS256", "ES256", "none", "eddsa"])));
    }
    if rng.chance(2, 3) {
        h.insert("typ".into(), json!(*rng.pick(&["JWT", "JWT", "jwt", "at+jwt"])));
    }
    if rng.chance(1, 2) {
        h.insert("kid".into(), json!(*rng.pick(&[KID_KNOWN, KID_KNOWN, KID_UNKNOWN, "", "k"])));
    }
    if rng.chance(1, 8) {
        h.insert("x-extra".into(), if rng.chance(1, 2) { json!("v") } else { json!(1) });
    }
    let mut p = serde_json::Map::new();
    let v1 = rng.chance(1, 2);
    let odd_vers = [json!(2), json!(0), json!("1"), json!("2"), json!(3), json!(1.5), json!(1.0), json!(-1), Value::Null, json!(true), json!([1]), json!({})];
    if v1 {
        p.insert("ver".into(), if rng.chance(9, 10) { json!(1) } else { rng.pick(&odd_vers).clone() });
    } else if rng.chance(1, 6) {
        // a v0-shaped token that additionally carries a `ver` which is not a supported version number
        p.insert("ver".into(), rng.pick(&odd_vers).clone());
    }
    let drop = |rng: &mut Rng| rng.chance(1, 12);
    if v1 && !drop(rng) {
        p.insert("iss".into(), if rng.chance(9, 10) { json!("ssr") } else { json!("x") });
    }
    if (v1 && !drop(rng)) || rng.chance(1, 4) {
        p.insert("aud".into(), rng.pick(&[json!("snap"), json!("snap"), json!("snap"), json!("other"), json!(["snap", "y"]), json!(["z"]), json!([]), json!(5)]).clone());
    }
    if !drop(rng) {
        let o = pick_off(rng, &[(15, 100000), (15, 100), (-45, -15), (-100000, -75), (-200, -75)]);
        p.insert("exp".into(), if rng.chance(19, 20) { json!(now + o) } else { json!(format!("{}", now + o)) });
    }
    if (v1 && !drop(rng)) || rng.chance(1, 4) {
        let o = pick_off(rng, &[(-100000, -15), (-100, -15), (15, 45), (75, 100000), (75, 200)]);
        p.insert("nbf".into(), json!(now + o));
    }
    if v1 && !drop(rng) {
        p.insert("iat".into(), json!(now - 100));
    }
    if !drop(rng) {
        p.insert("jti".into(), json!(format!("j{}", rng.below(1 << 40))));
    }
    if !drop(rng) {
        let u = uuid::Uuid::from_bytes(rng.bytes(16).try_into().unwrap());
        let mut b = vec![0u8];
        b.extend_from_slice(u.as_bytes());
        let form_v1 = if rng.chance(9, 10) { v1 } else { !v1 };
        p.insert("pssid".into(), if form_v1 { json!(b64(&b)) } else { json!(u.to_string()) });
    }
    if rng.chance(1, 4) {
        p.insert(format!("c{}", rng.below(5)), rng.pick(&[json!("s"), json!({"a": 1}), json!([1, 2]), json!(7)]).clone());
    }
    let hs = b64(serde_json::to_string(&Value::Object(h)).unwrap().as_bytes());
    let ps = b64(serde_json::to_string(&Value::Object(p)).unwrap().as_bytes());
    let msg = format!("{hs}.{ps}");
    let key = *rng.pick(&[&keys.stat, &keys.stat, &keys.jwks, &keys.jwks, &keys.other]);
    format!("{msg}.{}", b64(&key.sign(msg.as_bytes()).to_bytes()))
}

fn mutate(rng: &mut Rng, tok: &str, other: &str) -> String {
    let mut b = tok.as_bytes().to_vec();
    match rng.below(8) {
        0 => {
            // replace one char by another base64url char
            if !b.is_empty() {
                let i = rng.below(b.len() as u64) as usize;
                if b[i] != b'.' {
                    b[i] = *rng.pick(B64URL);
                }
            }
        }
        1 => {
            if !b.is_empty() {
                let i = rng.below(b.len() as u64) as usize;
                b.remove(i);
            }
        }
        2 => {
            let i = rng.below(b.len() as u64 + 1) as usize;
            b.insert(i, *rng.pick(b"AZaz09-_=+/.! "));
        }
        3 => {
            // splice segments of two tokens
            let a: Vec<&str> = tok.split('.').collect();
            let o: Vec<&str> = other.split('.').collect();
            if a.len() == 3 && o.len() == 3 {
                let pick = |rng: &mut Rng, i: usize| if rng.chance(1, 2) { a[i] } else { o[i] };
                return format!("{}.{}.{}", pick(rng, 0), pick(rng, 1), pick(rng, 2));
            }
        }
        4 => {
            let n = rng.below(b.len() as u64 + 1) as usize;
            b.truncate(n);
        }
        5 => {
            // flip one bit of the decoded signature
            let a: Vec<&str> = tok.split('.').collect();
            if a.len() == 3 {
                if let Ok(mut s) = URL_SAFE_NO_PAD.decode(a[2]) {
                    if !s.is_empty() {
                        let i = rng.below(s.len() as u64) as usize;
                        s[i] ^= 1 << rng.below(8);
                        return format!("{}.{}.{}", a[0], a[1], b64(&s));
                    }
                }
            }
        }
        6 => {
            // re-encode one segment in another base64 flavour
            let a: Vec<String> = tok.split('.').map(|s| s.to_string()).collect();
            if a.len() == 3 {
                let i = rng.below(3) as usize;
                if let Ok(raw) = URL_SAFE_NO_PAD.decode(&a[i]) {
                    let v = *rng.pick(&["padded", "std", "trail", "garbage"]);
                    if let Some(s) = encode_variant(&raw, v, rng.below(10) as usize) {
                        let mut a = a.clone();
                        a[i] = s;
                        return a.join(".");
                    }
                }
            }
        }
        _ => {
            // drop the signature / use "none"
            let a: Vec<&str> = tok.split('.').collect();
            if a.len() == 3 {
                return format!("{}.{}.", b64(br#"{"alg":"none","typ":"JWT"}"#), a[1]);
            }
        }
    }
    String::from_utf8_lossy(&b).to_string()
}

async fn record(evp: &str, sump: &str) {
    let env = make_env().await;
    let mut rng = Rng::from_env();
    let n: usize = std::env::var("VERIF_N").ok().and_then(|s| s.parse().ok()).unwrap_or(5000);
    let mut w = NdjsonWriter::create(evp);
    let mut wf = NdjsonWriter::create(&format!("{evp}.full"));
    w.write(&json!({"ev": "meta", "spec": "SnapToken", "seed": vh_core::seed_from_env(), "n": n}));
    let (mut acc, mut rej, mut classified) = (0usize, 0usize, 0usize);
    for i in 0..n {
        let now = now_secs();
        let cfg = if rng.chance(1, 2) { "jwks" } else { "static" };
        let base = random_token(&mut rng, &env.keys, now);
        let tok = match rng.below(10) {
            0 => {
                let l = rng.below(200) as usize;
                String::from_utf8_lossy(&rng.bytes(l)).replace(['\r', '\n', '\0'], "?")
            }
            1 => {
                let l = rng.below(300) as usize;
                (0..l).map(|_| *rng.pick(b"ABCDEFabcdef0123-_..") as char).collect()
            }
            2..=5 => base,
            6..=8 => {
                let other = random_token(&mut rng, &env.keys, now);
                mutate(&mut rng, &base, &other)
            }
            _ => {
                let other = random_token(&mut rng, &env.keys, now);
                let m = mutate(&mut rng, &base, &other);
                mutate(&mut rng, &m, &other)
            }
        };
        let case = extract(&tok, cfg, &env.keys, now);
        let o = observe(&env, cfg, &tok, None).await;
        if now_secs() - now > 5 {
            continue; // the machine stalled: the time classes of this event are no longer trustworthy
        }
        if o["got"] == "ok" { acc += 1 } else { rej += 1 }
        if !case.as_object().unwrap().values().any(|v| v == "unk") {
            classified += 1;
        }
        w.write(&json!({"ev": "tok", "i": i, "case": case, "got": o["got"]}));
        wf.write(&json!({"i": i, "case": case, "got": o["got"], "http": o["http"], "reg": o["reg"], "token": tok}));
    }
    w.finish();
    wf.finish();
    std::fs::write(sump, serde_json::to_string(&json!({"n": n, "accepted": acc, "rejected": rej, "fully_classified": classified})).unwrap()).unwrap();
}

// ------------------------------------------------------------------------------------------
// reuse: the SAME token string presented twice to the SAME verifier instance, once inside its
// validity (+ leeway) window and again after the window has ended (a verifier that remembers
// verified strings must still re-check the time).  Real time: the tokens are built already expired
// by 35 s (inside the 60 s leeway), so ~31 s of waiting put the second presentation >= 5 s beyond
// exp + leeway; the first presentation is >= 5 s inside the window if it happens within 20 s.
// ------------------------------------------------------------------------------------------
async fn reuse(outp: &str) {
    let env = make_env().await;
    let off = Offsets { exp: json!({"lee": -35}), nbf: json!({"past": -3600}) };
    let base0 = json!({"cfg":"static","parts":"3","hb64":"ok","pb64":"ok","sb64":"ok","hjson":"obj","pjson":"obj","alg":"EdDSA","typ":"JWT",
        "kid":"absent","hextra":"none","sig":"static","ver":"absent","pssid":"v0","exp":"lee","nbf":"absent","iat":"absent","jti":"ok",
        "iss":"absent","aud":"absent","pextra":"none"});
    let mut cases = vec![];
    for (cfg, kid, sig) in [("static", "absent", "static"), ("jwks", "known", "jwks")] {
        let mut c0 = base0.clone();
        c0["cfg"] = json!(cfg);
        c0["kid"] = json!(kid);
        c0["sig"] = json!(sig);
        let mut c1 = c0.clone();
        for (k, v) in [("ver", "1"), ("pssid", "v1"), ("nbf", "past"), ("iat", "ok"), ("iss", "ssr"), ("aud", "snap")] {
            c1[k] = json!(v);
        }
        cases.push(c0);
        cases.push(c1);
    }
    let built_at = now_secs();
    let mut items = vec![];
    for (i, case) in cases.iter().enumerate() {
        if let Some((tok, exp_abs)) = concretise(case, &off, &env.keys, built_at, 9000 + i as u64, 0) {
            let first = observe(&env, f(case, "cfg"), &tok, exp_abs).await;
            items.push((case.clone(), tok, exp_abs.unwrap_or(built_at - 35), first, now_secs()));
        }
    }
    // wait until >= 6 s after exp + leeway of every token (verifier clock = system time)
    let until = built_at - 35 + 60 + 6;
    while now_secs() < until {
        tokio::time::sleep(Duration::from_millis(250)).await;
    }
    let mut out = vec![];
    for (case, tok, exp, first, t1) in items {
        let second = observe(&env, f(&case, "cfg"), &tok, Some(exp)).await;
        out.push(json!({"case": case, "token": tok, "exp": exp, "first": first, "first_at": t1, "second": second, "second_at": now_secs(), "leeway": 60}));
    }
    std::fs::write(outp, serde_json::to_string(&json!({"built_at": built_at, "items": out})).unwrap()).unwrap();
}

#[tokio::main(flavor = "multi_thread", worker_threads = 2)]
async fn main() {
    let a: Vec<String> = std::env::args().collect();
    if std::env::var("VERIF_LOUD").is_err() { vh_core::quiet_panics(); }
    match a.get(1).map(|s| s.as_str()) {
        Some("replay") if a.len() == 4 => replay(&a[2], &a[3]).await,
        Some("record") if a.len() == 4 => record(&a[2], &a[3]).await,
        Some("reuse") if a.len() == 3 => reuse(&a[2]).await,
        _ => {
            eprintln!("usage: snaptoken replay <cells.ndjson> <out.ndjson> | record <events.ndjson> <summary.json>");
            std::process::exit(2);
        }
    }
}
