fn main() {}
