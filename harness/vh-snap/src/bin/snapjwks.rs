//! Growth of C10: the JWKS key store that resolves a token's `kid`
//! (snap-control/src/server/jwks_key_store.rs), bound to spec/Snap/JwksStore.tla.
//!
//! Real objects: `JwksKeyStore` (with its background fetch worker and reqwest client) talking to a
//! loopback axum JWKS endpoint whose served key set / availability the harness controls, and
//! `SnapTokenVerifier::with_jwks_store` (a token signed with material v and carrying kid k is
//! accepted iff the store resolves k to v).
//!
//! `replay <hist.ndjson> <out.ndjson>`: histories printed by TLC (MC_JwksStore, GEN) are executed
//!   call by call; the observation after every call is written out.
//! `record <events.ndjson> <summary.json>`: seeded random long histories for Trace_JwksStore.tla.
use std::{
    collections::BTreeMap,
    sync::{
        Arc, Mutex,
        atomic::{AtomicUsize, Ordering},
    },
    time::Duration,
};

use axum::{Json, Router, http::StatusCode, response::IntoResponse, routing::get};
use base64::Engine;
use base64::engine::general_purpose::URL_SAFE_NO_PAD;
use ed25519_dalek::{Signer, SigningKey, pkcs8::EncodePublicKey};
use jsonwebtoken::DecodingKey;
use serde_json::{Value, json};
use snap_control::server::{SnapTokenVerifier, jwks_key_store::JwksKeyStore};
use tokio_util::sync::CancellationToken;
use vh_core::{NdjsonWriter, Rng, read_ndjson};

#[derive(Default)]
struct Endpoint {
    served: Mutex<BTreeMap<String, String>>, // kid -> material name
    up: Mutex<bool>,
    hits: AtomicUsize,
}

struct Env {
    ep: Arc<Endpoint>,
    url: url::Url,
    mats: BTreeMap<String, SigningKey>,
    static_key: SigningKey,
}

fn material(name: &str) -> SigningKey {
    let n = name.trim_start_matches('v').parse::<u8>().unwrap_or(99);
    let mut seed = [0x61u8; 32];
    seed[3] = n;
    SigningKey::from_bytes(&seed)
}

async fn make_env(vals: &[String]) -> Env {
    scion_sdk_utils::rustls::select_ring_crypto_provider();
    let ep = Arc::new(Endpoint::default());
    *ep.up.lock().unwrap() = true;
    let mats: BTreeMap<String, SigningKey> = vals.iter().map(|v| (v.clone(), material(v))).collect();
    let listener = tokio::net::TcpListener::bind("127.0.0.1:0").await.expect("bind");
    let addr = listener.local_addr().unwrap();
    let (ep2, mats2) = (ep.clone(), mats.clone());
    let app = Router::new().route(
        "/.well-known/jwks.json",
        get(move || {
            let (ep, mats) = (ep2.clone(), mats2.clone());
            async move {
                ep.hits.fetch_add(1, Ordering::SeqCst);
                if !*ep.up.lock().unwrap() {
                    return (StatusCode::SERVICE_UNAVAILABLE, "down").into_response();
                }
                let keys: Vec<Value> = ep
                    .served
                    .lock()
                    .unwrap()
                    .iter()
                    .map(|(kid, v)| {
                        json!({"kid": kid, "kty": "OKP", "use": "sig", "alg": "EdDSA", "crv": "Ed25519",
                               "x": URL_SAFE_NO_PAD.encode(mats[v].verifying_key().as_bytes())})
                    })
                    .collect();
                Json(json!({"keys": keys})).into_response()
            }
        }),
    );
    tokio::spawn(async move { axum::serve(listener, app).await.unwrap() });
    let url = format!("http://{addr}/.well-known/jwks.json").parse().unwrap();
    Env { ep, url, mats, static_key: SigningKey::from_bytes(&[0x62; 32]) }
}

fn decoding_key(sk: &SigningKey) -> DecodingKey {
    let pem = sk.verifying_key().to_public_key_pem(Default::default()).expect("pem");
    DecodingKey::from_ed_pem(pem.as_bytes()).expect("decoding key")
}

/// a v0 SNAP token with header kid `kid`, signed with `sk`
fn token(kid: &str, sk: &SigningKey) -> String {
    let now = std::time::SystemTime::now().duration_since(std::time::UNIX_EPOCH).unwrap().as_secs();
    let h = URL_SAFE_NO_PAD.encode(format!(r#"{{"typ":"JWT","alg":"EdDSA","kid":"{kid}"}}"#));
    let p = URL_SAFE_NO_PAD.encode(format!(r#"{{"pssid":"123e4567-e89b-12d3-a456-426614174000","exp":{},"jti":"j"}}"#, now + 3600));
    let msg = format!("{h}.{p}");
    format!("{msg}.{}", URL_SAFE_NO_PAD.encode(sk.sign(msg.as_bytes()).to_bytes()))
}

/// which material is this key? (signature check with jsonwebtoken's own decode, no store involved)
fn identify(env: &Env, key: &DecodingKey) -> String {
    let mut val = jsonwebtoken::Validation::new(jsonwebtoken::Algorithm::EdDSA);
    val.validate_aud = false;
    for (name, sk) in &env.mats {
        if jsonwebtoken::decode::<Value>(&token("x", sk), key, &val).is_ok() {
            return name.clone();
        }
    }
    "unknown-material".into()
}

struct World {
    store: Arc<JwksKeyStore>,
    verifier: SnapTokenVerifier,
    cancel: CancellationToken,
}

fn new_world(env: &Env) -> World {
    env.ep.served.lock().unwrap().clear();
    *env.ep.up.lock().unwrap() = true;
    let cancel = CancellationToken::new();
    let store = Arc::new(JwksKeyStore::new(env.url.clone(), Duration::from_secs(360_000), cancel.clone()));
    let verifier = SnapTokenVerifier::new(decoding_key(&env.static_key)).with_jwks_store(store.clone());
    World { store, verifier, cancel }
}

fn cache_snapshot(env: &Env, w: &World, kids: &[String]) -> Value {
    let m: serde_json::Map<String, Value> = kids
        .iter()
        .map(|k| (k.clone(), json!(w.store.get_key(k).map(|key| identify(env, &key)).unwrap_or_else(|| "none".into()))))
        .collect();
    Value::Object(m)
}

/// execute one action; returns the observed event (same shape as the spec's `ev`)
async fn step(env: &Env, w: &World, ev: &Value) -> Value {
    let kind = ev["kind"].as_str().unwrap_or("?");
    let k = ev["k"].as_str().unwrap_or("").to_string();
    match kind {
        "publish" => {
            let v = ev["v"].as_str().unwrap().to_string();
            env.ep.served.lock().unwrap().insert(k.clone(), v.clone());
            json!({"kind": "publish", "k": k, "v": v})
        }
        "withdraw" => {
            env.ep.served.lock().unwrap().remove(&k);
            json!({"kind": "withdraw", "k": k})
        }
        "down" | "up" => {
            *env.ep.up.lock().unwrap() = kind == "up";
            json!({"kind": kind})
        }
        "refresh" => {
            // a fetch cycle without a lookup of a modelled kid: a miss on a kid nobody serves
            let before = env.ep.hits.load(Ordering::SeqCst);
            let r = tokio::time::timeout(Duration::from_secs(60), w.store.await_key("__no_such_kid__")).await;
            json!({"kind": "refresh", "reached": *env.ep.up.lock().unwrap(), "hits": env.ep.hits.load(Ordering::SeqCst) - before,
                   "timeout": r.is_err(), "resolved_unknown_kid": matches!(r, Ok(Some(_)))})
        }
        "await" => {
            let before = env.ep.hits.load(Ordering::SeqCst);
            let r = tokio::time::timeout(Duration::from_secs(60), w.store.await_key(&k)).await;
            let hits = env.ep.hits.load(Ordering::SeqCst) - before;
            let res = match &r {
                Ok(Some(key)) => identify(env, key),
                _ => "none".into(),
            };
            // the verifier's view: which material does a token with this kid have to be signed with?
            let mut accepted = vec![];
            if matches!(r, Ok(Some(_))) {
                for (name, sk) in &env.mats {
                    if w.verifier.verify(&token(&k, sk)).await.is_ok() {
                        accepted.push(name.clone());
                    }
                }
            }
            json!({"kind": "await", "k": k, "res": res, "fetched": hits > 0, "hits": hits, "reached": *env.ep.up.lock().unwrap(),
                   "timeout": r.is_err(), "verifier_accepts": accepted})
        }
        other => {
            eprintln!("unknown action {other}");
            std::process::exit(2)
        }
    }
}

fn names(v: &Value) -> Vec<String> {
    v.as_array().map(|a| a.iter().map(|x| x.as_str().unwrap().to_string()).collect()).unwrap_or_default()
}

async fn replay(inp: &str, outp: &str) {
    let rows = read_ndjson(inp);
    let mut w = NdjsonWriter::create(outp);
    let (mut kids, mut vals) = (vec![], vec![]);
    let mut env: Option<Env> = None;
    for row in rows {
        if row.get("ev").and_then(|v| v.as_str()) == Some("meta") {
            kids = names(&row["kids"]);
            vals = names(&row["vals"]);
            env = Some(make_env(&vals).await);
            continue;
        }
        let env = env.as_ref().expect("meta line first");
        let world = new_world(env);
        let mut out = vec![];
        for st in row["h"].as_array().map(|a| a.as_slice()).unwrap_or(&[]) {
            let o = step(env, &world, &st["ev"]).await;
            out.push(json!({"ev": o, "cache": cache_snapshot(env, &world, &kids)}));
        }
        world.cancel.cancel();
        w.write(&json!({"steps": out}));
    }
    w.finish();
}

async fn record(evp: &str, sump: &str) {
    let mut rng = Rng::from_env();
    let runs: usize = std::env::var("VERIF_RUNS").ok().and_then(|s| s.parse().ok()).unwrap_or(20);
    let len: usize = std::env::var("VERIF_LEN").ok().and_then(|s| s.parse().ok()).unwrap_or(100);
    let kids: Vec<String> = (1..=4).map(|i| format!("kid{i}")).collect();
    let vals: Vec<String> = (1..=5).map(|i| format!("v{i}")).collect();
    let env = make_env(&vals).await;
    let mut w = NdjsonWriter::create(evp);
    w.write(&json!({"ev": "meta", "spec": "JwksStore", "seed": vh_core::seed_from_env(), "kids": kids, "vals": vals}));
    let (mut nawait, mut nres, mut nfetch) = (0usize, 0usize, 0usize);
    for run in 0..runs {
        let world = new_world(&env);
        w.write(&json!({"ev": "reset"}));
        let mut up = true;
        for stepi in 0..len {
            let k = rng.pick(&kids).clone();
            let act = match rng.below(100) {
                0..=24 => json!({"kind": "publish", "k": k, "v": rng.pick(&vals).clone()}),
                25..=32 => json!({"kind": "withdraw", "k": k}),
                33..=40 => {
                    up = !up;
                    json!({"kind": if up { "up" } else { "down" }})
                }
                41..=84 => json!({"kind": "await", "k": k}),
                _ => json!({"kind": "refresh"}),
            };
            let o = step(&env, &world, &act).await;
            if o["kind"] == "await" {
                nawait += 1;
                if o["res"] != "none" {
                    nres += 1;
                }
                if o["fetched"] == true {
                    nfetch += 1;
                }
            }
            w.write(&json!({"ev": "act", "run": run, "step": stepi, "o": o, "cache": cache_snapshot(&env, &world, &kids)}));
        }
        world.cancel.cancel();
    }
    w.finish();
    std::fs::write(sump, serde_json::to_string(&json!({"runs": runs, "len": len, "awaits": nawait, "resolved": nres, "fetching_awaits": nfetch})).unwrap()).unwrap();
}

#[tokio::main(flavor = "multi_thread", worker_threads = 2)]
async fn main() {
    let a: Vec<String> = std::env::args().collect();
    match a.get(1).map(|s| s.as_str()) {
        Some("replay") if a.len() == 4 => replay(&a[2], &a[3]).await,
        Some("record") if a.len() == 4 => record(&a[2], &a[3]).await,
        _ => {
            eprintln!("usage: snapjwks replay <hist.ndjson> <out.ndjson> | record <events.ndjson> <summary.json>");
            std::process::exit(2);
        }
    }
}
