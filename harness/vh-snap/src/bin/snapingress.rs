//! C08 harness: SNAP ingress filter.
//!
//! `replay <cells.ndjson> <out.ndjson>`: every line is a cell of spec/Snap/SnapIngress.tla (a
//!   datagram descriptor + relation to the tunnel peer).  It is concretised into several real
//!   datagrams (hand-written SCION header encoder, no sciparse), and the gateway's ingress step
//!   (`inbound_datagram_check`, and on failure `create_scmp_error` into a PACKET_BUF_SIZE pool
//!   buffer - through the guarded hook `tunnel_gateway::gateway::verif`) is run on each.
//! `record <events.ndjson> <summary.json>`: seeded random / mutated datagrams up to 9216 B; the
//!   descriptor of every datagram is extracted by this file's own header reader and written
//!   next to the observed outcome, for validation by Trace_SnapIngress.tla.
use std::net::{IpAddr, Ipv4Addr, Ipv6Addr};

use serde_json::{Value, json};
use sciparse::address::host_addr::ScionHostAddr;
use snap_dataplane::tunnel_gateway::gateway::verif;
use vh_core::{NdjsonWriter, Rng, catch, read_ndjson};

const PEER4: [u8; 4] = [10, 1, 2, 3];
const PEER6: [u8; 16] = [0x20, 0x01, 0x0d, 0xb8, 0, 0, 0, 0, 0, 0, 0, 0x77, 10, 1, 2, 3]; // low 4 bytes = PEER4
const LOCAL: [u8; 4] = [192, 0, 2, 1];

fn mapped(v4: [u8; 4]) -> [u8; 16] {
    let mut b = [0u8; 16];
    b[10] = 0xff;
    b[11] = 0xff;
    b[12..].copy_from_slice(&v4);
    b
}

fn peer_ip(fam: &str) -> IpAddr {
    match fam {
        "v4" => IpAddr::V4(Ipv4Addr::from(PEER4)),
        "v6" => IpAddr::V6(Ipv6Addr::from(PEER6)),
        _ => IpAddr::V6(Ipv6Addr::from(mapped(PEER4))),
    }
}

fn addr_len(n: u64) -> usize {
    ((n % 4) as usize + 1) * 4
}

/// Source host bytes of length `n` standing in relation `rel` to the peer of family `fam`.
fn src_bytes(n: usize, fam: &str, rel: &str, rng: &mut Rng) -> Vec<u8> {
    let peer16: [u8; 16] = match fam {
        "v4" => mapped(PEER4),
        "v6" => PEER6,
        _ => mapped(PEER4),
    };
    match rel {
        "same" => {
            if fam == "v4" { PEER4.to_vec() } else { peer16.to_vec() }
        }
        "mappedform" => {
            if fam == "v4" { mapped(PEER4).to_vec() } else { PEER4.to_vec() }
        }
        "low4" => {
            // the low four bytes agree with the peer's, everything else differs
            let mut b = rng.bytes(n);
            let k = n - 4;
            for (i, x) in b.iter_mut().enumerate().take(k) {
                // differ from the peer's 16-byte form in every leading byte
                let p = peer16[16 - n + i];
                if *x == p {
                    *x = p.wrapping_add(1);
                }
            }
            b[k..].copy_from_slice(&peer16[12..]);
            if n == 4 && fam == "v4" {
                // with a 4-byte peer "low4 only" is impossible; make it differ in the top byte
                b[0] = PEER4[0] ^ 0x80;
            }
            b
        }
        _ => {
            let mut b = rng.bytes(n);
            // make sure it is unrelated: low 4 bytes differ from the peer's
            if b[n - 4..] == peer16[12..] {
                b[n - 1] ^= 1;
            }
            b
        }
    }
}

struct Built {
    bytes: Vec<u8>,
}

/// Hand-written SCION header encoder (common header 12 B, address header, path) for a cell.
fn concretise(c: &Value, rng: &mut Rng, variant: usize) -> Built {
    let g = |k: &str| c[k].as_u64().unwrap_or_else(|| panic!("field {k}"));
    let s = |k: &str| c[k].as_str().unwrap_or_else(|| panic!("field {k}")).to_string();
    let (ver, pt, st, dt) = (g("ver"), g("pt"), g("st"), g("dt"));
    let seg: Vec<u64> = c["seg"].as_array().unwrap().iter().map(|x| x.as_u64().unwrap()).collect();
    let plen = g("plen") as usize;
    let (hl, cut, peer, rel) = (s("hl"), s("cut"), s("peer"), s("rel"));
    let (dl, sl) = (addr_len(dt), addr_len(st));
    // path bytes
    let path: Vec<u8> = match pt {
        0 => vec![],
        1 => {
            let ninf = seg.iter().filter(|x| **x > 0).count();
            let nhop: u64 = seg.iter().sum();
            let mut p = vec![0u8; 4];
            // PathMeta: CurrINF(2) CurrHF(6) RSV(6) Seg0Len(6) Seg1Len(6) Seg2Len(6)
            let meta: u32 = ((seg[0] as u32 & 63) << 12) | ((seg[1] as u32 & 63) << 6) | (seg[2] as u32 & 63);
            p.copy_from_slice(&meta.to_be_bytes());
            p.extend(rng.bytes(8 * ninf + 12 * nhop as usize));
            p
        }
        2 => rng.bytes(32),
        _ => rng.bytes(plen),
    };
    let hdr_bytes = 12 + 16 + dl + sl + path.len();
    let adv = match hl.as_str() {
        "exact" => hdr_bytes,
        "less" => (hdr_bytes - 4).min(1020),
        _ => hdr_bytes + 4,
    };
    let payload_len = match variant % 3 {
        0 if cut != "nopayload" => 0usize,
        0 | 1 => 21,
        _ => 1 + rng.below(1200) as usize,
    };
    let mut b = Vec::with_capacity(hdr_bytes + payload_len);
    let flow = rng.below(1 << 20) as u32;
    let tc = rng.below(256) as u32;
    let w0: u32 = ((ver as u32 & 15) << 28) | (tc << 20) | flow;
    b.extend_from_slice(&w0.to_be_bytes());
    b.push(17); // NextHdr = UDP
    b.push((adv / 4) as u8);
    b.extend_from_slice(&(payload_len as u16).to_be_bytes());
    b.push(pt as u8);
    b.push(((dt as u8) << 4) | st as u8);
    b.extend_from_slice(&[0, 0]);
    // address header: DstISD DstAS SrcISD SrcAS
    b.extend_from_slice(&[0, 1, 0xff, 0, 0, 0, 1, 0x10]);
    b.extend_from_slice(&[0, 1, 0xff, 0, 0, 0, 1, 0x11]);
    b.extend(rng.bytes(dl));
    b.extend(src_bytes(sl, &peer, &rel, rng));
    b.extend_from_slice(&path);
    debug_assert_eq!(b.len(), hdr_bytes);
    let payload = rng.bytes(payload_len);
    match cut.as_str() {
        "full" => b.extend_from_slice(&payload),
        "extra" => {
            b.extend_from_slice(&payload);
            let extra = 1 + rng.below(64) as usize;
            b.extend(rng.bytes(extra));
        }
        "nopayload" => {
            // header complete, advertised payload missing (at least partly)
            let keep = if payload_len > 0 { rng.below(payload_len as u64) as usize } else { 0 };
            b.extend_from_slice(&payload[..keep]);
        }
        "in_path" => {
            let a = 28 + dl + sl;
            let n = a + rng.below(path.len() as u64) as usize;
            b.truncate(n);
        }
        "in_addr" => {
            let n = 12 + rng.below((16 + dl + sl) as u64) as usize;
            b.truncate(n);
        }
        "in_common" => {
            let n = 1 + rng.below(11) as usize;
            b.truncate(n);
        }
        _ => b.clear(),
    }
    Built { bytes: b }
}

/// The ingress step of the gateway loop on one datagram (real code, through the hook).
fn ingress(datagram: &[u8], from: IpAddr) -> Value {
    let local = ScionHostAddr::from(IpAddr::V4(Ipv4Addr::from(LOCAL)));
    let check = catch(|| match verif::inbound_datagram_check(datagram, from) {
        Ok(v) => {
            use sciparse::core::view::View;
            ("Dispatch".to_string(), v.as_slice().len())
        }
        Err(verif::PacketPolicyError::MalformedPacket(..)) => ("MalformedPacket".to_string(), 0),
        Err(verif::PacketPolicyError::InvalidSourceAddress(..)) => ("InvalidSourceAddress".to_string(), 0),
        Err(verif::PacketPolicyError::InvalidPathType(..)) => ("InvalidPathType".to_string(), 0),
    });
    let (check, viewlen) = match check {
        Ok(x) => x,
        Err(p) => return json!({"check": "panic", "panic": p, "dispatched": false, "replies": 0}),
    };
    let reply = catch(|| verif::ingress_reply(datagram, from, local));
    match reply {
        Err(p) => json!({"check": check, "panic": p, "dispatched": false, "replies": 0}),
        Ok(None) => json!({"check": check, "dispatched": true, "replies": 0, "viewlen": viewlen}),
        Ok(Some(Err(e))) => json!({"check": check, "dispatched": false, "replies": 0, "encode_err": format!("{e:?}")}),
        Ok(Some(Ok(bytes))) => {
            let mut o = json!({"check": check, "dispatched": false, "replies": 1, "reply_len": bytes.len(),
                               "fits": bytes.len() <= verif::PACKET_BUF_SIZE});
            let r = read_reply(&bytes, datagram, from);
            o["reply"] = r;
            o
        }
    }
}

/// Independent reader of the reply: is it a SCION/SCMP parameter problem addressed to the peer?
fn read_reply(b: &[u8], offender: &[u8], from: IpAddr) -> Value {
    let Some(h) = read_header(b) else { return json!({"parses": false}) };
    if !h.parses {
        return json!({"parses": false});
    }
    let next = b[4];
    let l4 = &b[h.hdr..];
    let mut o = json!({"parses": true, "next_hdr": next, "pt": h.pt, "l4_len": l4.len(), "payload_len_field": h.payload_len});
    // destination host must be the peer
    let dl = addr_len((h.dt) as u64);
    let dst = &b[28..28 + dl];
    let dst_is_peer = match from {
        IpAddr::V4(a) => h.dt == 0 && dst == a.octets(),
        IpAddr::V6(a) => h.dt == 3 && dst == a.octets(),
    };
    o["dst_is_peer"] = json!(dst_is_peer);
    if next == 202 && l4.len() >= 8 {
        // SCMP: type(1) code(1) checksum(2); parameter problem = type 4: reserved(2) pointer(2) then quote
        o["scmp_type"] = json!(l4[0]);
        o["scmp_code"] = json!(l4[1]);
        o["pointer"] = json!(u16::from_be_bytes([l4[6], l4[7]]));
        let quote = &l4[8..];
        o["quote_len"] = json!(quote.len());
        o["quote_is_prefix"] = json!(offender.len() >= quote.len() && &offender[..quote.len()] == quote);
        o["total_le_1232"] = json!(b.len() <= 1232);
    }
    o
}

struct Hdr {
    parses: bool,
    ver: u8,
    pt: u8,
    st: u8,
    dt: u8,
    hdr: usize,
    adv: usize,
    payload_len: usize,
    seg: [u8; 3],
    cut: &'static str,
    hl: &'static str,
    plen: usize,
}

/// Independent header reader (SCION header format only; no sciparse).  None: shorter than 12 bytes.
fn read_header(b: &[u8]) -> Option<Hdr> {
    if b.len() < 12 {
        return None;
    }
    let ver = b[0] >> 4;
    let adv = b[5] as usize * 4;
    let payload_len = u16::from_be_bytes([b[6], b[7]]) as usize;
    let pt = b[8];
    let (dt, st) = (b[9] >> 4, b[9] & 15);
    let addr_end = 28 + addr_len(dt as u64) + addr_len(st as u64);
    let mut h = Hdr { parses: false, ver, pt, st, dt, hdr: 0, adv, payload_len, seg: [0; 3], cut: "full", hl: "exact", plen: 0 };
    if b.len() < addr_end {
        h.cut = "in_addr";
        return Some(h);
    }
    let path_len = match pt {
        0 => 0,
        1 => {
            if b.len() < addr_end + 4 {
                h.cut = "in_path";
                return Some(h);
            }
            let meta = u32::from_be_bytes([b[addr_end], b[addr_end + 1], b[addr_end + 2], b[addr_end + 3]]);
            h.seg = [((meta >> 12) & 63) as u8, ((meta >> 6) & 63) as u8, (meta & 63) as u8];
            let ninf = h.seg.iter().filter(|x| **x > 0).count();
            let nhop: usize = h.seg.iter().map(|x| *x as usize).sum();
            4 + 8 * ninf + 12 * nhop
        }
        2 => 32,
        _ => {
            if adv < addr_end {
                h.hl = "less";
                h.hdr = addr_end;
                return Some(h);
            }
            adv - addr_end
        }
    };
    h.plen = path_len;
    h.hdr = addr_end + path_len;
    if b.len() < h.hdr {
        h.cut = "in_path";
        return Some(h);
    }
    h.hl = if adv == h.hdr { "exact" } else if adv < h.hdr { "less" } else { "more" };
    h.cut = if b.len() == h.hdr + payload_len {
        "full"
    } else if b.len() > h.hdr + payload_len {
        "extra"
    } else {
        "nopayload"
    };
    h.parses = ver == 0 && h.hl == "exact";
    Some(h)
}

/// Descriptor of an arbitrary datagram relative to the peer (the record direction).
fn describe(b: &[u8], fam: &str) -> Value {
    let peer = peer_ip(fam);
    let Some(h) = read_header(b) else {
        return json!({"ver": 0, "pt": 0, "st": 0, "dt": 0, "seg": [0, 0, 0], "plen": 0, "hl": "exact",
                      "cut": if b.is_empty() { "empty" } else { "in_common" }, "peer": fam, "rel": "other"});
    };
    let mut rel = "other";
    let sl = addr_len(h.st as u64);
    let a = 28 + addr_len(h.dt as u64);
    if b.len() >= a + sl {
        let src = &b[a..a + sl];
        let (peer_nat, peer16): (Vec<u8>, [u8; 16]) = match peer {
            IpAddr::V4(x) => (x.octets().to_vec(), mapped(x.octets())),
            IpAddr::V6(x) => (x.octets().to_vec(), x.octets()),
        };
        let embedded_v4 = peer16[..10] == [0u8; 10] && peer16[10] == 0xff && peer16[11] == 0xff;
        rel = if src == peer_nat.as_slice() {
            "same"
        } else if peer.is_ipv4() && src == mapped(PEER4) {
            "mappedform"
        } else if peer.is_ipv6() && embedded_v4 && src == &peer16[12..] {
            "mappedform"
        } else if src[sl - 4..] == peer16[12..] {
            "low4"
        } else {
            "other"
        };
    }
    json!({"ver": h.ver, "pt": h.pt, "st": h.st, "dt": h.dt, "seg": h.seg, "plen": h.plen, "hl": h.hl, "cut": h.cut,
           "peer": fam, "rel": rel})
}

fn replay(inp: &str, outp: &str) {
    let rows = read_ndjson(inp);
    let mut w = NdjsonWriter::create(outp);
    let mut rng = Rng::from_env();
    for row in rows {
        if row.get("ev").is_some() {
            continue;
        }
        let c = &row["case"];
        let from = peer_ip(c["peer"].as_str().unwrap());
        let mut obs = vec![];
        for k in 0..3 {
            let built = concretise(c, &mut rng, k);
            // self-check of the concretisation: the independent reader must see the cell's descriptor
            let seen = describe(&built.bytes, c["peer"].as_str().unwrap());
            let mut o = ingress(&built.bytes, from);
            o["len"] = json!(built.bytes.len());
            o["seen"] = seen;
            if o["dispatched"] == false || k == 0 {
                o["hex"] = json!(hex(&built.bytes[..built.bytes.len().min(160)]));
            }
            obs.push(o);
        }
        w.write(&json!({"obs": obs}));
    }
    w.finish();
}

fn hex(b: &[u8]) -> String {
    b.iter().map(|x| format!("{x:02x}")).collect()
}

fn record(evp: &str, sump: &str) {
    let mut rng = Rng::from_env();
    let n: usize = std::env::var("VERIF_N").ok().and_then(|s| s.parse().ok()).unwrap_or(50000);
    let mut w = NdjsonWriter::create(evp);
    let mut wf = NdjsonWriter::create(&format!("{evp}.full"));
    w.write(&json!({"ev": "meta", "spec": "SnapIngress", "seed": vh_core::seed_from_env(), "n": n}));
    let (mut disp, mut rep, mut none, mut maxlen) = (0usize, 0usize, 0usize, 0usize);
    for i in 0..n {
        let fam = *rng.pick(&["v4", "v6", "v4mapped"]);
        // a plausible cell, then byte-level mutations
        let st = *rng.pick(&[0u64, 0, 0, 3, 3, 3, 4, 1, 2, 7, 12, 15]);
        let sl = addr_len(st);
        let rel = match (fam, sl) {
            ("v4", 4) | ("v6", 16) | ("v4mapped", 16) => *rng.pick(&["same", "same", "same", "low4", "other"]),
            ("v4", 16) | ("v4mapped", 4) => *rng.pick(&["mappedform", "low4", "other"]),
            _ => *rng.pick(&["low4", "other"]),
        };
        let pt = *rng.pick(&[0u64, 1, 1, 1, 2, 3, 4, 200, 255]);
        let seg = match rng.below(5) {
            0 => [1u64, 0, 0],
            1 => [2, 3, 0],
            2 => [rng.below(6), rng.below(6), rng.below(6)],
            3 => [0, 0, 0],
            _ => [rng.below(20), rng.below(20), rng.below(20)],
        };
        let c = json!({"ver": if rng.chance(19, 20) { 0 } else { rng.below(16) }, "pt": pt, "st": st,
                        "dt": *rng.pick(&[0u64, 3, 4, 9]), "seg": seg, "plen": rng.below(20) * 4,
                        "hl": *rng.pick(&["exact", "exact", "exact", "exact", "less", "more"]),
                        "cut": *rng.pick(&["full", "full", "full", "extra", "nopayload"]), "peer": fam, "rel": rel});
        let mut b = if rng.chance(1, 25) {
            let l = match rng.below(4) {
                0 => rng.below(40),
                1 => rng.below(2000),
                2 => 9216 - rng.below(3),
                _ => rng.below(9217),
            } as usize;
            rng.bytes(l)
        } else {
            let hdr = 28 + addr_len(c["dt"].as_u64().unwrap()) + sl
                + match pt { 0 => 0, 1 => 4 + 8 * seg.iter().filter(|x| **x > 0).count() + 12 * seg.iter().sum::<u64>() as usize, 2 => 32, _ => c["plen"].as_u64().unwrap() as usize };
            if hdr + 4 > 1020 || (c["hl"] == "less" && hdr < 32) {
                rng.bytes(64)
            } else {
                let mut cc = c.clone();
                if pt > 2 {
                    cc["hl"] = json!("exact");
                }
                let v = rng.below(3) as usize;
                concretise(&cc, &mut rng, v).bytes
            }
        };
        // pad some to jumbo size
        if rng.chance(1, 30) && b.len() >= 12 {
            let hdr = b[5] as usize * 4;
            let room = 9216usize.saturating_sub(b.len());
            let add = if rng.chance(1, 2) { room } else { rng.below(room as u64 + 1) as usize };
            if hdr <= b.len() {
                let newpl = (b.len() - hdr + add).min(65535);
                b[6..8].copy_from_slice(&(newpl as u16).to_be_bytes());
            }
            b.extend(rng.bytes(add));
        }
        // byte-level mutations
        for _ in 0..rng.below(3) {
            if b.is_empty() {
                break;
            }
            match rng.below(5) {
                0 => {
                    let i = rng.below(b.len().min(64) as u64) as usize;
                    b[i] ^= 1 << rng.below(8);
                }
                1 => {
                    let i = rng.below(b.len().min(12) as u64) as usize;
                    b[i] = rng.below(256) as u8;
                }
                2 => {
                    let l = rng.below(b.len() as u64 + 1) as usize;
                    b.truncate(l);
                }
                3 => {
                    if b.len() > 9 {
                        b[9] = rng.below(256) as u8; // DT/DL/ST/SL
                    }
                }
                _ => {
                    if b.len() > 8 {
                        b[8] = *rng.pick(&[0u8, 1, 2, 3, 4, 5, 200]);
                    }
                }
            }
        }
        b.truncate(9216);
        maxlen = maxlen.max(b.len());
        let desc = describe(&b, fam);
        let o = ingress(&b, peer_ip(fam));
        if o["dispatched"] == true {
            disp += 1
        } else if o["replies"] == 1 {
            rep += 1
        } else {
            none += 1
        }
        let outcome = if o["check"] == "panic" || o.get("panic").is_some() {
            "panic".to_string()
        } else if o["dispatched"] == true {
            "Dispatch".to_string()
        } else {
            match (o["check"].as_str().unwrap(), o["replies"].as_u64().unwrap()) {
                (_, 0) => "NoReply".to_string(),
                ("MalformedPacket", _) => "Reply:InvalidCommonHeader".to_string(),
                ("InvalidSourceAddress", _) => "Reply:InvalidSourceAddress".to_string(),
                _ => "Reply:UnknownPathType".to_string(),
            }
        };
        let r = &o["reply"];
        let reply_ok = o["replies"] == 0
            || (r["parses"] == true && r["scmp_type"] == 4 && o["fits"] == true && r["next_hdr"] == 202);
        w.write(&json!({"ev": "dg", "i": i, "case": desc, "len": b.len(), "outcome": outcome, "replies": o["replies"],
                         "reply_ok": reply_ok, "code": r["scmp_code"].as_u64().unwrap_or(255)}));
        wf.write(&json!({"i": i, "case": desc, "len": b.len(), "obs": o, "hex": hex(&b[..b.len().min(200)])}));
    }
    w.finish();
    wf.finish();
    std::fs::write(sump, serde_json::to_string(&json!({"n": n, "dispatched": disp, "replied": rep, "noreply": none, "maxlen": maxlen})).unwrap()).unwrap();
}

fn main() {
    let a: Vec<String> = std::env::args().collect();
    if std::env::var("VERIF_LOUD").is_err() {
        vh_core::quiet_panics();
    }
    match a.get(1).map(|s| s.as_str()) {
        Some("replay") if a.len() == 4 => replay(&a[2], &a[3]),
        Some("record") if a.len() == 4 => record(&a[2], &a[3]),
        _ => {
            eprintln!("usage: snapingress replay <cells.ndjson> <out.ndjson> | record <events.ndjson> <summary.json>");
            std::process::exit(2);
        }
    }
}
