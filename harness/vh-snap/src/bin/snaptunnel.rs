//! C09 harness: the SNAP tunnel carries traffic only for identities authorised at that moment.
//!
//! Real objects: `snap_control::server::identity_registry::IdentityRegistry` (authorisation
//! database), `snap_tun::server::SnapTunServer` (tunnel server), and one real client-side
//! `ana_gotatun::noise::Tunn` per (address, identity) that produces genuine handshake and data
//! packets.  The server reads `Instant::now()` itself; model time is injected at the
//! `SnapTunAuthorization` boundary (`ClockedAuthz`), the only place where time matters for C09.
//!
//! `replay <hist.ndjson> <out.ndjson>`: each line `{"h":[{ev:{kind,..},..}, ...]}` is a behaviour
//!   printed by TLC (MC_SnapTunnel, GEN); it is executed call by call; the observation after every
//!   call is written out.
//! `record <events.ndjson> <summary.json>`: seeded random long histories (more keys / identities /
//!   addresses than the exhaustive model) are executed and recorded for Trace_SnapTunnel.tla.
use std::{
    collections::{BTreeMap, VecDeque},
    net::SocketAddr,
    sync::{
        Arc, Mutex,
        atomic::{AtomicU64, Ordering},
    },
    time::{Duration, Instant},
};

use ana_gotatun::{
    noise::{Tunn, TunnResult, errors::WireGuardError, rate_limiter::RateLimiter},
    packet::{Packet, WgKind},
    x25519,
};
use serde_json::{Value, json};
use snap_control::server::identity_registry::IdentityRegistry;
use snap_tun::server::{HandleIncomingPacketResult, SnapTunAuthorization, SnapTunServer};
use vh_core::{NdjsonWriter, Rng, catch, read_ndjson};

type Identity = [u8; 32];

/// Authorisation adapter: the real registry evaluated at model time.
struct ClockedAuthz {
    reg: Arc<IdentityRegistry>,
    base: Instant,
    now_s: AtomicU64,
    asked: Mutex<Vec<Identity>>,
    /// number of calls in which the server passed a timestamp that is not "about now" (the adapter
    /// replaces that timestamp by model time, so a stale/future one would otherwise go unnoticed)
    odd_time: AtomicU64,
}
impl ClockedAuthz {
    fn at(&self) -> Instant {
        self.base + Duration::from_secs(self.now_s.load(Ordering::SeqCst))
    }
}
impl SnapTunAuthorization for ClockedAuthz {
    /// the identity the authorisation was granted for (= the session a payload is attributed to)
    type SessionData = Identity;
    fn is_authorized(&self, now: Instant, identity: &Identity) -> Option<Arc<Identity>> {
        let real = Instant::now();
        if now > real || real.duration_since(now) > Duration::from_secs(120) {
            self.odd_time.fetch_add(1, Ordering::SeqCst);
        }
        self.asked.lock().unwrap().push(*identity);
        <IdentityRegistry as SnapTunAuthorization>::is_authorized(&self.reg, self.at(), identity).map(|_| Arc::new(*identity))
    }
}

fn wg_bytes(k: WgKind) -> Packet {
    match k {
        WgKind::HandshakeInit(p) => p.into_bytes(),
        WgKind::HandshakeResp(p) => p.into_bytes(),
        WgKind::CookieReply(p) => p.into_bytes(),
        WgKind::Data(p) => p.into_bytes(),
    }
}
fn wg_name(k: &WgKind) -> &'static str {
    match k {
        WgKind::HandshakeInit(_) => "HandshakeInit",
        WgKind::HandshakeResp(_) => "HandshakeResp",
        WgKind::CookieReply(_) => "CookieReply",
        WgKind::Data(_) => "Data",
    }
}

struct World {
    reg: Arc<IdentityRegistry>,
    authz: Arc<ClockedAuthz>,
    server: SnapTunServer<ClockedAuthz>,
    server_pub: x25519::PublicKey,
    ids: BTreeMap<String, (x25519::StaticSecret, Identity)>,
    addrs: BTreeMap<String, SocketAddr>,
    clients: BTreeMap<(String, String), Tunn>,
    /// owner of the server-side tunnel at an address as far as the harness can tell (first accepted handshake)
    owner: BTreeMap<String, String>,
    seq: u64,
    last_data: Option<Vec<u8>>,
}

impl World {
    fn new(ids: &[String], addrs: &[String]) -> World {
        let reg = Arc::new(IdentityRegistry::new());
        let authz = Arc::new(ClockedAuthz { reg: reg.clone(), base: Instant::now() + Duration::from_secs(1000), now_s: AtomicU64::new(0), asked: Mutex::new(vec![]), odd_time: AtomicU64::new(0) });
        let server_secret = x25519::StaticSecret::from([0xA5u8; 32]);
        let server_pub = x25519::PublicKey::from(&server_secret);
        let rl = Arc::new(RateLimiter::new(&server_pub, 1_000_000));
        let server = SnapTunServer::new(server_secret, rl, authz.clone());
        let mut idm = BTreeMap::new();
        for (n, i) in ids.iter().enumerate() {
            let mut seed = [0x11u8; 32];
            seed[5] = n as u8 + 1; // (byte 0 is clamped by X25519)
            let sk = x25519::StaticSecret::from(seed);
            let pk = x25519::PublicKey::from(&sk);
            idm.insert(i.clone(), (sk, *pk.as_bytes()));
        }
        let mut am = BTreeMap::new();
        for (n, a) in addrs.iter().enumerate() {
            // addresses differ in IP or only in port (tunnels are keyed by the socket address)
            let s: SocketAddr = if n % 2 == 0 { format!("192.0.2.{}:4000", 10 + n) } else { format!("192.0.2.{}:{}", 10 + n - 1, 4001 + n) }.parse().unwrap();
            am.insert(a.clone(), s);
        }
        World { reg, authz, server, server_pub, ids: idm, addrs: am, clients: BTreeMap::new(), owner: BTreeMap::new(), seq: 0, last_data: None }
    }

    fn id_name(&self, id: &Identity) -> String {
        self.ids.iter().find(|(_, v)| &v.1 == id).map(|(k, _)| k.clone()).unwrap_or_else(|| "?".into())
    }

    fn client(&mut self, a: &str, i: &str) -> &mut Tunn {
        let key = (a.to_string(), i.to_string());
        if !self.clients.contains_key(&key) {
            let sk = self.ids[i].0.clone();
            let pk = x25519::PublicKey::from(&sk);
            let rl = Arc::new(RateLimiter::new(&pk, 1_000_000));
            let idx = self.clients.len() as u32 + 1;
            let t = Tunn::new(sk, self.server_pub, None, None, idx, rl, "198.51.100.1:5001".parse().unwrap());
            self.clients.insert(key.clone(), t);
        }
        self.clients.get_mut(&key).unwrap()
    }

    fn payload(&mut self, tag: &str) -> Vec<u8> {
        self.seq += 1;
        let mut p = format!("SCION-PAYLOAD {tag} #{} ", self.seq).into_bytes();
        while p.len() < 64 {
            p.push(b'.');
        }
        p
    }

    /// observation common to every step: authorisation of every identity at model time, real maps
    fn snapshot(&self) -> Value {
        let at = self.authz.at();
        let auth: serde_json::Map<String, Value> =
            self.ids.iter().map(|(n, (_, id))| (n.clone(), json!(self.reg.has_authorization(at, id)))).collect();
        let (assoc, sessions) = self.reg.verif_snapshot();
        let assoc_j: Vec<Value> = assoc.iter().map(|(k, id)| json!([k, self.id_name(id)])).collect();
        let sess_j: Vec<Value> = sessions
            .iter()
            .map(|(id, exp)| json!([self.id_name(id), exp.saturating_duration_since(self.authz.base).as_secs()]))
            .collect();
        json!({"auth": auth, "assoc": assoc_j, "sess": sess_j, "now": self.authz.now_s.load(Ordering::SeqCst),
               "odd_time": self.authz.odd_time.load(Ordering::SeqCst)})
    }

    /// execute one model action on the real objects; returns the observed event (same shape as the spec's `ev`)
    fn step(&mut self, ev: &Value, rng: &mut Rng) -> Value {
        let kind = ev["kind"].as_str().unwrap_or("?").to_string();
        let s = |k: &str| ev[k].as_str().unwrap_or("").to_string();
        self.authz.asked.lock().unwrap().clear();
        match kind.as_str() {
            "register" => {
                let id = self.ids[&s("id")].1;
                let was_new = self.reg.register(self.authz.at(), s("k"), id, Duration::from_secs(ev["life"].as_u64().unwrap()));
                json!({"kind": "register", "k": s("k"), "id": s("id"), "life": ev["life"], "wasnew": was_new})
            }
            "adv" => {
                self.authz.now_s.fetch_add(ev["d"].as_u64().unwrap(), Ordering::SeqCst);
                json!({"kind": "adv", "d": ev["d"]})
            }
            "purge" => {
                self.reg.remove_expired(self.authz.at());
                json!({"kind": "purge"})
            }
            "timer" | "timerdrop" => {
                let out = self.server.update_timers();
                json!({"kind": "timer", "emitted": out.len()})
            }
            "hs" => {
                let (a, i) = (s("a"), s("id"));
                let from = self.addrs[&a];
                let had = self.owner.contains_key(&a);
                let mut res = "rejected-other".to_string();
                let mut detail = String::new();
                // WireGuard initiations carry a timestamp that must increase: retry after a short sleep
                for attempt in 0..4 {
                    let init = self.client(&a, &i).format_handshake_initiation(true).expect("forced initiation");
                    let mut q = VecDeque::new();
                    let r = self.server.handle_incoming_packet_with_session(init.into_bytes(), from, &mut q);
                    let resp = q.iter().position(|p| matches!(p, WgKind::HandshakeResp(_)));
                    match (&r, resp) {
                        (_, Some(pos)) => {
                            let resp = q.remove(pos).unwrap();
                            res = if had { "accepted-rekey".into() } else { "accepted-new".into() };
                            if !had {
                                self.owner.insert(a.clone(), i.clone());
                            }
                            // response -> client; the client's keepalive -> server (confirms the session)
                            let cr = self.client(&a, &i).handle_incoming_packet(resp);
                            match cr {
                                TunnResult::WriteToNetwork(k) => {
                                    let mut q2 = VecDeque::new();
                                    let r2 = self.server.handle_incoming_packet_with_session(wg_bytes(k), from, &mut q2);
                                    if let HandleIncomingPacketResult::Forwarded { .. } = r2 {
                                        detail = "keepalive-forwarded".into();
                                    }
                                }
                                other => detail = format!("client did not answer the response: {}", tr_name(&other)),
                            }
                            break;
                        }
                        (HandleIncomingPacketResult::Result { result: TunnResult::Err(WireGuardError::UnexpectedPacket) }, None) => {
                            res = "rejected-unauthorized".into();
                            break;
                        }
                        (HandleIncomingPacketResult::Result { result: TunnResult::Err(e) }, None) => {
                            detail = format!("{e:?}");
                            if matches!(e, WireGuardError::WrongTai64nTimestamp) && attempt < 3 {
                                std::thread::sleep(Duration::from_millis(30));
                                continue;
                            }
                            res = "rejected-other".into();
                            break;
                        }
                        (other, None) => {
                            detail = match other {
                                HandleIncomingPacketResult::Forwarded { .. } => "forwarded?!".into(),
                                HandleIncomingPacketResult::Result { result } => tr_name(result).into(),
                            };
                            break;
                        }
                    }
                }
                json!({"kind": "hs", "a": a, "id": i, "res": res, "detail": detail})
            }
            "in" => {
                let (a, i) = (s("a"), s("sender"));
                let from = self.addrs[&a];
                let payload = self.payload(&format!("{a}/{i}"));
                let out = self.client(&a, &i).handle_outgoing_packet(Packet::copy_from(&payload[..]));
                let Some(WgKind::Data(d)) = out else {
                    // the client holds no session: the model's precondition is not met on the real side
                    return json!({"kind": "in", "a": a, "sender": i, "fwd": false, "id": "none", "nosession": true,
                                  "detail": out.as_ref().map(wg_name).unwrap_or("None")});
                };
                let bytes: Packet = d.into_bytes();
                let copy = bytes[..].to_vec();
                let mut q = VecDeque::new();
                let r = self.server.handle_incoming_packet_with_session(bytes, from, &mut q);
                match r {
                    HandleIncomingPacketResult::Forwarded { packet, session_data, .. } => {
                        // only a packet that was delivered once is a "replay" later (a packet dropped
                        // before decryption is still a fresh, genuine packet of its sender)
                        self.last_data = Some(copy);
                        json!({"kind": "in", "a": a, "sender": i, "fwd": true, "id": self.id_name(&session_data),
                               "intact": packet[..] == payload[..]})
                    }
                    HandleIncomingPacketResult::Result { result } => {
                        json!({"kind": "in", "a": a, "sender": i, "fwd": false, "id": "none", "detail": tr_name(&result)})
                    }
                }
            }
            "forged" => {
                let a = s("a");
                let from = self.addrs[&a];
                // a data message under no session key: random, or a genuine packet replayed / bit-flipped
                let bytes: Vec<u8> = match (rng.below(3), &self.last_data) {
                    (0, Some(d)) => d.clone(), // replay (same or other address)
                    (1, Some(d)) => {
                        let mut d = d.clone();
                        let i = 16 + rng.below((d.len() - 16) as u64) as usize;
                        d[i] ^= 1 << rng.below(8);
                        d
                    }
                    _ => {
                        let mut d = vec![4u8, 0, 0, 0];
                        let n = 4 + 8 + 16 + rng.below(80) as usize;
                        d.extend(rng.bytes(n));
                        d
                    }
                };
                let mut q = VecDeque::new();
                let r = self.server.handle_incoming_packet_with_session(Packet::copy_from(&bytes[..]), from, &mut q);
                match r {
                    HandleIncomingPacketResult::Forwarded { session_data, .. } => {
                        json!({"kind": "forged", "a": a, "fwd": true, "id": self.id_name(&session_data)})
                    }
                    HandleIncomingPacketResult::Result { result } => json!({"kind": "forged", "a": a, "fwd": false, "detail": tr_name(&result)}),
                }
            }
            "out" => {
                let a = s("a");
                let to = self.addrs[&a];
                let payload = self.payload(&format!("to {a}"));
                let r = self.server.handle_outgoing_packet_with_session(Packet::copy_from(&payload[..]), to);
                match r {
                    None => json!({"kind": "out", "a": a, "enc": false, "id": "none"}),
                    Some(h) => {
                        let sid = self.id_name(&h.session_data);
                        match h.network_packet {
                            Some(WgKind::Data(d)) => {
                                // the owner of the tunnel decrypts it: what flowed, and to whom
                                let mut delivered = Value::Null;
                                if let Some(o) = self.owner.get(&a).cloned() {
                                    let cr = self.client(&a, &o).handle_incoming_packet(WgKind::Data(d));
                                    delivered = match cr {
                                        TunnResult::WriteToTunnel(p) => json!({"to": o, "intact": p[..] == payload[..]}),
                                        other => json!({"to": o, "failed": tr_name(&other)}),
                                    };
                                }
                                json!({"kind": "out", "a": a, "enc": true, "id": sid, "delivered": delivered})
                            }
                            Some(other) => json!({"kind": "out", "a": a, "enc": false, "id": sid, "detail": wg_name(&other)}),
                            None => json!({"kind": "out", "a": a, "enc": false, "id": sid, "detail": "queued"}),
                        }
                    }
                }
            }
            k => {
                eprintln!("unknown action kind {k}");
                std::process::exit(2)
            }
        }
    }
}

fn tr_name(r: &TunnResult) -> &'static str {
    match r {
        TunnResult::Done => "Done",
        TunnResult::Err(WireGuardError::UnexpectedPacket) => "Err(UnexpectedPacket)",
        TunnResult::Err(WireGuardError::InvalidPacket) => "Err(InvalidPacket)",
        TunnResult::Err(_) => "Err(other)",
        TunnResult::WriteToNetwork(_) => "WriteToNetwork",
        TunnResult::WriteToTunnel(_) => "WriteToTunnel",
    }
}

fn names(v: &Value) -> Vec<String> {
    v.as_array().map(|a| a.iter().map(|x| x.as_str().unwrap().to_string()).collect()).unwrap_or_default()
}

/// Replay one TLC history on a fresh world; deterministic per history index.
fn replay_one(ids: &[String], addrs: &[String], row: &Value, index: u64) -> Value {
    let mut rng = Rng::new(vh_core::seed_from_env().wrapping_mul(1_000_003).wrapping_add(index));
    let mut world = World::new(ids, addrs);
    let mut out = vec![];
    for st in row["h"].as_array().map(|a| a.as_slice()).unwrap_or(&[]) {
        let ev = &st["ev"];
        let r = catch(|| {
            let o = world.step(ev, &mut rng);
            let snap = world.snapshot();
            (o, snap)
        });
        match r {
            Ok((o, snap)) => out.push(json!({"ev": o, "snap": snap})),
            Err(p) => {
                out.push(json!({"ev": {"kind": "panic", "what": p, "during": ev}, "snap": Value::Null}));
                break;
            }
        }
    }
    json!({"steps": out})
}

fn replay(inp: &str, outp: &str) {
    let rows = read_ndjson(inp);
    let mut w = NdjsonWriter::create(outp);
    let (mut ids, mut addrs) = (vec![], vec![]);
    let mut hist = vec![];
    for row in rows {
        if row.get("ev").and_then(|v| v.as_str()) == Some("meta") {
            ids = names(&row["ids"]);
            addrs = names(&row["addrs"]);
        } else {
            hist.push(row);
        }
    }
    // histories are independent: replay them on a few threads, write the results in input order
    let nthreads = std::thread::available_parallelism().map(|n| n.get()).unwrap_or(4).clamp(1, 8);
    let chunk = hist.len().div_ceil(nthreads).max(1);
    let results: Vec<Vec<Value>> = std::thread::scope(|sc| {
        let handles: Vec<_> = hist
            .chunks(chunk)
            .enumerate()
            .map(|(ci, part)| {
                let (ids, addrs) = (&ids, &addrs);
                sc.spawn(move || {
                    vh_core::quiet_panics();
                    part.iter().enumerate().map(|(j, row)| replay_one(ids, addrs, row, (ci * chunk + j) as u64)).collect::<Vec<Value>>()
                })
            })
            .collect();
        handles.into_iter().map(|h| h.join().expect("replay thread")).collect()
    });
    for part in results {
        for r in part {
            w.write(&r);
        }
    }
    w.finish();
}

fn record(evp: &str, sump: &str) {
    let mut rng = Rng::from_env();
    let runs: usize = std::env::var("VERIF_RUNS").ok().and_then(|s| s.parse().ok()).unwrap_or(20);
    let len: usize = std::env::var("VERIF_LEN").ok().and_then(|s| s.parse().ok()).unwrap_or(300);
    let keys: Vec<String> = (1..=4).map(|i| format!("k{i}")).collect();
    let ids: Vec<String> = (1..=8).map(|i| format!("i{i}")).collect();
    let addrs: Vec<String> = (1..=3).map(|i| format!("a{i}")).collect();
    let mut w = NdjsonWriter::create(evp);
    let mut wf = NdjsonWriter::create(&format!("{evp}.full"));
    w.write(&json!({"ev": "meta", "spec": "SnapTunnel", "seed": vh_core::seed_from_env(), "keys": keys, "ids": ids, "addrs": addrs}));
    let (mut nfwd, mut nenc, mut nhs, mut nev, mut nlapse) = (0usize, 0usize, 0usize, 0usize, 0usize);
    for run in 0..runs {
        w.write(&json!({"ev": "reset"}));
        wf.write(&json!({"ev": "reset", "run": run}));
        let mut world = World::new(&ids, &addrs);
        // each run concentrates on a few identities so that interesting interleavings are frequent
        let nid = 2 + rng.below(7) as usize;
        let nkey = 1 + rng.below(4) as usize;
        for step in 0..len {
            let a = rng.pick(&addrs).clone();
            let i = ids[rng.below(nid as u64) as usize].clone();
            let maxlife = if rng.chance(1, 2) { 3 } else { 9 };
            let act = match rng.below(100) {
                0..=19 => json!({"kind": "register", "k": keys[rng.below(nkey as u64) as usize], "id": i, "life": 1 + rng.below(maxlife)}),
                20..=27 => json!({"kind": "adv", "d": 1 + rng.below(3)}),
                28..=31 => json!({"kind": "purge"}),
                32..=45 => json!({"kind": "hs", "a": a, "id": i}),
                46..=72 => {
                    // data from a client that holds a session if there is one at this address
                    let have: Vec<String> = world.clients.keys().filter(|(aa, _)| *aa == a).map(|(_, ii)| ii.clone()).collect();
                    if have.is_empty() { json!({"kind": "hs", "a": a, "id": i}) } else { json!({"kind": "in", "a": a, "sender": rng.pick(&have).clone()}) }
                }
                73..=77 => json!({"kind": "forged", "a": a}),
                78..=96 => json!({"kind": "out", "a": a}),
                _ => json!({"kind": "timer"}),
            };
            let r = catch(|| {
                let o = world.step(&act, &mut rng);
                let snap = world.snapshot();
                (o, snap)
            });
            let (o, snap) = match r {
                Ok(x) => x,
                Err(p) => (json!({"kind": "panic", "what": p}), Value::Null),
            };
            nev += 1;
            if o["kind"] == "in" && o.get("nosession").is_some() {
                // not an event of the model (the client has no session); skip
                continue;
            }
            if o["fwd"] == true { nfwd += 1 }
            if o["enc"] == true { nenc += 1 }
            if o["kind"] == "hs" && o["res"].as_str().unwrap_or("").starts_with("accepted") { nhs += 1 }
            if (o["kind"] == "in" && o["fwd"] == false) || (o["kind"] == "out" && o["enc"] == false && o["id"] == "none") { nlapse += 1 }
            let auth: Vec<String> = snap["auth"].as_object().map(|m| m.iter().filter(|(_, v)| **v == true).map(|(k, _)| k.clone()).collect()).unwrap_or_default();
            w.write(&json!({"ev": "act", "run": run, "step": step, "o": o, "auth": auth}));
            wf.write(&json!({"run": run, "step": step, "act": act, "o": o, "snap": snap}));
            if o["kind"] == "panic" {
                break;
            }
        }
    }
    w.finish();
    wf.finish();
    std::fs::write(sump, serde_json::to_string(&json!({"runs": runs, "events": nev, "forwarded": nfwd, "encrypted": nenc,
        "handshakes_accepted": nhs, "blocked": nlapse})).unwrap()).unwrap();
}

// ------------------------------------------------------------------------------------------
// gateway: the real TunnelGateway loop over loopback UDP, end to end (C08 + C09, real time)
// ------------------------------------------------------------------------------------------

#[derive(Default)]
struct RecDispatcher {
    /// (when, bytes) of every packet handed to the dispatcher
    got: Mutex<Vec<(Instant, Vec<u8>)>>,
}
impl snap_dataplane::dispatcher::Dispatcher for RecDispatcher {
    fn try_dispatch(&self, packet: &sciparse::packet::view::ScionPacketView) {
        use sciparse::core::view::View;
        self.got.lock().unwrap().push((Instant::now(), packet.as_slice().to_vec()));
    }
}

/// hand-encoded SCION/UDP packet: IPv4 destination, IPv4 (4 bytes) or IPv6 (16 bytes) source, empty or one-hop path
fn scion_udp(src: &[u8], dst: [u8; 4], sport: u16, dport: u16, pt: u8, payload: &[u8]) -> Vec<u8> {
    let path: Vec<u8> = if pt == 2 { vec![0u8; 32] } else { vec![] };
    let hdr = 12 + 16 + 4 + src.len() + path.len();
    let l4 = 8 + payload.len();
    let st: u8 = if src.len() == 16 { 3 } else { 0 };
    let mut b = vec![0u8, 0, 0, 1, 17, (hdr / 4) as u8];
    b.extend_from_slice(&(l4 as u16).to_be_bytes());
    b.extend_from_slice(&[pt, st, 0, 0]);
    b.extend_from_slice(&[0, 1, 0xff, 0, 0, 0, 1, 0x10]);
    b.extend_from_slice(&[0, 1, 0xff, 0, 0, 0, 1, 0x10]);
    b.extend_from_slice(&dst);
    b.extend_from_slice(src);
    b.extend_from_slice(&path);
    b.extend_from_slice(&sport.to_be_bytes());
    b.extend_from_slice(&dport.to_be_bytes());
    b.extend_from_slice(&(l4 as u16).to_be_bytes());
    b.extend_from_slice(&[0, 0]);
    b.extend_from_slice(payload);
    b
}

// ---- control plane in front of the registry (composition with C10: lifetime = exp - now) ----
struct NoUnderlays;
impl snap_control::model::UnderlayDiscovery for NoUnderlays {
    fn list_snap_underlays(&self) -> Vec<snap_control::model::SnapUnderlay> {
        vec![]
    }
    fn list_udp_underlays(&self) -> Vec<snap_control::model::UdpUnderlay> {
        vec![]
    }
}
struct NoSegments;
#[async_trait::async_trait]
impl endhost_api_models::SegmentsDiscovery for NoSegments {
    async fn list_segments(
        &self,
        _src: sciparse::identifier::isd_asn::IsdAsn,
        _dst: sciparse::identifier::isd_asn::IsdAsn,
        _page_size: i32,
        _page_token: String,
    ) -> Result<sciparse::segment::SegmentsPage, endhost_api_models::SegmentsError> {
        Err(endhost_api_models::SegmentsError::InternalError("none".into()))
    }
}
struct NoResolver;
impl snap_control::api::crpc::model::SnapDataPlaneResolver for NoResolver {
    fn get_data_plane_address(
        &self,
        _ip: std::net::IpAddr,
    ) -> Result<snap_control::api::crpc::model::SnapDataPlane, (axum::http::StatusCode, anyhow::Error)> {
        Err((axum::http::StatusCode::NOT_FOUND, anyhow::anyhow!("none")))
    }
}

/// Register `identity` through the real control-plane router with a freshly signed v0 SNAP token
/// (token key = `jti`) that expires `exp_in` seconds from now.  Returns the HTTP status.
/// A freshly signed v0 SNAP token (token key = `jti`) that expires `exp_in` seconds from now.
fn make_token(sk: &ed25519_dalek::SigningKey, jti: &str, exp_in: u64) -> String {
    use base64::Engine;
    use ed25519_dalek::Signer;
    let b64 = base64::engine::general_purpose::URL_SAFE_NO_PAD;
    let now = std::time::SystemTime::now().duration_since(std::time::UNIX_EPOCH).unwrap().as_secs();
    let h = b64.encode(br#"{"typ":"JWT","alg":"EdDSA"}"#);
    let p = b64.encode(format!(r#"{{"pssid":"123e4567-e89b-12d3-a456-426614174000","exp":{},"jti":"{jti}"}}"#, now + exp_in));
    let msg = format!("{h}.{p}");
    format!("{msg}.{}", b64.encode(sk.sign(msg.as_bytes()).to_bytes()))
}

async fn register_via_control_plane(router: &axum::Router, sk: &ed25519_dalek::SigningKey, identity: Identity, jti: &str, exp_in: u64) -> u16 {
    let tok = make_token(sk, jti, exp_in);
    register_token(router, &tok, identity).await
}

/// POST RegisterSnapTunIdentity through the real control-plane router with the given bearer token.
async fn register_token(router: &axum::Router, tok: &str, identity: Identity) -> u16 {
    use prost::Message;
    use tower::ServiceExt;
    let body = snap_control::proto::anapaya::snap::v1::RegisterSnapTunIdentityRequest { initiator_static_x25519: identity.to_vec(), psk_share: vec![0u8; 32] }
        .encode_to_vec();
    let mut req = axum::http::Request::builder()
        .method("POST")
        .uri("/anapaya.snap.v1.SnapControl/RegisterSnapTunIdentity")
        .header("content-type", "application/proto")
        .header("authorization", format!("Bearer {tok}"))
        .body(axum::body::Body::from(body))
        .unwrap();
    req.extensions_mut().insert(axum::extract::ConnectInfo(SocketAddr::from(([127, 0, 0, 1], 4242))));
    match router.clone().oneshot(req).await {
        Ok(r) => r.status().as_u16(),
        Err(_) => 0,
    }
}

fn gateway(outp: &str) {
    use snap_dataplane::dispatcher::Dispatcher as _;
    use snap_dataplane::tunnel_gateway::{
        NoopTunnelGatewayObserver, dispatcher::TunnelGatewayDispatcher, gateway::TunnelGateway, metrics::TunnelGatewayDispatcherMetrics,
    };
    // The tokens expire LIFE s after issue; the registration lifetime granted by the control plane is exp - now,
    // i.e. in (LIFE-1, LIFE].  Robustness against slow machines: every datagram carries a unique tag; what was
    // dispatched / answered / delivered is attributed by CONTENT and judged by the TIMESTAMP of the observation
    // (not by the step during which it happened to be noticed).  Only observations that are unambiguous
    // whatever the scheduling are reported as `bad` (the check turns those into violations):
    //   * a datagram SENT >= 5 s after the expiry and dispatched BEFORE the re-registration call started,
    //   * a datagram sent after the supersession call returned and dispatched at any time,
    //   * the same for outbound packets that reach the client and for SCMP replies quoting such datagrams.
    // Everything else (late or missing positive observations) is reported as data for drift.
    const LIFE: u64 = 12;
    let rt = tokio::runtime::Builder::new_multi_thread().worker_threads(2).enable_all().build().expect("runtime");
    let result = rt.block_on(async move {
        let reg = Arc::new(IdentityRegistry::new());
        let sock = tokio::net::UdpSocket::bind("127.0.0.1:0").await.expect("bind");
        let gw_addr = sock.local_addr().unwrap();
        let server_secret = x25519::StaticSecret::from([0xA5u8; 32]);
        let server_pub = x25519::PublicKey::from(&server_secret);
        let disp = Arc::new(RecDispatcher::default());
        let (tgd, rx) = TunnelGatewayDispatcher::new(TunnelGatewayDispatcherMetrics::new(&scion_sdk_observability::metrics::registry::MetricsRegistry::new()));
        let gw = TunnelGateway::new(sock, server_secret, reg.clone(), disp.clone(), Arc::new(NoopTunnelGatewayObserver), rx);
        let cancel = tokio_util::sync::CancellationToken::new();
        let task = tokio::spawn(gw.start_server(cancel.clone()));

        let csock = tokio::net::UdpSocket::bind("127.0.0.1:0").await.expect("bind client");
        let caddr = csock.local_addr().unwrap();
        let mk_client = |seed: u8| {
            let mut s = [0x22u8; 32];
            s[7] = seed;
            let sk = x25519::StaticSecret::from(s);
            let pk = x25519::PublicKey::from(&sk);
            let rl = Arc::new(RateLimiter::new(&pk, 1_000_000));
            (Tunn::new(sk, server_pub, None, None, seed as u32, rl, gw_addr), *pk.as_bytes())
        };
        let (mut tunn, id1) = mk_client(1);
        let (_tunn2, id2) = mk_client(2);
        let ip4 = [127u8, 0, 0, 1];

        // everything the client decrypted: (when, payload); protocol messages are counted separately
        let mut received: Vec<(Instant, Vec<u8>)> = vec![];
        let mut protocol_msgs = 0usize;
        // drain the client socket for `ms` milliseconds
        macro_rules! drain {
            ($ms:expr) => {{
                let until = Instant::now() + Duration::from_millis($ms);
                loop {
                    let left = until.saturating_duration_since(Instant::now());
                    if left.is_zero() {
                        break;
                    }
                    let mut buf = vec![0u8; 10000];
                    match tokio::time::timeout(left, csock.recv_from(&mut buf)).await {
                        Ok(Ok((n, _))) => match Packet::copy_from(&buf[..n]).try_into_wg() {
                            Ok(k) => match tunn.handle_incoming_packet(k) {
                                TunnResult::WriteToTunnel(p) if !p.is_empty() => received.push((Instant::now(), p[..].to_vec())),
                                TunnResult::WriteToNetwork(k2) => {
                                    // timer-driven WireGuard traffic (e.g. a server-initiated re-handshake): answer it
                                    protocol_msgs += 1;
                                    let b = wg_bytes(k2);
                                    let _ = csock.send_to(&b[..], gw_addr).await;
                                }
                                _ => protocol_msgs += 1,
                            },
                            Err(_) => protocol_msgs += 1,
                        },
                        _ => break,
                    }
                }
            }};
        }
        struct Sent {
            step: String,
            tag: String,
            dg: Vec<u8>,
            at: Instant,
            sent: bool,
            outbound: bool,
        }
        let mut sent: Vec<Sent> = vec![];
        // tunnelled datagram from the client
        macro_rules! through {
            ($step:expr, $src:expr, $pt:expr, $ver:expr) => {{
                let tag = format!("<{}>", $step);
                let mut dg = scion_udp(&$src[..], [10, 0, 0, 9], caddr.port(), 555, $pt, tag.as_bytes());
                dg[0] |= $ver << 4;
                let out = tunn.handle_outgoing_packet(Packet::copy_from(&dg[..]));
                let mut ok = false;
                if let Some(WgKind::Data(d)) = out {
                    let bytes: Packet = d.into_bytes();
                    ok = csock.send_to(&bytes[..], gw_addr).await.is_ok();
                }
                sent.push(Sent { step: $step.to_string(), tag, dg, at: Instant::now(), sent: ok, outbound: false });
                drain!(400);
            }};
        }
        // SCION packet for the client entering the gateway's outbound queue
        macro_rules! outbound {
            ($step:expr) => {{
                let tag = format!("<{}>", $step);
                let pkt = scion_udp(&[10, 0, 0, 9], ip4, 555, caddr.port(), 0, tag.as_bytes());
                let queued = {
                    use sciparse::core::view::View;
                    match sciparse::packet::view::ScionPacketView::try_from_slice(&pkt) {
                        Ok((v, _)) => {
                            tgd.try_dispatch(v);
                            true
                        }
                        Err(_) => false,
                    }
                };
                sent.push(Sent { step: $step.to_string(), tag, dg: pkt, at: Instant::now(), sent: queued, outbound: true });
                drain!(400);
            }};
        }

        // the control plane: real router (auth middleware + RegisterSnapTunIdentity handler) in front of the real registry
        let sk = ed25519_dalek::SigningKey::from_bytes(&[0x51; 32]);
        let verifier = {
            use ed25519_dalek::pkcs8::EncodePublicKey;
            let pem = sk.verifying_key().to_public_key_pem(Default::default()).expect("pem");
            snap_control::server::SnapTokenVerifier::new(jsonwebtoken::DecodingKey::from_ed_pem(pem.as_bytes()).expect("key"))
        };
        let router = snap_control::server::build_router(
            NoUnderlays,
            "http://127.0.0.1:1/".parse().unwrap(),
            NoSegments,
            NoResolver,
            reg.clone(),
            None,
            verifier,
            snap_control::server::metrics::Metrics::new(&scion_sdk_observability::metrics::registry::MetricsRegistry::new()),
        )
        .expect("router");
        let mut statuses = serde_json::Map::new();
        let t0 = Instant::now();
        let st = register_via_control_plane(&router, &sk, id1, "token-1", LIFE).await;
        statuses.insert("register".into(), json!(st));
        let t_registered = Instant::now();
        // handshake over UDP (retry: a busy machine may drop or delay the first attempt)
        let mut hs_ok = false;
        for _ in 0..3 {
            let Some(init) = tunn.format_handshake_initiation(true) else { break };
            let ib: Packet = init.into_bytes();
            let _ = csock.send_to(&ib[..], gw_addr).await;
            let mut buf = vec![0u8; 10000];
            if let Ok(Ok((n, _))) = tokio::time::timeout(Duration::from_millis(1500), csock.recv_from(&mut buf)).await {
                if let Ok(k) = Packet::copy_from(&buf[..n]).try_into_wg() {
                    if let TunnResult::WriteToNetwork(ka) = tunn.handle_incoming_packet(k) {
                        let kb = wg_bytes(ka);
                        let _ = csock.send_to(&kb[..], gw_addr).await;
                        hs_ok = true;
                        break;
                    }
                }
            }
            tokio::time::sleep(Duration::from_millis(50)).await;
        }
        tokio::time::sleep(Duration::from_millis(150)).await;
        through!("authorised:good", ip4, 0u8, 0u8);
        through!("authorised:spoofed-source", [10, 9, 9, 9], 0u8, 0u8);
        through!("authorised:onehop-path", ip4, 2u8, 0u8);
        through!("authorised:garbage", ip4, 0u8, 5u8);
        // the peer's IPv4 address written as an IPv4-mapped IPv6 source (other family): not the peer's address
        let twin: [u8; 16] = [0, 0, 0, 0, 0, 0, 0, 0, 0, 0, 0xff, 0xff, 127, 0, 0, 1];
        through!("authorised:mapped-twin", twin, 0u8, 0u8);
        outbound!("authorised:outbound");
        drain!(300);
        let authorised_done = t0.elapsed().as_secs_f64();
        // lapse: the registration ends at the latest LIFE s after the register call RETURNED; wait 5 s more
        let lapse_from = t_registered + Duration::from_secs(LIFE + 5);
        let nowi = Instant::now();
        if nowi < lapse_from {
            let d = lapse_from - nowi;
            // keep draining while waiting (late replies, keepalives)
            drain!(d.as_millis() as u64);
        }
        through!("lapsed:good", ip4, 0u8, 0u8);
        through!("lapsed:spoofed-source", [10, 9, 9, 9], 0u8, 0u8);
        outbound!("lapsed:outbound");
        drain!(1500);
        // the identity registers again: traffic resumes on the existing WireGuard session
        let t_rereg_start = Instant::now();
        let st = register_via_control_plane(&router, &sk, id1, "token-1", LIFE).await;
        statuses.insert("reregister".into(), json!(st));
        let t_rereg_done = Instant::now();
        through!("reregistered:good", ip4, 0u8, 0u8);
        outbound!("reregistered:outbound");
        drain!(300);
        let rereg_phase_s = t_rereg_done.elapsed().as_secs_f64();
        // superseded by another identity under the same token key
        let st = register_via_control_plane(&router, &sk, id2, "token-1", LIFE).await;
        statuses.insert("supersede".into(), json!(st));
        through!("superseded:good", ip4, 0u8, 0u8);
        outbound!("superseded:outbound");
        drain!(2000);
        cancel.cancel();
        let _ = tokio::time::timeout(Duration::from_secs(2), task).await;

        // ---- attribution by content and time
        let dispatched = disp.got.lock().unwrap().clone();
        let contains = |hay: &[u8], needle: &[u8]| hay.windows(needle.len()).any(|w| w == needle);
        let mut steps = vec![];
        for s_ in &sent {
            let lapsed = s_.step.starts_with("lapsed");
            // an observation for a lapsed-phase item only counts if it happened before the re-registration started
            let counts = |t: &Instant| !lapsed || *t < t_rereg_start;
            let mut o = json!({"step": s_.step, "sent": s_.sent});
            if s_.outbound {
                let all: Vec<&(Instant, Vec<u8>)> = received.iter().filter(|(_, p)| *p == s_.dg).collect();
                o["delivered"] = json!(all.len());
                o["delivered_counted"] = json!(all.iter().filter(|(t, _)| counts(t)).count());
            } else {
                let all: Vec<&(Instant, Vec<u8>)> = dispatched.iter().filter(|(_, p)| *p == s_.dg).collect();
                o["dispatched"] = json!(all.len());
                o["dispatched_counted"] = json!(all.iter().filter(|(t, _)| counts(t)).count());
                // SCMP replies quoting this datagram
                let reps: Vec<Value> = received
                    .iter()
                    .filter(|(_, p)| p.len() > 12 && p[4] == 202 && contains(p, s_.tag.as_bytes()))
                    .map(|(t, p)| {
                        let hl = p[5] as usize * 4;
                        let ok = p.len() >= hl + 8;
                        json!({"len": p.len(), "scmp_type": if ok { json!(p[hl]) } else { Value::Null }, "scmp_code": if ok { json!(p[hl + 1]) } else { Value::Null },
                               "counted": counts(t)})
                    })
                    .collect();
                o["replies"] = json!(reps);
            }
            let _ = s_.at;
            steps.push(o);
        }
        // payloads that reached the client and belong to no step (must not happen)
        let stray: Vec<String> = received
            .iter()
            .filter(|(_, p)| !sent.iter().any(|s_| *p == s_.dg || (p.len() > 12 && p[4] == 202 && contains(p, s_.tag.as_bytes()))))
            .map(|(_, p)| p.iter().take(32).map(|x| format!("{x:02x}")).collect::<String>())
            .collect();
        json!({"life": LIFE, "handshake": hs_ok, "statuses": statuses, "authorised_phase_done_at_s": authorised_done,
               "reregistered_phase_took_s": rereg_phase_s, "protocol_msgs": protocol_msgs, "stray": stray, "log": steps})
    });
    std::fs::write(outp, serde_json::to_string(&result).unwrap()).unwrap();
}

// ------------------------------------------------------------------------------------------
// client: the real client side of the tunnel (snap-tun/src/client*: SnapTunEndpoint with its identity
// registration loop, SnapTunnel driver) against the real gateway and control plane, in real time
// ------------------------------------------------------------------------------------------

/// control-plane client of the endpoint: registers through the real router with the token source's current token
struct RouterCpClient {
    router: axum::Router,
    tokens: Arc<dyn reqwest_connect_rpc::token_source::TokenSource>,
    log: Arc<Mutex<Vec<(Instant, String, u16)>>>,
}
#[async_trait::async_trait]
impl snap_tun::client::SnapTunControlPlaneClient for RouterCpClient {
    async fn register_identity(
        &self,
        identity: x25519::PublicKey,
        _psk_share: Option<[u8; 32]>,
    ) -> Result<Option<[u8; 32]>, reqwest_connect_rpc::client::CrpcClientError> {
        let tok = self.tokens.get_token().await.unwrap_or_default();
        let st = register_token(&self.router, &tok, *identity.as_bytes()).await;
        let jti = tok.split('.').nth(1).and_then(|p| {
            use base64::Engine;
            base64::engine::general_purpose::URL_SAFE_NO_PAD.decode(p).ok()
        });
        let jti = jti.and_then(|b| serde_json::from_slice::<Value>(&b).ok()).and_then(|v| v["jti"].as_str().map(|s| s.to_string())).unwrap_or_default();
        self.log.lock().unwrap().push((Instant::now(), jti, st));
        Ok(None)
    }
}

fn client_scenario(outp: &str) {
    use reqwest_connect_rpc::token_source::mock::MockTokenSource;
    use snap_dataplane::dispatcher::Dispatcher as _;
    use snap_dataplane::tunnel_gateway::{
        NoopTunnelGatewayObserver, dispatcher::TunnelGatewayDispatcher, gateway::TunnelGateway, metrics::TunnelGatewayDispatcherMetrics,
    };
    // token 1 lives LIFE1 s; it is renewed (token 2, LIFE2 s, another jti) well before it expires; then nothing more.
    //   phase A  (<= LIFE1 - 6 s)            traffic flows
    //   phase B  (>= LIFE1 + 5 s after the first registration, <= LIFE2 - 6 s after the renewal)
    //            token 1 has lapsed, the renewal keeps the identity registered: traffic must still flow
    //   phase C  (>= LIFE2 + 5 s after the renewal registration)   nothing flows any more
    const LIFE1: u64 = 12;
    const LIFE2: u64 = 24;
    let rt = tokio::runtime::Builder::new_multi_thread().worker_threads(2).enable_all().build().expect("runtime");
    let result = rt.block_on(async move {
        let reg = Arc::new(IdentityRegistry::new());
        let sock = tokio::net::UdpSocket::bind("127.0.0.1:0").await.expect("bind");
        let gw_addr = sock.local_addr().unwrap();
        let server_secret = x25519::StaticSecret::from([0xA5u8; 32]);
        let server_pub = x25519::PublicKey::from(&server_secret);
        let disp = Arc::new(RecDispatcher::default());
        let (tgd, rx) = TunnelGatewayDispatcher::new(TunnelGatewayDispatcherMetrics::new(&scion_sdk_observability::metrics::registry::MetricsRegistry::new()));
        let gw = TunnelGateway::new(sock, server_secret, reg.clone(), disp.clone(), Arc::new(NoopTunnelGatewayObserver), rx);
        let cancel = tokio_util::sync::CancellationToken::new();
        let task = tokio::spawn(gw.start_server(cancel.clone()));
        let sk = ed25519_dalek::SigningKey::from_bytes(&[0x51; 32]);
        let verifier = {
            use ed25519_dalek::pkcs8::EncodePublicKey;
            let pem = sk.verifying_key().to_public_key_pem(Default::default()).expect("pem");
            snap_control::server::SnapTokenVerifier::new(jsonwebtoken::DecodingKey::from_ed_pem(pem.as_bytes()).expect("key"))
        };
        let router = snap_control::server::build_router(
            NoUnderlays,
            "http://127.0.0.1:1/".parse().unwrap(),
            NoSegments,
            NoResolver,
            reg.clone(),
            None,
            verifier,
            snap_control::server::metrics::Metrics::new(&scion_sdk_observability::metrics::registry::MetricsRegistry::new()),
        )
        .expect("router");

        // ---- the real client
        let client_secret = x25519::StaticSecret::from([0x33u8; 32]);
        let client_id: Identity = *x25519::PublicKey::from(&client_secret).as_bytes();
        let tokens = Arc::new(MockTokenSource::new(make_token(&sk, "tok-1", LIFE1)));
        let cplog = Arc::new(Mutex::new(vec![]));
        let cp = Arc::new(RouterCpClient { router: router.clone(), tokens: tokens.clone(), log: cplog.clone() });
        let endpoint = snap_tun::client::SnapTunEndpoint::new(tokens.clone(), client_secret);
        let csock = Arc::new(tokio::net::UdpSocket::bind("127.0.0.1:0").await.expect("bind client"));
        let caddr = csock.local_addr().unwrap();
        let pool = ana_gotatun::packet::PacketBufPool::<{ snap_tun::client::PACKET_BUF_POOL_SIZE }>::new(64);
        let t0 = Instant::now();
        let tunnel = match tokio::time::timeout(
            Duration::from_secs(20),
            endpoint.connect_tunnel(server_pub, gw_addr, "http://127.0.0.1:1/".parse().unwrap(), cp.clone(), csock.clone(), 256, pool),
        )
        .await
        {
            Ok(Ok(t)) => t,
            other => {
                let why = match other {
                    Ok(Err(e)) => format!("{e}"),
                    _ => "timeout".to_string(),
                };
                return json!({"connected": false, "why": why});
            }
        };
        let t_reg1 = Instant::now(); // the first registration happened before this instant
        let ip4 = [127u8, 0, 0, 1];
        struct Sent {
            step: String,
            dg: Vec<u8>,
            outbound: bool,
        }
        let mut sent: Vec<Sent> = vec![];
        let mut received: Vec<(Instant, Vec<u8>)> = vec![];
        macro_rules! drain {
            ($ms:expr) => {{
                let until = Instant::now() + Duration::from_millis($ms);
                loop {
                    let left = until.saturating_duration_since(Instant::now());
                    if left.is_zero() {
                        break;
                    }
                    match tokio::time::timeout(left, tunnel.recv()).await {
                        Ok(Ok(b)) => received.push((Instant::now(), b.to_vec())),
                        _ => break,
                    }
                }
            }};
        }
        macro_rules! both {
            ($phase:expr) => {{
                let tag = format!("<{}:in>", $phase);
                let dg = scion_udp(&ip4, [10, 0, 0, 9], caddr.port(), 555, 0, tag.as_bytes());
                let _ = tunnel.send(Packet::copy_from(&dg[..])).await;
                sent.push(Sent { step: format!("{}:in", $phase), dg, outbound: false });
                let tag = format!("<{}:out>", $phase);
                let pkt = scion_udp(&[10, 0, 0, 9], ip4, 555, caddr.port(), 0, tag.as_bytes());
                {
                    use sciparse::core::view::View;
                    if let Ok((v, _)) = sciparse::packet::view::ScionPacketView::try_from_slice(&pkt) {
                        tgd.try_dispatch(v);
                    }
                }
                sent.push(Sent { step: format!("{}:out", $phase), dg: pkt, outbound: true });
                drain!(500);
            }};
        }
        let auth_probe = |label: &str, probes: &mut Vec<Value>| {
            probes.push(json!({"at": label, "t": t0.elapsed().as_secs_f64(), "authorised": reg.has_authorization(Instant::now(), &client_id)}));
        };
        let mut probes = vec![];
        auth_probe("A", &mut probes);
        both!("A");
        let a_done = t_reg1.elapsed().as_secs_f64();
        // the token source publishes the renewed token: the endpoint's registration loop must re-register
        tokio::time::sleep(Duration::from_millis(500)).await;
        tokens.update_token(make_token(&sk, "tok-2", LIFE2));
        let t_renew = Instant::now();
        // wait (bounded) until the loop has called the control plane with the new token
        let mut renewed_after = None;
        for _ in 0..100 {
            if cplog.lock().unwrap().iter().any(|(_, j, _)| j == "tok-2") {
                renewed_after = Some(t_renew.elapsed().as_secs_f64());
                break;
            }
            tokio::time::sleep(Duration::from_millis(50)).await;
        }
        let t_reg2 = Instant::now(); // the renewal registration (if any) happened before this instant
        let snap_after_renew = reg.verif_snapshot();
        // phase B: >= 5 s after token 1's registration ended
        let b_from = t_reg1 + Duration::from_secs(LIFE1 + 5);
        let n = Instant::now();
        if n < b_from {
            let d = (b_from - n).as_millis() as u64;
            drain!(d);
        }
        auth_probe("B", &mut probes);
        let b_start = t_renew.elapsed().as_secs_f64();
        both!("B");
        let b_done = t_renew.elapsed().as_secs_f64();
        // phase C: >= 5 s after the renewed registration ended
        let c_from = t_reg2 + Duration::from_secs(LIFE2 + 5);
        let n = Instant::now();
        if n < c_from {
            let d = (c_from - n).as_millis() as u64;
            drain!(d);
        }
        auth_probe("C", &mut probes);
        let c_start = t0.elapsed().as_secs_f64();
        both!("C");
        drain!(1500);
        cancel.cancel();
        let _ = tokio::time::timeout(Duration::from_secs(2), task).await;
        let dispatched = disp.got.lock().unwrap().clone();
        let steps: Vec<Value> = sent
            .iter()
            .map(|s_| {
                let n = if s_.outbound { received.iter().filter(|(_, p)| *p == s_.dg).count() } else { dispatched.iter().filter(|(_, p)| *p == s_.dg).count() };
                json!({"step": s_.step, "count": n})
            })
            .collect();
        let cps: Vec<Value> = cplog.lock().unwrap().iter().map(|(t, j, st)| json!({"t": t.duration_since(t0).as_secs_f64(), "jti": j, "status": st})).collect();
        let assoc: Vec<Value> = snap_after_renew.0.iter().map(|(k, id)| json!([k, id == &client_id])).collect();
        json!({"connected": true, "life1": LIFE1, "life2": LIFE2, "phase_a_done_s": a_done, "renewed_after_s": renewed_after,
               "phase_b_start_s": b_start, "phase_b_done_s": b_done, "phase_c_start_s": c_start, "probes": probes, "control_plane_calls": cps,
               "assoc_after_renew": assoc, "sessions_after_renew": snap_after_renew.1.len(), "log": steps})
    });
    std::fs::write(outp, serde_json::to_string(&result).unwrap()).unwrap();
}

// ------------------------------------------------------------------------------------------
// refresher: the real RefreshTokenSource (reqwest-connect-rpc/src/token_source/refresh.rs) in real time,
// with a scripted TokenRefresher; timestamped events for Trace_TokenRefresh.tla
// ------------------------------------------------------------------------------------------

fn refresher_scenario(evp: &str) {
    use reqwest_connect_rpc::token_source::{
        TokenSource, TokenSourceError,
        refresh::{RefreshTokenSource, TokenWithExpiry},
    };
    // all decisions of the loop are >= 5 s away from their boundaries (see the script below)
    const THR: u64 = 14_000;
    const MINLIFE: u64 = 6_000;
    const RETRY: u64 = 13_000;
    // script per call: (latency ms, Some(lifetime ms) | None = error)
    //  1: ok 30 s          -> published; next call at exp-14 s = 16 s
    //  2: ok 30 s, 1 s lat -> published (old token still valid for 13 s); next call 14 s before its expiry
    //  3: error            -> 14 s left > MINLIFE: the token is kept; retry 13 s later
    //  4: error            -> 1 s left <= MINLIFE: the error is published, token dropped; retry 13 s later
    //  5: ok 1 s           -> too close to expiry: ignored; retry 13 s later
    //  6: ok 30 s          -> published
    let script: Vec<(u64, Option<u64>)> = vec![(0, Some(30_000)), (1_000, Some(30_000)), (0, None), (0, None), (0, Some(1_000)), (0, Some(30_000))];
    let rt = tokio::runtime::Builder::new_multi_thread().worker_threads(2).enable_all().build().expect("runtime");
    rt.block_on(async move {
        let t0 = Instant::now();
        let events: Arc<Mutex<Vec<Value>>> = Arc::new(Mutex::new(vec![json!({"ev": "meta", "spec": "TokenRefresh", "thr": THR, "minlife": MINLIFE, "retry": RETRY})]));
        let ms = move |t: Instant| t.duration_since(t0).as_millis() as u64;
        let calls = Arc::new(AtomicU64::new(0));
        let (ev2, calls2, script2) = (events.clone(), calls.clone(), script.clone());
        let refresher = move || {
            let (events, calls, script) = (ev2.clone(), calls2.clone(), script2.clone());
            async move {
                let n = calls.fetch_add(1, Ordering::SeqCst) as usize;
                events.lock().unwrap().push(json!({"ev": "start", "t": ms(Instant::now()), "n": n + 1}));
                let (lat, life) = script.get(n).cloned().unwrap_or((0, Some(600_000)));
                if lat > 0 {
                    tokio::time::sleep(Duration::from_millis(lat)).await;
                }
                let now = Instant::now();
                match life {
                    Some(l) => {
                        let exp = now + Duration::from_millis(l);
                        events.lock().unwrap().push(json!({"ev": "end", "t": ms(now), "n": n + 1, "ok": true, "exp": ms(exp)}));
                        Ok(TokenWithExpiry { token: format!("token-{}-exp-{}", n + 1, ms(exp)), expires_at: exp })
                    }
                    None => {
                        events.lock().unwrap().push(json!({"ev": "end", "t": ms(now), "n": n + 1, "ok": false, "exp": 0}));
                        let e: TokenSourceError = "scripted refresh failure".into();
                        Err(e)
                    }
                }
            }
        };
        let src = RefreshTokenSource::builder("verif", refresher)
            .refresh_threshold(Duration::from_millis(THR))
            .min_token_lifetime(Duration::from_millis(MINLIFE))
            .refresh_retry_delay(Duration::from_millis(RETRY))
            .build();
        // watcher: every published value
        let mut watch = src.watch();
        let evw = events.clone();
        let watcher = tokio::spawn(async move {
            loop {
                if watch.changed().await.is_err() {
                    break;
                }
                let v = watch.borrow_and_update().clone_for_log();
                evw.lock().unwrap().push(json!({"ev": "pub", "t": ms(Instant::now()), "ok": v.0, "exp": v.1}));
            }
        });
        // run until the script is through (bounded)
        let deadline = Instant::now() + Duration::from_secs(110);
        while Instant::now() < deadline && calls.load(Ordering::SeqCst) < script.len() as u64 {
            tokio::time::sleep(Duration::from_millis(200)).await;
        }
        tokio::time::sleep(Duration::from_millis(1500)).await;
        drop(src);
        watcher.abort();
        let evs = events.lock().unwrap().clone();
        let mut w = NdjsonWriter::create(evp);
        // the event list is appended from two tasks: order by time (stable), meta first
        let mut rest: Vec<Value> = evs[1..].to_vec();
        rest.sort_by_key(|e| e["t"].as_u64().unwrap_or(0));
        w.write(&evs[0]);
        for e in rest {
            w.write(&e);
        }
        w.finish();
    });
}

trait CloneForLog {
    fn clone_for_log(&self) -> (bool, u64);
}
impl CloneForLog for Option<Result<String, reqwest_connect_rpc::token_source::TokenSourceError>> {
    /// (is a token, expiry in ms encoded in the scripted token string)
    fn clone_for_log(&self) -> (bool, u64) {
        match self {
            Some(Ok(t)) => (true, t.rsplit('-').next().and_then(|x| x.parse().ok()).unwrap_or(0)),
            _ => (false, 0),
        }
    }
}

fn main() {
    let a: Vec<String> = std::env::args().collect();
    if std::env::var("VERIF_LOUD").is_err() {
        vh_core::quiet_panics();
    }
    match a.get(1).map(|s| s.as_str()) {
        Some("replay") if a.len() == 4 => replay(&a[2], &a[3]),
        Some("record") if a.len() == 4 => record(&a[2], &a[3]),
        Some("gateway") if a.len() == 3 => gateway(&a[2]),
        Some("client") if a.len() == 3 => client_scenario(&a[2]),
        Some("refresher") if a.len() == 3 => refresher_scenario(&a[2]),
        _ => {
            eprintln!("usage: snaptunnel replay <hist.ndjson> <out.ndjson> | record <events.ndjson> <summary.json> | gateway <out.json>");
            std::process::exit(2);
        }
    }
}
