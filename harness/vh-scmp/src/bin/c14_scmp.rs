//! C14 harness: SCMP quoting / checksum / reply decision / socket receive path on the REAL code.
//!
//!   c14_scmp quote  <cells.ndjson> <out.ndjson>    spec->impl: error packets through every constructor
//!   c14_scmp reply  <cells.ndjson> <out.ndjson>    spec->impl: every message descriptor into the handlers
//!   c14_scmp router <cells.ndjson> <out.ndjson>    spec->impl: offending packets at a simulated router
//!   c14_scmp socket <behaviours.ndjson> <out.ndjson> spec->impl: arrival sequences on the real socket
//!   c14_scmp record <events.ndjson> <results.json> impl->spec: seeded random executions as a trace
//!
//! All facts reported about packets (lengths, quote, checksum, reversal) are computed with the
//! independent reference code in vh_scmp::wire, never with the code under test.
#![allow(unused_imports, dead_code)]
use std::{
    net::{IpAddr, Ipv4Addr, Ipv6Addr, SocketAddr},
    sync::{Arc, Mutex},
};

use pocketscion::network::{
    local::{
        external_as_registry::ExternalAsRegistry, receiver_registry::NetworkReceiverRegistry, receivers::Receiver,
        simulator::LocalNetworkSimulation,
    },
    scion::{
        routing::{LocalAsRoutingAction, ScionNetworkTime},
        topology::ScionRouter,
        util::test_topology_ext::TestPathContextTopologyExt,
    },
    simulator::NetworkSimulator,
};
use scion_stack::stack::{
    scmp_handler::{DefaultEchoHandler, ScmpErrorReceiver, ScmpHandler},
    socket::verif as sockhook,
};
use sciparse::{
    address::{addr::ScionAddr, host_addr::ScionHostAddr, ip_socket_addr::ScionSocketIpAddr},
    core::{model::Model, view::View},
    dataplane_path::{
        model::DpPath,
        view::{ScionDpPathViewExt, ScionDpPathViewRef},
    },
    identifier::{asn::Asn, isd::Isd, isd_asn::IsdAsn},
    packet::{
        model::{ScionRawPacket, ScionScmpPacket},
        view::ScionRawPacketView,
    },
    payload::{
        ProtocolNumber,
        scmp::{
            model::{
                ScmpDestinationUnreachable, ScmpErrorMessage, ScmpExternalInterfaceDown, ScmpInternalConnectivityDown,
                ScmpMessage, ScmpPacketTooBig, ScmpParameterProblem,
            },
            types::{ScmpDestinationUnreachableCode, ScmpParameterProblemCode},
        },
    },
    util::test_builder::{TestPathBuilder, TestPathContext},
};
use serde_json::{Value, json};
use vh_core::{NdjsonWriter, Rng, catch, quiet_panics, read_ndjson, seed_from_env, tier_is_thorough};
use vh_scmp::wire::{self, Hdr};

// =================================================================================================
// builders shared by all subcommands
// =================================================================================================

fn ia(isd: u16, asn: u64) -> IsdAsn {
    IsdAsn::new(Isd(isd), Asn(asn))
}
fn ia_bytes(isd: u16, asn: u64) -> [u8; 8] {
    let v = ((isd as u64) << 48) | asn;
    v.to_be_bytes()
}
fn v4(a: u8, b: u8, c: u8, d: u8) -> ScionHostAddr {
    ScionHostAddr::V4(Ipv4Addr::new(a, b, c, d))
}
fn v6(x: u16) -> ScionHostAddr {
    ScionHostAddr::V6(Ipv6Addr::new(0x2001, 0xdb8, 0, 0, 0, 0, 0, x))
}

/// raw bytes of a standard path with the given segment lengths and pointers; hop fields are random
fn std_path_bytes(seglens: [usize; 3], ci: usize, ch: usize, rng: &mut Rng) -> Vec<u8> {
    let nseg = seglens.iter().filter(|&&x| x > 0).count();
    let nh: usize = seglens.iter().sum();
    let meta: u32 = ((ci as u32) << 30) | ((ch as u32) << 24) | ((seglens[0] as u32) << 12) | ((seglens[1] as u32) << 6) | seglens[2] as u32;
    let mut p = meta.to_be_bytes().to_vec();
    for _ in 0..nseg {
        let mut inf = rng.bytes(8);
        inf[0] &= 0x01; // only ConsDir (peering flag would change router semantics, irrelevant here)
        inf[1] = 0;
        p.extend_from_slice(&inf);
    }
    for _ in 0..nh {
        let mut h = rng.bytes(12);
        h[0] = 0; // no router alerts
        p.extend_from_slice(&h);
    }
    p
}

/// segment lengths of a standard path of exactly `plen` bytes, if one exists
fn std_seglens_for(plen: usize, prefer_segs: usize) -> Option<[usize; 3]> {
    let mut order = vec![prefer_segs];
    for s in 1..=3 {
        if s != prefer_segs {
            order.push(s);
        }
    }
    for s in order {
        if plen < 4 + 8 * s + 12 * s {
            continue;
        }
        let rest = plen - 4 - 8 * s;
        if rest % 12 != 0 {
            continue;
        }
        let h = rest / 12;
        // CurrHF is a 6-bit index: at most 64 hop fields are addressable
        if h < s || h > 63 * s || h > 64 {
            continue;
        }
        // distribute h hops over s segments, each 1..=63
        let mut sl = [0usize; 3];
        let mut left = h;
        for i in 0..s {
            let remaining_segs = s - i - 1;
            let take = (left - remaining_segs).min(63);
            sl[i] = take;
            left -= take;
        }
        if left == 0 {
            return Some(sl);
        }
    }
    None
}

/// the SDK model of a path given as wire bytes (goes through the SDK's own parser on a carrier packet)
fn dp_path_from_bytes(ptype: u8, path: &[u8]) -> Option<DpPath> {
    let b = wire::build_packet(17, ptype, (0, 0), (0, 0), ia_bytes(1, 1), ia_bytes(1, 2), &[10, 0, 0, 1], &[10, 0, 0, 2], path, &[]);
    let (v, _) = ScionRawPacketView::try_from_slice(&b).ok()?;
    Some(v.header().path().to_model())
}

#[derive(Clone)]
struct Shape {
    name: String,
    src: ScionAddr,
    dst: ScionAddr,
    path: DpPath,
    ptype: u8,
    path_bytes: Vec<u8>,
}

fn host_len(h: &ScionHostAddr) -> usize {
    match h {
        ScionHostAddr::V4(_) => 4,
        ScionHostAddr::V6(_) => 16,
        ScionHostAddr::Svc(_) => 4,
    }
}

/// header shapes (addresses + path) whose encoded SCION header is exactly `hdr` bytes
fn shapes_for_hdr(hdr: usize, rng: &mut Rng) -> Vec<Shape> {
    let mut out = vec![];
    let combos: [(&str, ScionHostAddr, ScionHostAddr); 3] =
        [("v4v4", v4(192, 0, 2, 1), v4(198, 51, 100, 7)), ("v4v6", v4(192, 0, 2, 1), v6(7)), ("v6v6", v6(1), v6(7))];
    for (cn, s, d) in combos.iter() {
        let a = 16 + host_len(s) + host_len(d);
        if hdr < 12 + a {
            continue;
        }
        let plen = hdr - 12 - a;
        let src = ScionAddr::new(ia(1, 0xff00_0000_0110), *s);
        let dst = ScionAddr::new(ia(2, 0xff00_0000_0220), *d);
        if plen == 0 {
            out.push(Shape { name: format!("{cn}/empty"), src, dst, path: DpPath::Empty, ptype: 0, path_bytes: vec![] });
            continue;
        }
        let prefer = 1 + rng.below(3) as usize;
        if let Some(sl) = std_seglens_for(plen, prefer) {
            let nseg = sl.iter().filter(|&&x| x > 0).count();
            let nh: usize = sl.iter().sum();
            // pointers: consistent (ch inside segment ci)
            let ci = rng.below(nseg as u64) as usize;
            let base: usize = sl[..ci].iter().sum();
            let ch = (base + rng.below(sl[ci] as u64) as usize).min(nh - 1).min(63);
            let ci = if ch < base { 0 } else { ci };
            let pb = std_path_bytes(sl, ci, ch, rng);
            if let Some(p) = dp_path_from_bytes(1, &pb) {
                out.push(Shape { name: format!("{cn}/std{}-{}-{}", sl[0], sl[1], sl[2]), src, dst, path: p, ptype: 1, path_bytes: pb });
            }
        }
        if *cn == "v4v4" {
            // opaque path of an unknown type: reaches every header size
            let data = rng.bytes(plen);
            out.push(Shape {
                name: "v4v4/opaque".into(),
                src,
                dst,
                path: DpPath::Unsupported { path_type: sciparse::dataplane_path::types::PathType::Other(77), data: data.clone() },
                ptype: 77,
                path_bytes: data,
            });
        }
    }
    out
}

/// a plausible offending packet of exactly `len` bytes (a SCION/UDP packet when long enough, else its prefix)
fn offender_bytes(len: usize, rng: &mut Rng) -> Vec<u8> {
    let pay_len = len.saturating_sub(36 + 24);
    let mut udp = vec![0u8; 8];
    udp[0..2].copy_from_slice(&(40000u16 + rng.below(1000) as u16).to_be_bytes());
    udp[2..4].copy_from_slice(&443u16.to_be_bytes());
    udp[4..6].copy_from_slice(&(((8 + pay_len.saturating_sub(8)) & 0xffff) as u16).to_be_bytes());
    udp.extend_from_slice(&rng.bytes(pay_len.saturating_sub(8)));
    let path = std_path_bytes([2, 0, 0], 0, 0, rng);
    let mut b = wire::build_packet(17, 1, (0, 0), (0, 0), ia_bytes(2, 0xff00_0000_0220), ia_bytes(1, 0xff00_0000_0110), &[198, 51, 100, 7], &[192, 0, 2, 1], &path, &udp[..udp.len().min(65000)]);
    if b.len() < len {
        b.extend_from_slice(&rng.bytes(len - b.len()));
    }
    b.truncate(len);
    // make every byte position distinguishable: xor a position pattern into the tail
    b
}

fn mk_error(kind: &str, offender: Vec<u8>, rng: &mut Rng) -> ScmpErrorMessage {
    match kind {
        "DestUnreach" => ScmpDestinationUnreachable::new(ScmpDestinationUnreachableCode::from(rng.below(8) as u8), offender).into(),
        "PacketTooBig" => ScmpPacketTooBig::new(1200 + rng.below(300) as u16, offender).into(),
        "ParamProblem" => ScmpParameterProblem::new(ScmpParameterProblemCode::from(*rng.pick(&[0u8, 1, 16, 32, 48, 64, 200])), rng.below(2000) as u16, offender).into(),
        "ExtIfDown" => ScmpExternalInterfaceDown::new(ia(1, 0xff00_0000_0111), rng.below(65536) as u16, offender).into(),
        "IntConnDown" => ScmpInternalConnectivityDown::new(ia(1, 0xff00_0000_0111), rng.below(65536) as u16, rng.below(65536) as u16, offender).into(),
        _ => panic!("unknown kind {kind}"),
    }
}

/// facts about an encoded error packet, measured with the reference reader
fn measure_error(bytes: &[u8], offender: &[u8], also_prefix_of: Option<&[u8]>) -> Value {
    let mut o = json!({"total": bytes.len()});
    match wire::describe_scmp(bytes) {
        Some((h, d)) => {
            let pl = h.payload(bytes).len();
            let fixed = wire::scmp_fixed_len(d.t);
            let prefix = offender.starts_with(&d.quote) || also_prefix_of.map(|x| x.starts_with(&d.quote)).unwrap_or(false);
            o["hdr"] = json!(h.hdr_len);
            o["t"] = json!(d.t);
            o["code"] = json!(d.code);
            o["scmp_len"] = json!(pl);
            o["pay_len_field"] = json!(h.pay_len);
            o["quote"] = json!(if d.complete { pl - fixed } else { 0 });
            o["complete"] = json!(d.complete);
            o["prefix"] = json!(d.complete && prefix);
            o["prefix_of_original"] = json!(d.complete && offender.starts_with(&d.quote));
            o["ck"] = json!(d.cksum_ok);
            o["len_consistent"] = json!(h.hdr_len + h.pay_len == bytes.len());
        }
        None => {
            o["unparsable"] = json!(true);
        }
    }
    o
}

#[derive(Default)]
struct RecReceiver {
    got: Mutex<Vec<Vec<u8>>>,
}
impl Receiver for RecReceiver {
    fn receive_packet(&self, packet: &ScionRawPacketView) {
        self.got.lock().unwrap().push(packet.as_slice().to_vec());
    }
}

// =================================================================================================
// quote
// =================================================================================================

fn ctor_sciparse(shape: &Shape, msg: &ScmpErrorMessage, raw_first: bool) -> Result<Vec<u8>, String> {
    let p = ScionScmpPacket::new(shape.src, shape.dst, shape.path.clone(), msg.clone().into());
    let r = if raw_first { p.into_raw().try_encode_to_owned_view().map(|v| v.as_slice().to_vec()) } else { p.try_encode_to_owned_view().map(|v| v.as_slice().to_vec()) };
    r.map_err(|e| format!("{e:?}"))
}

/// pocketscion maybe_create_scmp_reply via the public LocalNetworkSimulation::handle_local_routing_action
fn ctor_pocket_reply(hdr: usize, msg: &ScmpErrorMessage, rng: &mut Rng) -> Vec<(String, Result<Vec<u8>, String>)> {
    let mut out = vec![];
    // reply header = 12 + 16 + len(router ip) + len(offender src host) + path
    for (rn, rip) in [("r4", IpAddr::V4(Ipv4Addr::new(10, 9, 9, 9))), ("r6", IpAddr::V6(Ipv6Addr::new(0xfd00, 0, 0, 0, 0, 0, 0, 9)))] {
        for (sn, shost) in [("s4", vec![192u8, 0, 2, 1]), ("s6", Ipv6Addr::new(0x2001, 0xdb8, 0, 0, 0, 0, 0, 1).octets().to_vec())] {
            let rl = if rip.is_ipv4() { 4 } else { 16 };
            let a = 16 + rl + shost.len();
            if hdr < 12 + a {
                continue;
            }
            let plen = hdr - 12 - a;
            let (ptype, pb) = if plen == 0 {
                (0u8, vec![])
            } else if let Some(sl) = std_seglens_for(plen, 1 + rng.below(3) as usize) {
                let nh: usize = sl.iter().sum();
                // a packet in flight at some router: pointers anywhere consistent
                let nseg = sl.iter().filter(|&&x| x > 0).count();
                let ci = rng.below(nseg as u64) as usize;
                let base: usize = sl[..ci].iter().sum();
                let ch = base + rng.below(sl[ci] as u64) as usize;
                if ch >= 64 || ch >= nh {
                    (1u8, std_path_bytes(sl, 0, 0, rng))
                } else {
                    (1u8, std_path_bytes(sl, ci, ch, rng))
                }
            } else {
                continue;
            };
            let sl_nib = if shost.len() == 4 { 0 } else { 3 };
            let mut respond_to = wire::build_packet(17, ptype, (0, 0), (0, sl_nib), ia_bytes(2, 0xff00_0000_0220), ia_bytes(1, 0xff00_0000_0110), &[198, 51, 100, 7], &shost, &pb, &[0, 80, 0, 81, 0, 12, 0, 0, 1, 2, 3, 4]);
            let local_as = ia(2, 0xff00_0000_0221);
            let router = ScionRouter::new(vec![1, 2], SocketAddr::new(rip, 30042));
            let receivers = NetworkReceiverRegistry::new();
            let ext = ExternalAsRegistry::new();
            let name = format!("pocket_reply/{rn}{sn}/{}", if ptype == 0 { "empty" } else { "std" });
            let res = catch(|| {
                let (view, _) = ScionRawPacketView::try_from_mut_slice(&mut respond_to).map_err(|e| format!("carrier rejected: {e:?}"))?;
                let sim = LocalNetworkSimulation::new(local_as, 1, &receivers, &ext, &router);
                match sim.handle_local_routing_action(LocalAsRoutingAction::SendSCMPErrorResponse(msg.clone()), view) {
                    Ok(Some(raw)) => raw.try_encode_to_owned_view().map(|v| v.as_slice().to_vec()).map_err(|e| format!("encode: {e:?}")),
                    Ok(None) => Err("no reply".into()),
                    Err(e) => Err(format!("sim error: {e:#}")),
                }
            });
            out.push((name, res.unwrap_or_else(|p| Err(format!("PANIC {p}")))));
        }
    }
    out
}

/// SNAP tunnel gateway: the reply the gateway loop builds for a datagram failing the ingress policy
fn ctor_snap(hdr: usize, off: usize, variant: u64, rng: &mut Rng) -> Vec<(String, Vec<u8>, Result<Vec<u8>, String>)> {
    use snap_dataplane::tunnel_gateway::gateway::verif::ingress_reply;
    let mut out = vec![];
    let combos: [(&str, IpAddr, ScionHostAddr); 4] = [
        ("p4l4", IpAddr::V4(Ipv4Addr::new(203, 0, 113, 5)), v4(10, 1, 1, 1)),
        ("p4l6", IpAddr::V4(Ipv4Addr::new(203, 0, 113, 5)), v6(0x11)),
        ("p6l4", IpAddr::V6(Ipv6Addr::new(0x2001, 0xdb8, 1, 0, 0, 0, 0, 5)), v4(10, 1, 1, 1)),
        ("p6l6", IpAddr::V6(Ipv6Addr::new(0x2001, 0xdb8, 1, 0, 0, 0, 0, 5)), v6(0x11)),
    ];
    for (cn, peer, local) in combos {
        let h = 12 + 16 + if peer.is_ipv4() { 4 } else { 16 } + host_len(&local);
        if h != hdr {
            continue;
        }
        // an offending datagram of exactly `off` bytes failing one of the three policies
        let (why, datagram) = match variant % 3 {
            0 => {
                // malformed: version nibble != 0 (or too short)
                let mut d = rng.bytes(off);
                if !d.is_empty() {
                    d[0] |= 0x10;
                }
                ("malformed", d)
            }
            1 => {
                // wrong source address: valid SCION/UDP packet from another IP
                let mut d = offender_bytes(off.max(36 + 24 + 8), rng);
                d.truncate(off.max(36 + 24 + 8));
                let hl0 = d[5] as usize * 4;
                if off < d.len() || off < hl0 + 8 {
                    // cannot be a valid packet at this length: fall back to malformed
                    let mut m = rng.bytes(off);
                    if !m.is_empty() {
                        m[0] |= 0x10;
                    }
                    ("malformed", m)
                } else {
                    // payload_len must match the datagram for the raw view; offender_bytes pads, so fix the field
                    let hl = d[5] as usize * 4;
                    let pl = (off - hl).min(65535) as u16;
                    d[6..8].copy_from_slice(&pl.to_be_bytes());
                    ("wrong_src", d)
                }
            }
            _ => {
                // unsupported path type (one-hop) from the right source address
                let srcb: Vec<u8> = match peer {
                    IpAddr::V4(a) => a.octets().to_vec(),
                    IpAddr::V6(a) => a.octets().to_vec(),
                };
                let sl_nib = if srcb.len() == 4 { 0 } else { 3 };
                let base = 12 + 16 + 4 + srcb.len() + 32;
                if off < base {
                    let mut m = rng.bytes(off);
                    if !m.is_empty() {
                        m[0] |= 0x10;
                    }
                    ("malformed", m)
                } else {
                    let pay = rng.bytes((off - base).min(65535));
                    let mut d = wire::build_packet(17, 2, (0, 0), (0, sl_nib), ia_bytes(2, 0x220), ia_bytes(1, 0x110), &[198, 51, 100, 7], &srcb, &rng.bytes(32), &pay);
                    if d.len() < off {
                        d.extend_from_slice(&rng.bytes(off - d.len()));
                    }
                    ("onehop", d)
                }
            }
        };
        let res = catch(|| match ingress_reply(&datagram, peer, local) {
            None => Err("policy passed".to_string()),
            Some(Ok(b)) => Ok(b),
            Some(Err(e)) => Err(format!("encode: {e:?}")),
        });
        out.push((format!("snap/{cn}/{why}"), datagram, res.unwrap_or_else(|p| Err(format!("PANIC {p}")))));
    }
    out
}

fn cmd_quote(inp: &str, outp: &str) {
    let cells = read_ndjson(inp);
    let mut w = NdjsonWriter::create(outp);
    let mut rng = Rng::new(seed_from_env() ^ 0xC14);
    for (i, c) in cells.iter().enumerate() {
        let kind = c["kind"].as_str().unwrap();
        let hdr = c["hdr"].as_u64().unwrap() as usize;
        let off = c["off"].as_u64().unwrap() as usize;
        let offender = offender_bytes(off, &mut rng);
        let msg = mk_error(kind, offender.clone(), &mut rng);
        let mut results = vec![];
        for shape in shapes_for_hdr(hdr, &mut rng) {
            for raw_first in [false, true] {
                let name = format!("{}/{}", if raw_first { "sciparse_raw" } else { "sciparse" }, shape.name);
                let r = catch(|| ctor_sciparse(&shape, &msg, raw_first)).unwrap_or_else(|p| Err(format!("PANIC {p}")));
                let mut o = match &r {
                    Ok(b) => measure_error(b, &offender, None),
                    Err(e) => json!({"err": e}),
                };
                o["ctor"] = json!(name);
                results.push(o);
            }
        }
        for (name, r) in ctor_pocket_reply(hdr, &msg, &mut rng) {
            let mut o = match &r {
                Ok(b) => measure_error(b, &offender, None),
                Err(e) => json!({"err": e}),
            };
            o["ctor"] = json!(name);
            results.push(o);
        }
        if kind == "ParamProblem" {
            for (name, datagram, r) in ctor_snap(hdr, off, i as u64, &mut rng) {
                let mut o = match &r {
                    Ok(b) => measure_error(b, &datagram, None),
                    Err(e) => json!({"err": e}),
                };
                o["ctor"] = json!(name);
                results.push(o);
            }
        }
        w.write(&json!({"kind": kind, "hdr": hdr, "off": off, "results": results}));
    }
    w.finish();
}

// =================================================================================================
// reply: message descriptors -> real handlers
// =================================================================================================

/// SCMP message template of type t (long enough for every `have`), with the given echo fields / quote
fn scmp_template(t: u8, code: u8, id: u16, seq: u16, data: &[u8], quote: &[u8], rng: &mut Rng) -> Vec<u8> {
    let mut m = vec![t, code, 0, 0];
    match t {
        128 | 129 => {
            m.extend_from_slice(&id.to_be_bytes());
            m.extend_from_slice(&seq.to_be_bytes());
            m.extend_from_slice(data);
        }
        130 | 131 => {
            m.extend_from_slice(&id.to_be_bytes());
            m.extend_from_slice(&seq.to_be_bytes());
            m.extend_from_slice(&ia_bytes(1, 0xff00_0000_0111));
            m.extend_from_slice(&(rng.below(65536)).to_be_bytes());
        }
        1 => {
            m.extend_from_slice(&[0, 0, 0, 0]);
            m.extend_from_slice(quote);
        }
        2 | 4 => {
            m.extend_from_slice(&[0, 0]);
            m.extend_from_slice(&id.to_be_bytes()); // mtu / pointer carries the case id
            m.extend_from_slice(quote);
        }
        5 => {
            m.extend_from_slice(&ia_bytes(1, 0xff00_0000_0111));
            m.extend_from_slice(&(id as u64).to_be_bytes());
            m.extend_from_slice(quote);
        }
        6 => {
            m.extend_from_slice(&ia_bytes(1, 0xff00_0000_0111));
            m.extend_from_slice(&(id as u64).to_be_bytes());
            m.extend_from_slice(&(seq as u64).to_be_bytes());
            m.extend_from_slice(quote);
        }
        _ => {
            m.extend_from_slice(&id.to_be_bytes());
            m.extend_from_slice(&seq.to_be_bytes());
            m.extend_from_slice(data);
        }
    }
    m
}

struct Req {
    bytes: Vec<u8>,
    id: u16,
    seq: u16,
}

#[derive(Clone, Copy, PartialEq, Debug)]
enum PathKind {
    Empty,
    Std(usize),
    OneHop,
    Opaque,
}

/// Build the packet of a reply cell. None = the cell has no concrete instance (checksum field absent but ck demanded).
#[allow(clippy::too_many_arguments)]
fn build_scmp_packet(t: u8, code: u8, have: usize, trunc: bool, ck: bool, pk: PathKind, addr_ok: bool, quote_err: bool, case_id: u16, rng: &mut Rng) -> Option<Req> {
    if have < 4 && ck {
        return None;
    }
    let id = case_id;
    let seq = rng.below(65536) as u16;
    let data = rng.bytes(64);
    // quoted packet for error types: a SCION/UDP packet, or (quote_err) a SCION/SCMP error packet
    let quote = if quote_err {
        let inner = scmp_template(1, 0, 0, 0, &[], &rng.bytes(20), rng);
        let mut q = wire::build_packet(202, 0, (0, 0), (0, 0), ia_bytes(2, 0x220), ia_bytes(1, 0x110), &[198, 51, 100, 7], &[192, 0, 2, 1], &[], &inner);
        wire::fix_l4_checksum(&mut q);
        q
    } else {
        offender_bytes(90, rng)
    };
    let tmpl = scmp_template(t, code, id, seq, &data, &quote, rng);
    let mut msg = tmpl.clone();
    if msg.len() < have {
        msg.extend_from_slice(&rng.bytes(have - msg.len()));
    }
    msg.truncate(have);
    let (ptype, pb): (u8, Vec<u8>) = match pk {
        PathKind::Empty => (0, vec![]),
        PathKind::Std(n) => {
            let sl = match n {
                1 => [2 + rng.below(3) as usize, 0, 0],
                2 => [1 + rng.below(3) as usize, 2 + rng.below(2) as usize, 0],
                _ => [2, 1 + rng.below(3) as usize, 2 + rng.below(3) as usize],
            };
            let nh: usize = sl.iter().sum();
            // as received at the destination: last hop of the last segment
            (1, std_path_bytes(sl, n - 1, nh - 1, rng))
        }
        PathKind::OneHop => {
            let mut b = rng.bytes(32);
            b[0] &= 1;
            b[1] = 0;
            b[8] = 0;
            b[20] = 0;
            (2, b)
        }
        PathKind::Opaque => (3, rng.bytes(16)),
    };
    // addresses: requester = src
    let (st_sl, src_host): ((u8, u8), Vec<u8>) = match rng.below(3) {
        0 => ((0, 0), vec![192, 0, 2, 1]),
        1 => ((0, 3), Ipv6Addr::new(0x2001, 0xdb8, 0, 0, 0, 0, 0, 1).octets().to_vec()),
        _ => ((0, 0), vec![10, 0, 0, 9]),
    };
    let (mut dt_dl, dst_host): ((u8, u8), Vec<u8>) = match rng.below(2) {
        0 => ((0, 0), vec![198, 51, 100, 7]),
        _ => ((0, 3), Ipv6Addr::new(0x2001, 0xdb8, 0, 0, 0, 0, 0, 7).octets().to_vec()),
    };
    let mut st_sl = st_sl;
    if !addr_ok {
        // unknown host address type (T=2) on one side
        if rng.chance(1, 2) {
            st_sl = (2, st_sl.1);
        } else {
            dt_dl = (2, dt_dl.1);
        }
    }
    let mut b = wire::build_packet(202, ptype, dt_dl, st_sl, ia_bytes(2, 0xff00_0000_0220), ia_bytes(1, 0xff00_0000_0110), &dst_host, &src_host, &pb, &msg);
    if have >= 4 {
        wire::fix_l4_checksum(&mut b);
        if !ck && !trunc {
            let hl = b[5] as usize * 4;
            b[hl + 2] ^= 0x55;
            b[hl + 3] ^= 0xaa;
        }
    }
    if trunc {
        // the payload length field promises more than the datagram holds
        let claimed = (have + 8 + rng.below(64) as usize) as u16;
        b[6..8].copy_from_slice(&claimed.to_be_bytes());
    }
    Some(Req { bytes: b, id, seq })
}

/// reference reversal of the path of a request (ptype, bytes) -> (ptype, bytes) of the reply
fn reference_reverse(ptype: u8, pb: &[u8]) -> Option<(u8, Vec<u8>)> {
    match ptype {
        0 => Some((0, vec![])),
        1 => wire::reverse_standard(pb).map(|x| (1, x)),
        2 => {
            if pb.len() != 32 {
                return None;
            }
            // one-hop -> standard path with one segment of two hops, reversed, starting at its first hop
            let meta: u32 = 2 << 12;
            let mut out = meta.to_be_bytes().to_vec();
            let mut inf = pb[0..8].to_vec();
            inf[0] ^= 1;
            out.extend_from_slice(&inf);
            out.extend_from_slice(&pb[20..32]);
            out.extend_from_slice(&pb[8..20]);
            Some((1, out))
        }
        _ => None,
    }
}

/// Is `reply` a faithful echo reply to `req`?  Returns (faithful, reasons, reply checksum ok)
fn echo_faithful(req: &[u8], reply: &[u8]) -> (bool, Vec<String>, bool) {
    let mut why = vec![];
    let Some((hq, dq)) = wire::describe_scmp(req) else { return (false, vec!["request unparsable".into()], false) };
    let Some((hr, dr)) = wire::describe_scmp(reply) else { return (false, vec!["reply unparsable".into()], false) };
    if dr.t != 129 {
        why.push(format!("type {}", dr.t));
    }
    if dr.code != 0 {
        why.push("code".into());
    }
    if !dr.complete {
        why.push("incomplete".into());
    }
    if dr.id != dq.id {
        why.push("identifier".into());
    }
    if dr.seq != dq.seq {
        why.push("sequence".into());
    }
    if dr.data != dq.data {
        why.push("data".into());
    }
    if !(hr.dst_ia == hq.src_ia && hr.dst_host == hq.src_host && (hr.dt, hr.dl) == (hq.st, hq.sl)) {
        why.push("not addressed to the requester".into());
    }
    if !(hr.src_ia == hq.dst_ia && hr.src_host == hq.dst_host && (hr.st, hr.sl) == (hq.dt, hq.dl)) {
        why.push("source is not the request's destination".into());
    }
    match reference_reverse(hq.ptype, &hq.path) {
        Some((pt, pb)) => {
            if hr.ptype != pt || wire::canon_standard(&hr.path) != wire::canon_standard(&pb) {
                why.push(if hq.ptype == 2 { "onehop-path not reversed as reference".into() } else { "path not reversed".to_string() });
            }
        }
        None => why.push("request path not reversible".into()),
    }
    if hr.hdr_len + hr.pay_len != reply.len() {
        why.push("length fields".into());
    }
    (why.is_empty(), why, dr.cksum_ok)
}

#[derive(Default)]
struct ErrRecorder {
    got: Mutex<Vec<(u8, Vec<u8>, Vec<u8>)>>, // (type, quote, path bytes)
}
fn err_parts(e: &ScmpErrorMessage) -> (u8, Vec<u8>) {
    match e {
        ScmpErrorMessage::DestinationUnreachable(x) => (1, x.get_offending_packet().to_vec()),
        ScmpErrorMessage::PacketTooBig(x) => (2, x.get_offending_packet().to_vec()),
        ScmpErrorMessage::ParameterProblem(x) => (4, x.get_offending_packet().to_vec()),
        ScmpErrorMessage::ExternalInterfaceDown(x) => (5, x.get_offending_packet().to_vec()),
        ScmpErrorMessage::InternalConnectivityDown(x) => (6, x.get_offending_packet().to_vec()),
    }
}
impl ScmpErrorReceiver for ErrRecorder {
    fn report_scmp_error<'a>(&self, scmp_error: ScmpErrorMessage, path: ScionDpPathViewRef<'a>) {
        let (t, q) = err_parts(&scmp_error);
        self.got.lock().unwrap().push((t, q, path.as_slice().to_vec()));
    }
}

/// descriptor of a received packet as the reference reader sees it (fields of Scmp.tla)
fn descriptor(bytes: &[u8]) -> Option<Value> {
    let h = wire::parse_hdr(bytes)?;
    if h.next != wire::PROTO_SCMP {
        return None;
    }
    let m = h.payload(bytes);
    let t = if m.is_empty() { 0 } else { m[0] };
    let have = m.len();
    let trunc = have < h.pay_len;
    let fixed = wire::scmp_fixed_len(t);
    let pfixed = fixed.max(4);
    let complete = !trunc && have >= fixed && have >= 4;
    let ck = !trunc && have >= 4 && wire::checksum_ok(&h, wire::PROTO_SCMP, m);
    let rev = reference_reverse(h.ptype, &h.path).is_some();
    let known = |t: u8, l: u8| matches!((t, l), (0, 0) | (0, 3) | (1, 0));
    let addr = known(h.dt, h.dl) && known(h.st, h.sl);
    Some(json!({"t": t, "complete": complete, "ck": ck, "parsed": have >= pfixed, "rev": rev, "addr": addr, "have": have, "trunc": trunc}))
}

struct HandleObs {
    raw_ok: bool,
    echo_replies: u64,
    echo_faithful: bool,
    echo_why: Vec<String>,
    echo_reply_ck: bool,
    echo_panic: Option<String>,
    err_replies: u64,
    notified: Vec<u64>,
    notif_content_ok: bool,
    err_panic: Option<String>,
    reply_hex: Option<String>,
}

/// feed one packet to DefaultEchoHandler::handle and to the stack's ScmpErrorHandler::handle (2 recording receivers)
fn observe_handlers(bytes: &[u8]) -> HandleObs {
    let mut o = HandleObs { raw_ok: false, echo_replies: 0, echo_faithful: true, echo_why: vec![], echo_reply_ck: true, echo_panic: None, err_replies: 0, notified: vec![0, 0], notif_content_ok: true, err_panic: None, reply_hex: None };
    let Ok((view, _)) = ScionRawPacketView::try_from_slice(bytes) else { return o };
    o.raw_ok = true;
    // echo handler
    match catch(|| DefaultEchoHandler::new().handle(view).map(|r| r.try_encode_to_owned_view().map(|v| v.as_slice().to_vec()))) {
        Err(p) => o.echo_panic = Some(p),
        Ok(None) => {}
        Ok(Some(Err(e))) => {
            // a reply was produced but cannot be encoded: counts as one (unsendable) reply
            o.echo_replies = 1;
            o.echo_faithful = false;
            o.echo_why.push(format!("reply does not encode: {e:?}"));
        }
        Ok(Some(Ok(rb))) => {
            o.echo_replies = 1;
            let (f, why, ck) = echo_faithful(bytes, &rb);
            o.echo_faithful = f;
            o.echo_why = why;
            o.echo_reply_ck = ck;
            o.reply_hex = Some(wire::hex(&rb));
        }
    }
    // error handler with two receivers
    let r1 = Arc::new(ErrRecorder::default());
    let r2 = Arc::new(ErrRecorder::default());
    let rs: Vec<Arc<dyn ScmpErrorReceiver>> = vec![r1.clone(), r2.clone()];
    match catch(|| {
        let h = sockhook::scmp_error_handler(&rs);
        h.handle(view).is_some()
    }) {
        Err(p) => o.err_panic = Some(p),
        Ok(replied) => o.err_replies = replied as u64,
    }
    let want = wire::describe_scmp(bytes);
    for (i, r) in [r1, r2].iter().enumerate() {
        let g = r.got.lock().unwrap();
        o.notified[i] = g.len() as u64;
        for (t, q, pb) in g.iter() {
            if let Some((h, d)) = &want {
                if *t != d.t || *q != d.quote || *pb != h.path {
                    o.notif_content_ok = false;
                }
            }
        }
    }
    o
}

fn obs_json(o: &HandleObs) -> Value {
    json!({"raw_ok": o.raw_ok, "echo_replies": o.echo_replies, "echo_faithful": o.echo_faithful, "echo_why": o.echo_why, "echo_reply_ck": o.echo_reply_ck,
           "echo_panic": o.echo_panic, "err_replies": o.err_replies, "notified": o.notified, "notif_content_ok": o.notif_content_ok, "err_panic": o.err_panic})
}

fn cmd_reply(inp: &str, outp: &str) {
    let cells = read_ndjson(inp);
    let mut w = NdjsonWriter::create(outp);
    let mut rng = Rng::new(seed_from_env() ^ 0xC14B);
    let kinds_rev = [PathKind::Empty, PathKind::Std(1), PathKind::Std(2), PathKind::Std(3), PathKind::OneHop];
    for (i, c) in cells.iter().enumerate() {
        let t = c["t"].as_u64().unwrap() as u8;
        let have = c["have"].as_u64().unwrap() as usize;
        let trunc = c["trunc"].as_bool().unwrap();
        let ck = c["ck"].as_bool().unwrap();
        let rev = c["rev"].as_bool().unwrap();
        let addr = c["addr"].as_bool().unwrap();
        let code = *rng.pick(&[0u8, 0, 1, 255]);
        let pk = match c.get("path").and_then(|x| x.as_str()) {
            Some("empty") => PathKind::Empty,
            Some("std1") => PathKind::Std(1),
            Some("std2") => PathKind::Std(2),
            Some("std3") => PathKind::Std(3),
            Some("onehop") => PathKind::OneHop,
            _ => {
                if rev {
                    kinds_rev[i % kinds_rev.len()]
                } else {
                    PathKind::Opaque
                }
            }
        };
        let quote_err = wire::is_known_error(t) && i % 3 == 0;
        let Some(req) = build_scmp_packet(t, code, have, trunc, ck, pk, addr, quote_err, (i % 65536) as u16, &mut rng) else {
            w.write(&json!({"i": i, "infeasible": true}));
            continue;
        };
        // the reference reader must agree with the cell (self-check of the builder)
        let d = descriptor(&req.bytes);
        let o = observe_handlers(&req.bytes);
        let mut j = obs_json(&o);
        j["i"] = json!(i);
        j["d"] = d.unwrap_or(Value::Null);
        j["path"] = json!(format!("{pk:?}"));
        j["quote_err"] = json!(quote_err);
        j["pkt"] = json!(wire::hex(&req.bytes));
        w.write(&j);
    }
    w.finish();
}

// =================================================================================================
// router: offending packets at the simulated (pocketscion) routers
// =================================================================================================

struct Scenario {
    ctx: TestPathContext,
    src: ScionAddr,
    dst: ScionAddr,
}

fn scenario(site: &str) -> Scenario {
    let src: ScionAddr = ScionAddr::new(ia(1, 1), v4(10, 0, 0, 1));
    let dst_bound: ScionAddr = ScionAddr::new(ia(1, 99), v4(11, 0, 0, 1));
    let dst = if site == "unreachable" { ScionAddr::new(ia(1, 99), v4(11, 0, 0, 77)) } else { dst_bound };
    let b = TestPathBuilder::new(src, dst).up();
    let (b, ts) = match site {
        "expired" => (b.add_hop(0, 1).add_hop(2, 3).add_hop(4, 0), 1_234_567u32),
        "egress_down" => (b.add_hop(0, 1).add_hop_with_egress_down(2, 3).add_hop(4, 0), 100),
        "alert_in" => (b.add_hop(0, 1).add_hop_with_alerts(2, true, 3, false).add_hop(4, 0), 100),
        "alert_eg" => (b.add_hop(0, 1).add_hop_with_alerts(2, false, 3, true).add_hop(4, 0), 100),
        _ => (b.add_hop(0, 1).add_hop(2, 3).add_hop(4, 0), 100), // deliver / unreachable
    };
    Scenario { ctx: b.build(ts), src, dst }
}

/// hop fields / info fields of a standard path, for the order-insensitive-to-pointers reversal check
fn std_parts(pb: &[u8]) -> Option<([usize; 3], Vec<Vec<u8>>, Vec<Vec<u8>>)> {
    if pb.len() < 4 {
        return None;
    }
    let meta = u32::from_be_bytes([pb[0], pb[1], pb[2], pb[3]]);
    let sl = [((meta >> 12) & 0x3f) as usize, ((meta >> 6) & 0x3f) as usize, (meta & 0x3f) as usize];
    let nseg = sl.iter().filter(|&&x| x > 0).count();
    let nh: usize = sl.iter().sum();
    if pb.len() != 4 + 8 * nseg + 12 * nh {
        return None;
    }
    let infos = (0..nseg).map(|i| pb[4 + 8 * i..12 + 8 * i].to_vec()).collect();
    let h0 = 4 + 8 * nseg;
    let hops = (0..nh).map(|i| pb[h0 + 12 * i..h0 + 12 * i + 12].to_vec()).collect();
    Some((sl, infos, hops))
}

/// reply path = reversal of the request path, ignoring the pointers and the SegID (both change in flight)
fn weakly_reversed(req_path: &[u8], rep_path: &[u8]) -> bool {
    let (Some((sl, inf, hops)), Some((rsl, rinf, rhops))) = (std_parts(req_path), std_parts(rep_path)) else { return false };
    let nseg = inf.len();
    let mut want_sl = [0usize; 3];
    for i in 0..nseg {
        want_sl[i] = sl[nseg - 1 - i];
    }
    if rsl != want_sl || rinf.len() != nseg {
        return false;
    }
    for i in 0..nseg {
        let a = &inf[nseg - 1 - i];
        let b = &rinf[i];
        if (a[0] ^ 1) != b[0] || a[4..8] != b[4..8] {
            return false;
        }
    }
    let mut rh = hops.clone();
    rh.reverse();
    // hop fields are immutable in flight except the router alert flags (cleared by the router that handles them)
    let strip = |v: &Vec<Vec<u8>>| -> Vec<Vec<u8>> {
        v.iter()
            .map(|h| {
                let mut h = h.clone();
                h[0] &= !0x03;
                h
            })
            .collect()
    };
    strip(&rh) == strip(&rhops)
}

fn cmd_router(inp: &str, outp: &str) {
    let cases = read_ndjson(inp);
    let mut w = NdjsonWriter::create(outp);
    let mut rng = Rng::new(seed_from_env() ^ 0xC14C);
    for (i, c) in cases.iter().enumerate() {
        let site = c["site"].as_str().unwrap();
        let scmp = c["scmp"].as_bool().unwrap();
        let t = c["t"].as_u64().unwrap() as u8;
        let have = c["have"].as_u64().unwrap() as usize;
        let ck = c["ck"].as_bool().unwrap_or(true);
        let sc = scenario(site);
        let id = (i % 65536) as u16;
        let seq = rng.below(65536) as u16;
        let data = rng.bytes(24);
        // the offending packet
        let pkt: Result<Vec<u8>, String> = if scmp {
            let quote = offender_bytes(80, &mut rng);
            let mut m = scmp_template(t, 0, id, seq, &data, &quote, &mut rng);
            if m.len() < have {
                m.extend_from_slice(&rng.bytes(have - m.len()));
            }
            m.truncate(have);
            ScionRawPacket::new(sc.src, sc.dst, sc.ctx.data_plane_path.clone(), ProtocolNumber::Scmp, m).try_encode_to_owned_view().map(|v| v.as_slice().to_vec()).map_err(|e| format!("{e:?}")).map(|mut b| {
                if have >= 4 {
                    wire::fix_l4_checksum(&mut b);
                    if !ck {
                        let hl = b[5] as usize * 4;
                        b[hl + 2] ^= 0x55;
                        b[hl + 3] ^= 0xaa;
                    }
                }
                b
            })
        } else {
            // UDP offender; "pay" = payload size (to reach the quote budget in natural flows)
            let pay = c.get("pay").and_then(|x| x.as_u64()).unwrap_or(24) as usize;
            let big = rng.bytes(pay);
            sc.ctx.scion_packet_udp(&big, 22222, 11111).into_raw().try_encode_to_owned_view().map(|v| v.as_slice().to_vec()).map_err(|e| format!("{e:?}")).map(|mut b| {
                wire::fix_l4_checksum(&mut b);
                b
            })
        };
        let Ok(original) = pkt else {
            w.write(&json!({"i": i, "build_err": pkt.err()}));
            continue;
        };
        let mut work = original.clone();
        let src_dp = Arc::new(RecReceiver::default());
        let dst_dp = Arc::new(RecReceiver::default());
        let mut targets = NetworkReceiverRegistry::new();
        targets.add_receiver(ia(1, 1), "10.0.0.1/32".parse().unwrap(), src_dp.clone()).unwrap();
        targets.add_receiver(ia(1, 99), "11.0.0.1/32".parse().unwrap(), dst_dp.clone()).unwrap();
        let ext = ExternalAsRegistry::new();
        let ts = sc.ctx.timestamp;
        let res = catch(|| {
            let topology = sc.ctx.build_topology();
            let (view, _) = ScionRawPacketView::try_from_mut_slice(&mut work).map_err(|e| format!("raw view: {e:?}"))?;
            NetworkSimulator::new(&targets, &ext, &topology, false).dispatch(ia(1, 1), 0, ScionNetworkTime(ts), view);
            Ok::<(), String>(())
        });
        let mut o = json!({"i": i, "site": site});
        match res {
            Err(p) => o["panic"] = json!(p),
            Ok(Err(e)) => o["sim_err"] = json!(e),
            Ok(Ok(())) => {}
        }
        let back = src_dp.got.lock().unwrap().clone();
        let fwd = dst_dp.got.lock().unwrap().clone();
        o["answers"] = json!(back.len());
        o["delivered"] = json!(fwd.len());
        let mut rets = vec![];
        let hq = wire::parse_hdr(&original);
        for b in &back {
            let mut m = measure_error(b, &original, Some(&work));
            if let (Some((hr, dr)), Some(hq)) = (wire::describe_scmp(b), &hq) {
                m["to_requester"] = json!(hr.dst_ia == hq.src_ia && hr.dst_host == hq.src_host);
                m["weakly_reversed"] = json!(weakly_reversed(&hq.path, &hr.path));
                if dr.t == 129 || dr.t == 131 {
                    let same = if let Some((_, dq)) = wire::describe_scmp(&original) { dq.id == dr.id && dq.seq == dr.seq && (dr.t == 131 || dq.data == dr.data) } else { false };
                    m["echo_same"] = json!(same);
                    if dr.t == 131 {
                        // traceroute reply: ISD-AS of the answering router (second AS of the scenario: 1-2) and the alerted interface (2)
                        let pl = hr.payload(b);
                        m["tr_fields_ok"] = json!(pl.len() == 24 && pl[8..16] == ia_bytes(1, 2) && pl[16..24] == 2u64.to_be_bytes());
                    }
                }
            }
            rets.push(m);
        }
        o["returned"] = json!(rets);
        o["offender_len"] = json!(original.len());
        o["pkt"] = json!(if original.len() <= 400 { wire::hex(&original) } else { format!("{}...({} bytes)", wire::hex(&original[..200]), original.len()) });
        w.write(&o);
    }
    w.finish();
}

// =================================================================================================
// socket: arrival sequences on the real PathUnawareUdpScionSocket (in-memory underlay hook)
// =================================================================================================

const SOCK_LOCAL_IA: (u16, u64) = (2, 0xff00_0000_0220);
const SOCK_LOCAL_IP: [u8; 4] = [198, 51, 100, 7];

/// concrete packet of an abstract kind of MC_ScmpSocket, carrying `id`
fn socket_packet(kind: &str, id: u16, rng: &mut Rng) -> Vec<u8> {
    let n = 1 + rng.below(3) as usize;
    let sl = match n {
        1 => [2, 0, 0],
        2 => [2, 2, 0],
        _ => [2, 1, 2],
    };
    let nh: usize = sl.iter().sum();
    let (ptype, pb) = if rng.chance(1, 4) { (0u8, vec![]) } else { (1u8, std_path_bytes(sl, n - 1, nh - 1, rng)) };
    let src_host = [192, 0, 2, (1 + rng.below(200)) as u8];
    let mk = |next: u8, payload: &[u8]| wire::build_packet(next, ptype, (0, 0), (0, 0), ia_bytes(SOCK_LOCAL_IA.0, SOCK_LOCAL_IA.1), ia_bytes(1, 0xff00_0000_0110), &SOCK_LOCAL_IP, &src_host, &pb, payload);
    let mut quote = offender_bytes(60, rng);
    quote.extend_from_slice(&id.to_be_bytes());
    let seq = rng.below(65536) as u16;
    let dl = rng.below(40) as usize;
    let data = rng.bytes(dl);
    let scmp = |t: u8, rng: &mut Rng| scmp_template(t, 0, id, seq, &data, &quote, rng);
    let flip = |mut b: Vec<u8>| {
        let hl = b[5] as usize * 4;
        b[hl + 2] ^= 0x55;
        b[hl + 3] ^= 0xaa;
        b
    };
    match kind {
        "dgram" => {
            let mut udp = vec![0u8; 8];
            udp[0..2].copy_from_slice(&(30000u16 + rng.below(1000) as u16).to_be_bytes());
            udp[2..4].copy_from_slice(&443u16.to_be_bytes());
            let mut pl = id.to_be_bytes().to_vec();
            let extra = rng.below(50) as usize;
            pl.extend_from_slice(&rng.bytes(extra));
            udp[4..6].copy_from_slice(&((8 + pl.len()) as u16).to_be_bytes());
            udp.extend_from_slice(&pl);
            let mut b = mk(17, &udp);
            wire::fix_l4_checksum(&mut b);
            b
        }
        "bad_udp" => mk(17, &rng.bytes(3)),
        "err" | "bad_err" => {
            let t = *rng.pick(&[1u8, 2, 4, 5, 6]);
            let mut b = mk(202, &scmp(t, rng));
            wire::fix_l4_checksum(&mut b);
            if kind == "bad_err" { flip(b) } else { b }
        }
        "uerr" => {
            let mut b = mk(202, &scmp(100, rng));
            wire::fix_l4_checksum(&mut b);
            b
        }
        "req" | "bad_req" => {
            let mut b = mk(202, &scmp(128, rng));
            wire::fix_l4_checksum(&mut b);
            if kind == "bad_req" { flip(b) } else { b }
        }
        "treq" => {
            let mut b = mk(202, &scmp(130, rng));
            wire::fix_l4_checksum(&mut b);
            b
        }
        "rep" => {
            let mut b = mk(202, &scmp(129, rng));
            wire::fix_l4_checksum(&mut b);
            b
        }
        "uinfo" => {
            let mut b = mk(202, &scmp(200, rng));
            wire::fix_l4_checksum(&mut b);
            b
        }
        _ => mk(6, &rng.bytes(20)),
    }
}

/// abstract view of a packet on the underlay for the trace ("arrive" event fields)
fn arrive_fields(bytes: &[u8]) -> Value {
    let dummy = json!({"t": 0, "complete": false, "ck": false, "parsed": false, "rev": true, "addr": true});
    let Some(h) = wire::parse_hdr(bytes) else { return json!({"proto": "other", "udp_ok": false, "d": dummy}) };
    match h.next {
        wire::PROTO_UDP => {
            let m = h.payload(bytes);
            let ok = m.len() >= 8 && u16::from_be_bytes([m[4], m[5]]) >= 8 && matches!((h.st, h.sl), (0, 0) | (0, 3));
            json!({"proto": "udp", "udp_ok": ok, "d": dummy})
        }
        wire::PROTO_SCMP => {
            let mut d = descriptor(bytes).unwrap_or(dummy);
            if let Some(o) = d.as_object_mut() {
                o.remove("have");
                o.remove("trunc");
            }
            json!({"proto": "scmp", "udp_ok": false, "d": d})
        }
        _ => json!({"proto": "other", "udp_ok": false, "d": dummy}),
    }
}

struct SockRun {
    delivered: Vec<u64>,
    notified: Vec<Vec<u64>>,
    sent: Vec<u64>,
    unfaithful: Vec<String>,
    steps: Vec<Value>,
    panic: Option<String>,
    leftover: usize,
}

fn poll_once<F: std::future::Future>(f: F) -> Option<F::Output> {
    let mut f = std::pin::pin!(f);
    let mut cx = std::task::Context::from_waker(std::task::Waker::noop());
    match f.as_mut().poll(&mut cx) {
        std::task::Poll::Ready(x) => Some(x),
        std::task::Poll::Pending => None,
    }
}

/// Run the packets (id = index+1) through a fresh socket. `splits` = after how many injected packets the
/// application drains the socket (the last drain is implicit).
fn run_socket(pkts: &[Vec<u8>], echo: bool, splits: &[usize], send_fails: bool, rng: &mut Rng) -> SockRun {
    let r1 = Arc::new(ErrRecorder::default());
    let r2 = Arc::new(ErrRecorder::default());
    let rs: Vec<Arc<dyn ScmpErrorReceiver>> = vec![r1.clone(), r2.clone()];
    let extra: Vec<Box<dyn ScmpHandler>> = if echo { vec![Box::new(DefaultEchoHandler::new())] } else { vec![] };
    let local = ScionSocketIpAddr::new(ia(SOCK_LOCAL_IA.0, SOCK_LOCAL_IA.1), IpAddr::V4(Ipv4Addr::from(SOCK_LOCAL_IP)), 443);
    let (sock, handle) = sockhook::socket_over_memory(local, &rs, extra);
    handle.set_send_fails(send_fails);
    let mut run = SockRun { delivered: vec![], notified: vec![vec![], vec![]], sent: vec![], unfaithful: vec![], steps: vec![], panic: None, leftover: 0 };
    let mut injected = 0usize;
    let mut consumed = 0usize; // packets taken off the underlay so far (FIFO)
    let mut rejected: Vec<usize> = vec![];
    let mut seen_notif = [0usize, 0usize];
    let mut order: Vec<usize> = vec![]; // ids in underlay order (accepted by inject)
    let mut cuts: Vec<usize> = splits.to_vec();
    cuts.push(pkts.len());
    for cut in cuts {
        while injected < cut.min(pkts.len()) {
            if handle.inject(&pkts[injected]) {
                order.push(injected + 1);
            } else {
                rejected.push(injected + 1);
            }
            injected += 1;
        }
        // the application drains the socket
        loop {
            let before = handle.pending();
            let with_path = rng.chance(1, 2);
            let mut buf = vec![0u8; 2048];
            let res = catch(|| {
                if with_path {
                    poll_once(sock.recv_from_with_path(&mut buf)).map(|r| r.map(|(n, a, _)| (n, a)))
                } else {
                    poll_once(sock.recv_from(&mut buf))
                }
            });
            let after = handle.pending();
            let took = before - after;
            let mut delivered_id: Option<u64> = None;
            let mut stop = false;
            match res {
                Err(p) => {
                    run.panic = Some(p);
                    stop = true;
                }
                Ok(None) => stop = true, // Pending: underlay drained
                Ok(Some(Err(e))) => {
                    run.panic = Some(format!("recv error: {e:?}"));
                    stop = true;
                }
                Ok(Some(Ok((n, _src)))) => {
                    let id = if n >= 2 { u16::from_be_bytes([buf[0], buf[1]]) as u64 } else { 0 };
                    delivered_id = Some(id);
                    run.delivered.push(id);
                }
            }
            // attribute observations to the packets consumed by this call
            let ids: Vec<usize> = order[consumed..consumed + took].to_vec();
            consumed += took;
            let mut notif_now: Vec<Vec<u64>> = vec![vec![], vec![]];
            for (ri, r) in [&r1, &r2].iter().enumerate() {
                let g = r.got.lock().unwrap();
                for (_, q, _) in g.iter().skip(seen_notif[ri]) {
                    let id = if q.len() >= 2 { u16::from_be_bytes([q[q.len() - 2], q[q.len() - 1]]) as u64 } else { 0 };
                    notif_now[ri].push(id);
                    run.notified[ri].push(id);
                }
                seen_notif[ri] = g.len();
            }
            let mut sent_now: Vec<u64> = vec![];
            for b in handle.take_sent() {
                let id = wire::describe_scmp(&b).map(|(_, d)| d.id as u64).unwrap_or(0);
                sent_now.push(id);
                run.sent.push(id);
                // faithful to its request?
                if id >= 1 && (id as usize) <= pkts.len() {
                    let (f, why, ck) = echo_faithful(&pkts[id as usize - 1], &b);
                    if !f || !ck {
                        run.unfaithful.push(format!("reply to {id}: {why:?} ck={ck}"));
                    }
                }
            }
            for (k, id) in ids.iter().enumerate() {
                let last = k + 1 == ids.len();
                let idu = *id as u64;
                run.steps.push(json!({"ev": "step", "id": id, "deliver": last && delivered_id == Some(idu) ,
                    "notified": [notif_now[0].iter().filter(|&&x| x == idu).count(), notif_now[1].iter().filter(|&&x| x == idu).count()],
                    "sent": sent_now.contains(&idu)}));
            }
            if let Some(d) = delivered_id {
                // a delivery that does not belong to the last consumed packet is reported as its own observation
                if ids.last().map(|&x| x as u64) != Some(d) {
                    run.unfaithful.push(format!("delivered id {d} is not the packet taken off the underlay ({ids:?})"));
                }
            }
            if stop {
                break;
            }
        }
    }
    run.leftover = handle.pending();
    let _ = rejected;
    run
}

fn cmd_socket(inp: &str, outp: &str) {
    let beh = read_ndjson(inp);
    let mut w = NdjsonWriter::create(outp);
    let mut rng = Rng::new(seed_from_env() ^ 0xC14D);
    for (i, b) in beh.iter().enumerate() {
        let kinds: Vec<String> = b["input"].as_array().unwrap().iter().map(|x| x.as_str().unwrap().to_string()).collect();
        let echo = b["echo"].as_bool().unwrap_or(true);
        let pkts: Vec<Vec<u8>> = kinds.iter().enumerate().map(|(k, kind)| socket_packet(kind, (k + 1) as u16, &mut rng)).collect();
        // interleaving of arrivals and receive calls: one random split point
        let splits = if pkts.len() > 1 && rng.chance(1, 2) { vec![1 + rng.below(pkts.len() as u64 - 1) as usize] } else { vec![] };
        let send_fails = i % 7 == 3;
        let run = run_socket(&pkts, echo, &splits, send_fails, &mut rng);
        w.write(&json!({"i": i, "delivered": run.delivered, "notified": run.notified, "sent": run.sent, "unfaithful": run.unfaithful,
                        "panic": run.panic, "leftover": run.leftover, "send_fails": send_fails, "splits": splits}));
    }
    w.finish();
}

// =================================================================================================
// record: seeded random executions of the real code as a trace for Trace_Scmp
// =================================================================================================

fn pick_type(rng: &mut Rng) -> u8 {
    match rng.below(10) {
        0..=2 => 128,
        3 => 129,
        4 => *rng.pick(&[130u8, 131]),
        5..=6 => *rng.pick(&[1u8, 2, 4, 5, 6]),
        7 => rng.below(128) as u8,
        8 => 128 + rng.below(128) as u8,
        _ => rng.below(256) as u8,
    }
}

fn cmd_record(evp: &str, resp: &str) {
    let thorough = tier_is_thorough();
    let mut rng = Rng::new(seed_from_env() ^ 0xC14E);
    let mut w = NdjsonWriter::create(evp);
    w.write(&json!({"ev": "meta", "echo": true, "nrecv": 2, "seed": seed_from_env()}));
    let mut pv: Vec<Value> = vec![]; // P-monitor violations found on the harness side
    let mut stats = serde_json::Map::new();
    let mut bump = |k: &str, stats: &mut serde_json::Map<String, Value>| {
        let v = stats.get(k).and_then(|x| x.as_u64()).unwrap_or(0);
        stats.insert(k.to_string(), json!(v + 1));
    };
    let kinds = ["DestUnreach", "PacketTooBig", "ParamProblem", "ExtIfDown", "IntConnDown"];
    let scmphdr = |k: &str| match k {
        "ExtIfDown" => 20usize,
        "IntConnDown" => 28,
        _ => 8,
    };

    // ---- (a) quoting: random (kind, header size, offender length) through a random constructor
    let nq = if thorough { 6000 } else { 1200 };
    for _ in 0..nq {
        let kind = *rng.pick(&kinds);
        let hdr = 36 + 4 * rng.below(247) as usize;
        let budget = 1232 - hdr - scmphdr(kind);
        let off = match rng.below(6) {
            0 => rng.below(64) as usize,
            1 => budget - 1 - rng.below(3) as usize,
            2 => budget + rng.below(4) as usize,
            3 => 9216 - rng.below(3) as usize,
            4 => rng.below(9217) as usize,
            _ => rng.below(2000) as usize,
        };
        let offender = offender_bytes(off, &mut rng);
        let msg = mk_error(kind, offender.clone(), &mut rng);
        let mut built: Vec<(String, Vec<u8>, Result<Vec<u8>, String>)> = vec![];
        match rng.below(4) {
            0 | 1 => {
                let shapes = shapes_for_hdr(hdr, &mut rng);
                if !shapes.is_empty() {
                    let sh = rng.pick(&shapes).clone();
                    let raw_first = rng.chance(1, 2);
                    let r = catch(|| ctor_sciparse(&sh, &msg, raw_first)).unwrap_or_else(|p| Err(format!("PANIC {p}")));
                    built.push((format!("sciparse/{}", sh.name), offender.clone(), r));
                }
            }
            2 => {
                for (n, r) in ctor_pocket_reply(hdr, &msg, &mut rng) {
                    built.push((n, offender.clone(), r));
                }
            }
            _ => {
                let h = *rng.pick(&[36usize, 48, 60]);
                for (n, d, r) in ctor_snap(h, off, rng.below(3), &mut rng) {
                    built.push((n, d, r));
                }
            }
        }
        for (name, offb, r) in built {
            match r {
                Err(e) => {
                    bump("quote_not_built", &mut stats);
                    if e.starts_with("PANIC") {
                        pv.push(json!({"key": format!("Panic:{}", name.split('/').next().unwrap()), "what": format!("{name}: {e} (kind {kind}, hdr {hdr}, off {off})")}));
                    }
                }
                Ok(b) => {
                    let m = measure_error(&b, &offb, None);
                    if m.get("unparsable").is_some() {
                        pv.push(json!({"key": format!("Unparsable:{}", name.split('/').next().unwrap()), "what": format!("{name} built a packet the reference reader cannot parse"), "pkt": wire::hex(&b)}));
                        continue;
                    }
                    bump("quote_events", &mut stats);
                    let is_snap = name.starts_with("snap");
                    let k = if is_snap { "ParamProblem" } else { kind };
                    w.write(&json!({"ev": "quote", "ctor": name, "kind": k, "hdr": m["hdr"], "off": offb.len(), "total": m["total"], "quote": m["quote"],
                                    "prefix": m["prefix"], "ck": m["ck"]}));
                }
            }
        }
    }

    // ---- (b) reply decision: random and mutated SCMP packets into both handlers
    let nh = if thorough { 20000 } else { 4000 };
    let pks = [PathKind::Empty, PathKind::Std(1), PathKind::Std(2), PathKind::Std(3), PathKind::OneHop, PathKind::Opaque];
    for i in 0..nh {
        let t = pick_type(&mut rng);
        let have = match rng.below(5) {
            0 => rng.below(9) as usize,
            1 => wire::scmp_fixed_len(t).saturating_sub(1) + rng.below(3) as usize,
            _ => rng.below(160) as usize,
        };
        let trunc = rng.chance(1, 8);
        let ck = have >= 4 && !rng.chance(1, 4);
        let pk = *rng.pick(&pks);
        let addr = !rng.chance(1, 10);
        let Some(req) = build_scmp_packet(t, rng.below(256) as u8, have, trunc, ck, pk, addr, rng.chance(1, 4), (i % 65536) as u16, &mut rng) else { continue };
        let mut bytes = req.bytes;
        // mutations of valid messages: flip bytes anywhere after the common header's length fields
        if rng.chance(1, 3) {
            let n = 1 + rng.below(3);
            for _ in 0..n {
                let hl = bytes[5] as usize * 4;
                let pos = if rng.chance(1, 2) && bytes.len() > hl { hl + rng.below((bytes.len() - hl) as u64) as usize } else { 12 + rng.below((bytes.len() - 12) as u64) as usize };
                bytes[pos] ^= 1 << rng.below(8);
            }
        }
        let Some(d) = descriptor(&bytes) else {
            bump("handle_not_scmp_after_mutation", &mut stats);
            continue;
        };
        let o = observe_handlers(&bytes);
        if !o.raw_ok {
            bump("handle_raw_rejected", &mut stats);
            continue;
        }
        bump("handle_packets", &mut stats);
        if let Some(p) = &o.echo_panic {
            pv.push(json!({"key": "Panic:DefaultEchoHandler", "what": format!("DefaultEchoHandler::handle panicked: {p}"), "pkt": wire::hex(&bytes)}));
        }
        if let Some(p) = &o.err_panic {
            pv.push(json!({"key": "Panic:ScmpErrorHandler", "what": format!("ScmpErrorHandler::handle panicked: {p}"), "pkt": wire::hex(&bytes)}));
        }
        let mut dd = d.clone();
        if let Some(m) = dd.as_object_mut() {
            m.remove("have");
            m.remove("trunc");
        }
        w.write(&json!({"ev": "handle", "site": "echo", "d": dd, "replies": o.echo_replies, "faithful": o.echo_faithful && o.echo_reply_ck, "notified": 0, "pkt": wire::hex(&bytes)}));
        let nmin = *o.notified.iter().min().unwrap();
        let nmax = *o.notified.iter().max().unwrap();
        // receivers are notified alike; a disagreement is reported as the smaller count plus a P note
        if nmin != nmax || !o.notif_content_ok {
            pv.push(json!({"key": "ErrorsReachReceivers:receivers-disagree-or-content", "what": format!("receivers notified {:?}, content_ok={}", o.notified, o.notif_content_ok), "pkt": wire::hex(&bytes)}));
        }
        w.write(&json!({"ev": "handle", "site": "error", "d": dd, "replies": o.err_replies, "faithful": true, "notified": nmin}));
    }

    // ---- (b') routers: random offending packets at the three failure sites
    let nr = if thorough { 1500 } else { 300 };
    let sites = ["expired", "egress_down", "unreachable"];
    for i in 0..nr {
        let site = *rng.pick(&sites);
        let t = pick_type(&mut rng);
        let have = *rng.pick(&[0usize, 3, 4, 7, 8, 9, 20, 28, 60]);
        let sc = scenario(site);
        let quote = offender_bytes(40, &mut rng);
        let mut m = scmp_template(t, 0, i as u16, 7, &[1, 2, 3], &quote, &mut rng);
        if m.len() < have {
            m.extend_from_slice(&rng.bytes(have - m.len()));
        }
        m.truncate(have);
        let Ok(mut original) = ScionRawPacket::new(sc.src, sc.dst, sc.ctx.data_plane_path.clone(), ProtocolNumber::Scmp, m).try_encode_to_owned_view().map(|v| v.as_slice().to_vec()) else { continue };
        if have >= 4 {
            wire::fix_l4_checksum(&mut original);
        }
        let mut work = original.clone();
        let src_dp = Arc::new(RecReceiver::default());
        let mut targets = NetworkReceiverRegistry::new();
        targets.add_receiver(ia(1, 1), "10.0.0.1/32".parse().unwrap(), src_dp.clone()).unwrap();
        let ext = ExternalAsRegistry::new();
        let ts = sc.ctx.timestamp;
        let res = catch(|| {
            let topology = sc.ctx.build_topology();
            if let Ok((view, _)) = ScionRawPacketView::try_from_mut_slice(&mut work) {
                NetworkSimulator::new(&targets, &ext, &topology, false).dispatch(ia(1, 1), 0, ScionNetworkTime(ts), view);
            }
        });
        if let Err(p) = res {
            pv.push(json!({"key": "Panic:pocketscion-dispatch", "what": format!("NetworkSimulator::dispatch panicked: {p}"), "pkt": wire::hex(&original)}));
            continue;
        }
        let back = src_dp.got.lock().unwrap().clone();
        bump("router_events", &mut stats);
        w.write(&json!({"ev": "router", "o": {"scmp": true, "t": t, "has4": have >= 4, "parsed": have >= wire::scmp_fixed_len(t).max(4)}, "answers": back.len(), "site": site}));
        for b in &back {
            let mm = measure_error(b, &original, Some(&work));
            if mm.get("unparsable").is_none() {
                w.write(&json!({"ev": "quote", "ctor": format!("pocket_sim/{site}"), "kind": "other", "hdr": mm["hdr"], "off": original.len(), "total": mm["total"], "quote": mm["quote"], "prefix": mm["prefix"], "ck": mm["ck"]}));
            }
        }
    }

    // ---- (d) socket runs with random packets
    let ns = if thorough { 1200 } else { 250 };
    let skinds = ["dgram", "dgram", "bad_udp", "err", "err", "bad_err", "uerr", "req", "bad_req", "rep", "treq", "uinfo", "other"];
    let mut runs = 0u64;
    for _ in 0..ns {
        let n = 1 + rng.below(12) as usize;
        let mut pkts: Vec<Vec<u8>> = vec![];
        for k in 0..n {
            let kind = *rng.pick(&skinds);
            let mut b = socket_packet(kind, (k + 1) as u16, &mut rng);
            if rng.chance(1, 6) {
                // mutate the L4 part (never the id-carrying bytes of datagrams: first two payload bytes stay)
                let hl = b[5] as usize * 4;
                if b.len() > hl + 14 {
                    // (never the id-carrying bytes: echo identifier, first two datagram bytes, last two quote bytes)
                    let pos = hl + 10 + rng.below((b.len() - hl - 12) as u64) as usize;
                    b[pos] ^= 1 << rng.below(8);
                }
            }
            pkts.push(b);
        }
        let mut splits = vec![];
        if n > 1 {
            let k = rng.below(3);
            for _ in 0..k {
                splits.push(1 + rng.below(n as u64 - 1) as usize);
            }
            splits.sort();
        }
        // (send failures are exercised by the socket replay; the hook records accepted sends only)
        let send_fails = false;
        let run = run_socket(&pkts, true, &splits, send_fails, &mut rng);
        runs += 1;
        w.write(&json!({"ev": "reset"}));
        for (k, b) in pkts.iter().enumerate() {
            let mut a = arrive_fields(b);
            a["ev"] = json!("arrive");
            a["id"] = json!(k + 1);
            w.write(&a);
        }
        for st in &run.steps {
            let st = st.clone();
            w.write(&st);
        }
        if let Some(p) = &run.panic {
            pv.push(json!({"key": "Panic:socket-recv", "what": format!("recv_from failed/panicked: {p}")}));
        }
        for u in &run.unfaithful {
            pv.push(json!({"key": "SocketReply:unfaithful", "what": u}));
        }
        let _ = send_fails;
    }
    stats.insert("socket_runs".into(), json!(runs));
    w.finish();
    let res = json!({"pv": pv, "stats": stats});
    std::fs::write(resp, serde_json::to_string(&res).unwrap()).unwrap_or_else(|e| {
        eprintln!("cannot write {resp}: {e}");
        std::process::exit(2)
    });
}

// =================================================================================================
// exchange: finished exchanges of ScmpExchange.tla on real end-host handlers + the real simulated network
// =================================================================================================

struct ExchangeWorld {
    healthy: TestPathContext,
    broken: TestPathContext,
    /// same path, the middle hop carries an ingress router alert (packets from A are served by that router)
    alert: TestPathContext,
    a: ScionAddr,
    b: ScionAddr,
    /// path bytes (type 1) for packets originated at B towards A (reversal of what arrives at B)
    path_b_to_a: Vec<u8>,
}

fn exchange_world() -> Option<ExchangeWorld> {
    let a = ScionAddr::new(ia(1, 1), v4(10, 0, 0, 1));
    let b = ScionAddr::new(ia(1, 99), v4(11, 0, 0, 1));
    let mk = |down: bool| {
        let bd = TestPathBuilder::new(a, b).up().add_hop(0, 1);
        let bd = if down { bd.add_hop_with_egress_down(2, 3) } else { bd.add_hop(2, 3) };
        bd.add_hop(4, 0).build(100)
    };
    let healthy = mk(false);
    let broken = mk(true);
    let alert = TestPathBuilder::new(a, b).up().add_hop(0, 1).add_hop_with_alerts(2, true, 3, false).add_hop(4, 0).build(100);
    // probe: what does a packet from A look like when it arrives at B?
    let rb = Arc::new(RecReceiver::default());
    let mut targets = NetworkReceiverRegistry::new();
    targets.add_receiver(ia(1, 99), "11.0.0.1/32".parse().unwrap(), rb.clone()).ok()?;
    let ext = ExternalAsRegistry::new();
    let topo = healthy.build_topology();
    let mut probe = healthy.scion_packet_udp(b"probe", 1, 2).into_raw().try_encode_to_owned_view().ok()?.as_slice().to_vec();
    let (view, _) = ScionRawPacketView::try_from_mut_slice(&mut probe).ok()?;
    NetworkSimulator::new(&targets, &ext, &topo, false).dispatch(ia(1, 1), 0, ScionNetworkTime(100), view);
    let got = rb.got.lock().unwrap().clone();
    let h = wire::parse_hdr(got.first()?)?;
    let path_b_to_a = wire::reverse_standard(&h.path)?;
    Some(ExchangeWorld { healthy, broken, alert, a, b, path_b_to_a })
}

/// class of a real packet in the vocabulary of ScmpExchange
fn exchange_kind(bytes: &[u8]) -> String {
    let Some(h) = wire::parse_hdr(bytes) else { return "unparsable".into() };
    if h.next == wire::PROTO_UDP {
        return "dgram".into();
    }
    match wire::describe_scmp(bytes) {
        None => "other".into(),
        Some((_, d)) => {
            if !d.complete || !d.cksum_ok {
                "bad".into()
            } else {
                match d.t {
                    128 => "req".into(),
                    129 => "rep".into(),
                    130 => "treq".into(),
                    131 => "trep".into(),
                    1 | 2 | 4 | 5 | 6 => "err".into(),
                    t if t < 128 => "uerr".into(),
                    _ => "uinfo".into(),
                }
            }
        }
    }
}

/// ancestry key of message `id` (1-based) in a list of (kind, by, src, cause)
fn real_key(msgs: &[(String, String, String, usize)], id: usize) -> String {
    let (k, by, src, cause) = &msgs[id - 1];
    if *cause == 0 || *cause > msgs.len() { format!("({k},{src})") } else { format!("({k},{by},{})", real_key(msgs, *cause)) }
}

fn cmd_exchange(inp: &str, outp: &str) {
    let beh = read_ndjson(inp);
    let mut w = NdjsonWriter::create(outp);
    let mut rng = Rng::new(seed_from_env() ^ 0xC14F);
    let Some(world) = exchange_world() else {
        // the probe through the healthy network did not arrive: report per behaviour, let the check judge
        for (i, _) in beh.iter().enumerate() {
            w.write(&json!({"i": i, "world_failed": true}));
        }
        w.finish();
        return;
    };
    let ext = ExternalAsRegistry::new();
    for (i, b) in beh.iter().enumerate() {
        let log = b["log"].as_array().unwrap();
        // receivers of the two hosts
        let ra = Arc::new(RecReceiver::default());
        let rb = Arc::new(RecReceiver::default());
        let mut targets = NetworkReceiverRegistry::new();
        targets.add_receiver(ia(1, 1), "10.0.0.1/32".parse().unwrap(), ra.clone()).unwrap();
        targets.add_receiver(ia(1, 99), "11.0.0.1/32".parse().unwrap(), rb.clone()).unwrap();
        // application-side error receivers of the two hosts
        let ea = Arc::new(ErrRecorder::default());
        let eb = Arc::new(ErrRecorder::default());
        // real messages: (bytes, cause, by, at_host (already delivered there: router errors), src host name)
        struct RealMsg {
            bytes: Vec<u8>,
            cause: usize,
            by: &'static str,
            src: &'static str,
            dst: &'static str,
            pre_delivered: bool,
            /// the bytes as they arrived at the destination host (what its handlers saw)
            arrived: Option<Vec<u8>>,
        }
        let mut msgs: Vec<RealMsg> = vec![];
        // originated messages in model order (cause = 0); children are appended as the real code creates them
        let originated: Vec<&Value> = log.iter().filter(|m| m["cause"].as_u64() == Some(0)).collect();
        let mut orig_iter = originated.iter();
        // model fates by ancestry key
        let model_tuples: Vec<(String, String, String, usize)> = log
            .iter()
            .map(|m| (m["k"].as_str().unwrap().to_string(), m["by"].as_str().unwrap().to_string(), m["src"].as_str().unwrap().to_string(), m["cause"].as_u64().unwrap() as usize))
            .collect();
        let mut model_fates: std::collections::HashMap<String, Vec<String>> = std::collections::HashMap::new();
        for (j, m) in log.iter().enumerate() {
            model_fates.entry(real_key(&model_tuples, j + 1)).or_default().push(m["fate"].as_str().unwrap().to_string());
        }
        let mut panic: Option<String> = None;
        let mut steps = 0usize;
        let mut idx = 0usize; // next message to settle (id = idx+1)
        let mut notes: Vec<String> = vec![];
        loop {
            // originate the next spontaneous message whenever the model does (model ids are creation-ordered: a message with
            // cause 0 appears at the position where it was created)
            let model_here = log.get(msgs.len());
            if let Some(m) = model_here {
                if m["cause"].as_u64() == Some(0) {
                    let m = orig_iter.next().unwrap();
                    let k = m["k"].as_str().unwrap();
                    let from_a = m["src"].as_str() == Some("A");
                    let (src, dst) = if from_a { (world.a, world.b) } else { (world.b, world.a) };
                    let served = m["fate"].as_str() == Some("served");
                    let path = if from_a {
                        if served { world.alert.data_plane_path.clone() } else { world.healthy.data_plane_path.clone() }
                    } else {
                        dp_path_from_bytes(1, &world.path_b_to_a).unwrap_or(DpPath::Empty)
                    };
                    let id = (msgs.len() + 1) as u16;
                    let quote = offender_bytes(70, &mut rng);
                    let data = rng.bytes(16);
                    let bytes = if k == "dgram" {
                        sciparse::packet::model::ScionUdpPacket::new(
                            sciparse::address::socket_addr::ScionSocketAddr::new(src.isd_asn(), src.host(), 4000),
                            sciparse::address::socket_addr::ScionSocketAddr::new(dst.isd_asn(), dst.host(), 5000),
                            path,
                            data.clone(),
                        )
                        .into_raw()
                        .try_encode_to_owned_view()
                        .map(|v| v.as_slice().to_vec())
                    } else {
                        let t = match k {
                            "req" | "bad" => 128,
                            "rep" => 129,
                            "treq" => 130,
                            "trep" => 131,
                            "err" => 4,
                            "uerr" => 100,
                            _ => 200,
                        };
                        let m = scmp_template(t, 0, id, 1, &data, &quote, &mut rng);
                        ScionRawPacket::new(src, dst, path, ProtocolNumber::Scmp, m).try_encode_to_owned_view().map(|v| v.as_slice().to_vec())
                    };
                    match bytes {
                        Ok(mut bts) => {
                            wire::fix_l4_checksum(&mut bts);
                            if k == "bad" {
                                let hl = bts[5] as usize * 4;
                                bts[hl + 2] ^= 0x55;
                                bts[hl + 3] ^= 0xaa;
                            }
                            msgs.push(RealMsg { bytes: bts, cause: 0, by: "host", src: if from_a { "A" } else { "B" }, dst: if from_a { "B" } else { "A" }, pre_delivered: false, arrived: None });
                        }
                        Err(e) => {
                            notes.push(format!("could not build originated {k}: {e:?}"));
                            break;
                        }
                    }
                    continue;
                }
            }
            if idx >= msgs.len() {
                break;
            }
            steps += 1;
            if steps > 40 {
                notes.push("more than 40 messages settled: exchange does not die out".into());
                break;
            }
            // settle message idx with the fate the model chose for the message of the same ancestry
            // (unexpected extra messages: delivered)
            let key = real_key(&msgs.iter().map(|m| (exchange_kind(&m.bytes), m.by.to_string(), m.src.to_string(), m.cause)).collect::<Vec<_>>(), idx + 1);
            let fate = model_fates.get_mut(&key).and_then(|v| if v.is_empty() { None } else { Some(v.remove(0)) }).unwrap_or_else(|| "delivered".to_string());
            let id = idx + 1;
            let (bytes, src_name, dst_name, pre) = {
                let m = &msgs[idx];
                (m.bytes.clone(), m.src, m.dst, m.pre_delivered)
            };
            idx += 1;
            if fate == "lost" {
                continue;
            }
            let src_as = if src_name == "A" { ia(1, 1) } else { ia(1, 99) };
            let before_a = ra.got.lock().unwrap().len();
            let before_b = rb.got.lock().unwrap().len();
            if !pre {
                let ctx = if fate == "failed" {
                    &world.broken
                } else if fate == "served" {
                    &world.alert
                } else {
                    &world.healthy
                };
                let mut work = bytes.clone();
                let r = catch(|| {
                    let topo = ctx.build_topology();
                    if let Ok((view, _)) = ScionRawPacketView::try_from_mut_slice(&mut work) {
                        NetworkSimulator::new(&targets, &ext, &topo, false).dispatch(src_as, 0, ScionNetworkTime(100), view);
                    }
                });
                if let Err(p) = r {
                    panic = Some(p);
                    break;
                }
            }
            // what arrived where
            let new_a: Vec<Vec<u8>> = ra.got.lock().unwrap()[before_a..].to_vec();
            let new_b: Vec<Vec<u8>> = rb.got.lock().unwrap()[before_b..].to_vec();
            let mut arrivals: Vec<(&'static str, Vec<u8>)> = vec![];
            if pre {
                arrivals.push((dst_name, bytes.clone()));
            }
            for x in new_a {
                arrivals.push(("A", x));
            }
            for x in new_b {
                arrivals.push(("B", x));
            }
            for (host, pkt) in arrivals {
                // the message itself (L4 bytes unchanged in flight) or a packet created by the network about it?
                let l4 = |x: &[u8]| wire::parse_hdr(x).map(|h| h.payload(x).to_vec());
                let is_own = l4(&pkt).is_some() && l4(&pkt) == l4(&bytes);
                if !pre && !is_own {
                    // a packet created by the network (router error about message id): it is a new message, already at its destination
                    msgs.push(RealMsg { bytes: pkt.clone(), cause: id, by: "router", src: "R", dst: host, pre_delivered: true, arrived: None });
                    continue;
                }
                if (fate == "failed" || fate == "served") && !pre {
                    notes.push(format!("message {id} arrived at {host} although its fate is {fate}"));
                }
                msgs[id - 1].arrived = Some(pkt.clone());
                // the host's SCMP handlers (socket wiring: error handler with the application receiver, then echo handler)
                let Ok((view, _)) = ScionRawPacketView::try_from_slice(&pkt) else { continue };
                if wire::parse_hdr(&pkt).map(|h| h.next) != Some(wire::PROTO_SCMP) {
                    continue;
                }
                let er: Vec<Arc<dyn ScmpErrorReceiver>> = vec![if host == "A" { ea.clone() } else { eb.clone() }];
                let r = catch(|| {
                    let mut out = vec![];
                    if let Some(x) = sockhook::scmp_error_handler(&er).handle(view) {
                        out.push(x);
                    }
                    if let Some(x) = DefaultEchoHandler::new().handle(view) {
                        out.push(x);
                    }
                    out.into_iter().filter_map(|x| x.try_encode_to_owned_view().ok().map(|v| v.as_slice().to_vec())).collect::<Vec<_>>()
                });
                match r {
                    Err(p) => {
                        panic = Some(p);
                    }
                    Ok(replies) => {
                        for rp in replies {
                            let other = if host == "A" { "B" } else { "A" };
                            msgs.push(RealMsg { bytes: rp, cause: id, by: "host", src: host, dst: other, pre_delivered: false, arrived: None });
                        }
                    }
                }
            }
            if panic.is_some() {
                break;
            }
        }
        let real: Vec<Value> = msgs
            .iter()
            .map(|m| {
                let served_ok = if m.by == "router" && m.cause > 0 {
                    match (wire::describe_scmp(&msgs[m.cause - 1].bytes), wire::describe_scmp(&m.bytes)) {
                        (Some((hq, dq)), Some((hr, dr))) if dr.t == 129 || dr.t == 131 => Some(
                            dq.id == dr.id && dq.seq == dr.seq && (dr.t == 131 || dq.data == dr.data) && dr.t == dq.t + 1 && dr.cksum_ok && hr.dst_ia == hq.src_ia && hr.dst_host == hq.src_host,
                        ),
                        _ => None,
                    }
                } else {
                    None
                };
                let faithful = if m.by == "host" && m.cause > 0 { Some(echo_faithful(msgs[m.cause - 1].arrived.as_deref().unwrap_or(&msgs[m.cause - 1].bytes), &m.bytes)) } else { None };
                json!({"k": exchange_kind(&m.bytes), "cause": m.cause, "by": m.by, "src": m.src, "dst": m.dst,
                       "faithful": faithful.as_ref().map(|f| f.0 && f.2), "why": faithful.map(|f| f.1), "served_ok": served_ok})
            })
            .collect();
        w.write(&json!({"i": i, "real": real, "notified_a": ea.got.lock().unwrap().len(), "notified_b": eb.got.lock().unwrap().len(), "panic": panic, "notes": notes}));
    }
    w.finish();
}

fn main() {
    quiet_panics();
    let a: Vec<String> = std::env::args().collect();
    if a.len() == 3 && a[1] == "one" {
        // debugging / stored counterexamples: feed one packet (hex) to the handlers
        let b = wire::unhex(&a[2]);
        let o = observe_handlers(&b);
        let mut j = obs_json(&o);
        j["d"] = descriptor(&b).unwrap_or(Value::Null);
        j["reply"] = json!(o.reply_hex);
        println!("{}", serde_json::to_string_pretty(&j).unwrap());
        return;
    }
    if a.len() < 4 {
        eprintln!("usage: c14_scmp quote|reply|router|socket|record <in> <out>");
        std::process::exit(2);
    }
    match a[1].as_str() {
        "quote" => cmd_quote(&a[2], &a[3]),
        "reply" => cmd_reply(&a[2], &a[3]),
        "router" => cmd_router(&a[2], &a[3]),
        "socket" => cmd_socket(&a[2], &a[3]),
        "record" => cmd_record(&a[2], &a[3]),
        "exchange" => cmd_exchange(&a[2], &a[3]),
        _ => {
            eprintln!("unknown subcommand");
            std::process::exit(2)
        }
    }
}
