fn main() {}
