//! C14 harness: SCMP quoting / checksum / reply decision / socket receive path on the REAL code.
//!
//!   c14_scmp quote  <cells.ndjson> <out.ndjson>    spec->impl: error packets through every constructor
//!   c14_scmp reply  <cells.ndjson> <out.ndjson>    spec->impl: every message descriptor into the handlers
//!   c14_scmp router <cells.ndjson> <out.ndjson>    spec->impl: offending packets at a simulated router
//!   c14_scmp socket <behaviours.ndjson> <out.ndjson> spec->impl: arrival sequences on the real socket
//!   c14_scmp record <events.ndjson> <results.json> impl->spec: seeded random executions as a trace
//!
//! All facts reported about packets (lengths, quote, checksum, reversal) are computed with the
//! independent reference code in vh_scmp::wire, never with the code under test.
#![allow(unused_imports, dead_code)]
use std::{
    net::{IpAddr, Ipv4Addr, Ipv6Addr, SocketAddr},
    sync::{Arc, Mutex},
};

use pocketscion::network::{
    local::{
        external_as_registry::ExternalAsRegistry, receiver_registry::NetworkReceiverRegistry, receivers::Receiver,
        simulator::LocalNetworkSimulation,
    },
    scion::{
        routing::{LocalAsRoutingAction, ScionNetworkTime},
        topology::ScionRouter,
        util::test_topology_ext::TestPathContextTopologyExt,
    },
    simulator::NetworkSimulator,
};
use scion_stack::stack::{
    scmp_handler::{DefaultEchoHandler, ScmpErrorReceiver, ScmpHandler},
    socket::verif as sockhook,
};
use sciparse::{
    address::{addr::ScionAddr, host_addr::ScionHostAddr, ip_socket_addr::ScionSocketIpAddr},
    core::{model::Model, view::View},
    dataplane_path::{
        model::DpPath,
        view::{ScionDpPathViewExt, ScionDpPathViewRef},
    },
    identifier::{asn::Asn, isd::Isd, isd_asn::IsdAsn},
    packet::{
        model::{ScionRawPacket, ScionScmpPacket},
        view::ScionRawPacketView,
    },
    payload::{
        ProtocolNumber,
        scmp::{
            model::{
                ScmpDestinationUnreachable, ScmpErrorMessage, ScmpExternalInterfaceDown, ScmpInternalConnectivityDown,
                ScmpMessage, ScmpPacketTooBig, ScmpParameterProblem,
            },
            types::{ScmpDestinationUnreachableCode, ScmpParameterProblemCode},
        },
    },
    util::test_builder::{TestPathBuilder, TestPathContext},
};
use serde_json::{Value, json};
use vh_core::{NdjsonWriter, Rng, catch, quiet_panics, read_ndjson, seed_from_env, tier_is_thorough};
use vh_scmp::wire::{self, Hdr};

// =================================================================================================
// builders shared by all subcommands
// =================================================================================================

fn ia(isd: u16, asn: u64) -> IsdAsn {
    IsdAsn::new(Isd(isd), Asn(asn))
}
fn ia_bytes(isd: u16, asn: u64) -> [u8; 8] {
    let v = ((isd as u64) << 48) | asn;
    v.to_be_bytes()
}
fn v4(a: u8, b: u8, c: u8, d: u8) -> ScionHostAddr {
    ScionHostAddr::V4(Ipv4Addr::new(a, b, c, d))
}
fn v6(x: u16) -> ScionHostAddr {
    ScionHostAddr::V6(Ipv6Addr::new(0x2001, 0xdb8, 0, 0, 0, 0, 0, x))
}

/// raw bytes of a standard path with the given segment lengths and pointers; hop fields are random
fn std_path_bytes(seglens: [usize; 3], ci: usize, ch: usize, rng: &mut Rng) -> Vec<u8> {
    let nseg = seglens.iter().filter(|&&x| x > 0).count();
    let nh: usize = seglens.iter().sum();
    let meta: u32 = ((ci as u32) << 30) | ((ch as u32) << 24) | ((seglens[0] as u32) << 12) | ((seglens[1] as u32) << 6) | seglens[2] as u32;
    let mut p = meta.to_be_bytes().to_vec();
    for _ in 0..nseg {
        let mut inf = rng.bytes(8);
        inf[0] &= 0x01; // only ConsDir (peering flag would change router semantics, irrelevant here)
        inf[1] = 0;
        p.extend_from_slice(&inf);
    }
    for _ in 0..nh {
        let mut h = rng.bytes(12);
        h[0] = 0; // no router alerts
        p.extend_from_slice(&h);
    }
    p
}

/// segment lengths of a standard path of exactly `plen` bytes, if one exists
fn std_seglens_for(plen: usize, prefer_segs: usize) -> Option<[usize; 3]> {
    let mut order = vec![prefer_segs];
    for s in 1..=3 {
        if s != prefer_segs {
            order.push(s);
        }
    }
    for s in order {
        if plen < 4 + 8 * s + 12 * s {
            continue;
        }
        let rest = plen - 4 - 8 * s;
        if rest % 12 != 0 {
            continue;
        }
        let h = rest / 12;
        if h < s || h > 63 * s {
            continue;
        }
        // distribute h hops over s segments, each 1..=63
        let mut sl = [0usize; 3];
        let mut left = h;
        for i in 0..s {
            let remaining_segs = s - i - 1;
            let take = (left - remaining_segs).min(63);
            sl[i] = take;
            left -= take;
        }
        if left == 0 {
            return Some(sl);
        }
    }
    None
}

/// the SDK model of a path given as wire bytes (goes through the SDK's own parser on a carrier packet)
fn dp_path_from_bytes(ptype: u8, path: &[u8]) -> Option<DpPath> {
    let b = wire::build_packet(17, ptype, (0, 0), (0, 0), ia_bytes(1, 1), ia_bytes(1, 2), &[10, 0, 0, 1], &[10, 0, 0, 2], path, &[]);
    let (v, _) = ScionRawPacketView::try_from_slice(&b).ok()?;
    Some(v.header().path().to_model())
}

#[derive(Clone)]
struct Shape {
    name: String,
    src: ScionAddr,
    dst: ScionAddr,
    path: DpPath,
    ptype: u8,
    path_bytes: Vec<u8>,
}

fn host_len(h: &ScionHostAddr) -> usize {
    match h {
        ScionHostAddr::V4(_) => 4,
        ScionHostAddr::V6(_) => 16,
        ScionHostAddr::Svc(_) => 4,
    }
}

/// header shapes (addresses + path) whose encoded SCION header is exactly `hdr` bytes
fn shapes_for_hdr(hdr: usize, rng: &mut Rng) -> Vec<Shape> {
    let mut out = vec![];
    let combos: [(&str, ScionHostAddr, ScionHostAddr); 3] =
        [("v4v4", v4(192, 0, 2, 1), v4(198, 51, 100, 7)), ("v4v6", v4(192, 0, 2, 1), v6(7)), ("v6v6", v6(1), v6(7))];
    for (cn, s, d) in combos.iter() {
        let a = 16 + host_len(s) + host_len(d);
        if hdr < 12 + a {
            continue;
        }
        let plen = hdr - 12 - a;
        let src = ScionAddr::new(ia(1, 0xff00_0000_0110), *s);
        let dst = ScionAddr::new(ia(2, 0xff00_0000_0220), *d);
        if plen == 0 {
            out.push(Shape { name: format!("{cn}/empty"), src, dst, path: DpPath::Empty, ptype: 0, path_bytes: vec![] });
            continue;
        }
        let prefer = 1 + rng.below(3) as usize;
        if let Some(sl) = std_seglens_for(plen, prefer) {
            let nseg = sl.iter().filter(|&&x| x > 0).count();
            let nh: usize = sl.iter().sum();
            // pointers: consistent (ch inside segment ci)
            let ci = rng.below(nseg as u64) as usize;
            let base: usize = sl[..ci].iter().sum();
            let ch = (base + rng.below(sl[ci] as u64) as usize).min(nh - 1).min(63);
            let ci = if ch < base { 0 } else { ci };
            let pb = std_path_bytes(sl, ci, ch, rng);
            if let Some(p) = dp_path_from_bytes(1, &pb) {
                out.push(Shape { name: format!("{cn}/std{}-{}-{}", sl[0], sl[1], sl[2]), src, dst, path: p, ptype: 1, path_bytes: pb });
            }
        }
        if *cn == "v4v4" {
            // opaque path of an unknown type: reaches every header size
            let data = rng.bytes(plen);
            out.push(Shape {
                name: "v4v4/opaque".into(),
                src,
                dst,
                path: DpPath::Unsupported { path_type: sciparse::dataplane_path::types::PathType::Other(77), data: data.clone() },
                ptype: 77,
                path_bytes: data,
            });
        }
    }
    out
}

/// a plausible offending packet of exactly `len` bytes (a SCION/UDP packet when long enough, else its prefix)
fn offender_bytes(len: usize, rng: &mut Rng) -> Vec<u8> {
    let pay_len = len.saturating_sub(36 + 24);
    let mut udp = vec![0u8; 8];
    udp[0..2].copy_from_slice(&(40000u16 + rng.below(1000) as u16).to_be_bytes());
    udp[2..4].copy_from_slice(&443u16.to_be_bytes());
    udp[4..6].copy_from_slice(&(((8 + pay_len.saturating_sub(8)) & 0xffff) as u16).to_be_bytes());
    udp.extend_from_slice(&rng.bytes(pay_len.saturating_sub(8)));
    let path = std_path_bytes([2, 0, 0], 0, 0, rng);
    let mut b = wire::build_packet(17, 1, (0, 0), (0, 0), ia_bytes(2, 0xff00_0000_0220), ia_bytes(1, 0xff00_0000_0110), &[198, 51, 100, 7], &[192, 0, 2, 1], &path, &udp[..udp.len().min(65000)]);
    if b.len() < len {
        b.extend_from_slice(&rng.bytes(len - b.len()));
    }
    b.truncate(len);
    // make every byte position distinguishable: xor a position pattern into the tail
    b
}

fn mk_error(kind: &str, offender: Vec<u8>, rng: &mut Rng) -> ScmpErrorMessage {
    match kind {
        "DestUnreach" => ScmpDestinationUnreachable::new(ScmpDestinationUnreachableCode::from(rng.below(8) as u8), offender).into(),
        "PacketTooBig" => ScmpPacketTooBig::new(1200 + rng.below(300) as u16, offender).into(),
        "ParamProblem" => ScmpParameterProblem::new(ScmpParameterProblemCode::from(*rng.pick(&[0u8, 1, 16, 32, 48, 64, 200])), rng.below(2000) as u16, offender).into(),
        "ExtIfDown" => ScmpExternalInterfaceDown::new(ia(1, 0xff00_0000_0111), rng.below(65536) as u16, offender).into(),
        "IntConnDown" => ScmpInternalConnectivityDown::new(ia(1, 0xff00_0000_0111), rng.below(65536) as u16, rng.below(65536) as u16, offender).into(),
        _ => panic!("unknown kind {kind}"),
    }
}

/// facts about an encoded error packet, measured with the reference reader
fn measure_error(bytes: &[u8], offender: &[u8], also_prefix_of: Option<&[u8]>) -> Value {
    let mut o = json!({"total": bytes.len()});
    match wire::describe_scmp(bytes) {
        Some((h, d)) => {
            let pl = h.payload(bytes).len();
            let fixed = wire::scmp_fixed_len(d.t);
            let prefix = offender.starts_with(&d.quote) || also_prefix_of.map(|x| x.starts_with(&d.quote)).unwrap_or(false);
            o["hdr"] = json!(h.hdr_len);
            o["t"] = json!(d.t);
            o["code"] = json!(d.code);
            o["scmp_len"] = json!(pl);
            o["pay_len_field"] = json!(h.pay_len);
            o["quote"] = json!(if d.complete { pl - fixed } else { 0 });
            o["complete"] = json!(d.complete);
            o["prefix"] = json!(d.complete && prefix);
            o["prefix_of_original"] = json!(d.complete && offender.starts_with(&d.quote));
            o["ck"] = json!(d.cksum_ok);
            o["len_consistent"] = json!(h.hdr_len + h.pay_len == bytes.len());
        }
        None => {
            o["unparsable"] = json!(true);
        }
    }
    o
}

#[derive(Default)]
struct RecReceiver {
    got: Mutex<Vec<Vec<u8>>>,
}
impl Receiver for RecReceiver {
    fn receive_packet(&self, packet: &ScionRawPacketView) {
        self.got.lock().unwrap().push(packet.as_slice().to_vec());
    }
}

// =================================================================================================
// quote
// =================================================================================================

fn ctor_sciparse(shape: &Shape, msg: &ScmpErrorMessage, raw_first: bool) -> Result<Vec<u8>, String> {
    let p = ScionScmpPacket::new(shape.src, shape.dst, shape.path.clone(), msg.clone().into());
    let r = if raw_first { p.into_raw().try_encode_to_owned_view().map(|v| v.as_slice().to_vec()) } else { p.try_encode_to_owned_view().map(|v| v.as_slice().to_vec()) };
    r.map_err(|e| format!("{e:?}"))
}

/// pocketscion maybe_create_scmp_reply via the public LocalNetworkSimulation::handle_local_routing_action
fn ctor_pocket_reply(hdr: usize, msg: &ScmpErrorMessage, rng: &mut Rng) -> Vec<(String, Result<Vec<u8>, String>)> {
    let mut out = vec![];
    // reply header = 12 + 16 + len(router ip) + len(offender src host) + path
    for (rn, rip) in [("r4", IpAddr::V4(Ipv4Addr::new(10, 9, 9, 9))), ("r6", IpAddr::V6(Ipv6Addr::new(0xfd00, 0, 0, 0, 0, 0, 0, 9)))] {
        for (sn, shost) in [("s4", vec![192u8, 0, 2, 1]), ("s6", Ipv6Addr::new(0x2001, 0xdb8, 0, 0, 0, 0, 0, 1).octets().to_vec())] {
            let rl = if rip.is_ipv4() { 4 } else { 16 };
            let a = 16 + rl + shost.len();
            if hdr < 12 + a {
                continue;
            }
            let plen = hdr - 12 - a;
            let (ptype, pb) = if plen == 0 {
                (0u8, vec![])
            } else if let Some(sl) = std_seglens_for(plen, 1 + rng.below(3) as usize) {
                let nh: usize = sl.iter().sum();
                // a packet in flight at some router: pointers anywhere consistent
                let nseg = sl.iter().filter(|&&x| x > 0).count();
                let ci = rng.below(nseg as u64) as usize;
                let base: usize = sl[..ci].iter().sum();
                let ch = base + rng.below(sl[ci] as u64) as usize;
                if ch >= 64 || ch >= nh {
                    (1u8, std_path_bytes(sl, 0, 0, rng))
                } else {
                    (1u8, std_path_bytes(sl, ci, ch, rng))
                }
            } else {
                continue;
            };
            let sl_nib = if shost.len() == 4 { 0 } else { 3 };
            let mut respond_to = wire::build_packet(17, ptype, (0, 0), (0, sl_nib), ia_bytes(2, 0xff00_0000_0220), ia_bytes(1, 0xff00_0000_0110), &[198, 51, 100, 7], &shost, &pb, &[0, 80, 0, 81, 0, 12, 0, 0, 1, 2, 3, 4]);
            let local_as = ia(2, 0xff00_0000_0221);
            let router = ScionRouter::new(vec![1, 2], SocketAddr::new(rip, 30042));
            let receivers = NetworkReceiverRegistry::new();
            let ext = ExternalAsRegistry::new();
            let name = format!("pocket_reply/{rn}{sn}/{}", if ptype == 0 { "empty" } else { "std" });
            let res = catch(|| {
                let (view, _) = ScionRawPacketView::try_from_mut_slice(&mut respond_to).map_err(|e| format!("carrier rejected: {e:?}"))?;
                let sim = LocalNetworkSimulation::new(local_as, 1, &receivers, &ext, &router);
                match sim.handle_local_routing_action(LocalAsRoutingAction::SendSCMPErrorResponse(msg.clone()), view) {
                    Ok(Some(raw)) => raw.try_encode_to_owned_view().map(|v| v.as_slice().to_vec()).map_err(|e| format!("encode: {e:?}")),
                    Ok(None) => Err("no reply".into()),
                    Err(e) => Err(format!("sim error: {e:#}")),
                }
            });
            out.push((name, res.unwrap_or_else(|p| Err(format!("PANIC {p}")))));
        }
    }
    out
}

/// SNAP tunnel gateway: the reply the gateway loop builds for a datagram failing the ingress policy
fn ctor_snap(hdr: usize, off: usize, variant: u64, rng: &mut Rng) -> Vec<(String, Vec<u8>, Result<Vec<u8>, String>)> {
    use snap_dataplane::tunnel_gateway::gateway::verif::ingress_reply;
    let mut out = vec![];
    let combos: [(&str, IpAddr, ScionHostAddr); 4] = [
        ("p4l4", IpAddr::V4(Ipv4Addr::new(203, 0, 113, 5)), v4(10, 1, 1, 1)),
        ("p4l6", IpAddr::V4(Ipv4Addr::new(203, 0, 113, 5)), v6(0x11)),
        ("p6l4", IpAddr::V6(Ipv6Addr::new(0x2001, 0xdb8, 1, 0, 0, 0, 0, 5)), v4(10, 1, 1, 1)),
        ("p6l6", IpAddr::V6(Ipv6Addr::new(0x2001, 0xdb8, 1, 0, 0, 0, 0, 5)), v6(0x11)),
    ];
    for (cn, peer, local) in combos {
        let h = 12 + 16 + if peer.is_ipv4() { 4 } else { 16 } + host_len(&local);
        if h != hdr {
            continue;
        }
        // an offending datagram of exactly `off` bytes failing one of the three policies
        let (why, datagram) = match variant % 3 {
            0 => {
                // malformed: version nibble != 0 (or too short)
                let mut d = rng.bytes(off);
                if !d.is_empty() {
                    d[0] |= 0x10;
                }
                ("malformed", d)
            }
            1 => {
                // wrong source address: valid SCION/UDP packet from another IP
                let mut d = offender_bytes(off.max(36 + 24 + 8), rng);
                d.truncate(off.max(36 + 24 + 8));
                if off < d.len() {
                    // cannot be a valid packet at this length: fall back to malformed
                    let mut m = rng.bytes(off);
                    if !m.is_empty() {
                        m[0] |= 0x10;
                    }
                    ("malformed", m)
                } else {
                    // payload_len must match the datagram for the raw view; offender_bytes pads, so fix the field
                    let hl = d[5] as usize * 4;
                    let pl = (off - hl).min(65535) as u16;
                    d[6..8].copy_from_slice(&pl.to_be_bytes());
                    ("wrong_src", d)
                }
            }
            _ => {
                // unsupported path type (one-hop) from the right source address
                let srcb: Vec<u8> = match peer {
                    IpAddr::V4(a) => a.octets().to_vec(),
                    IpAddr::V6(a) => a.octets().to_vec(),
                };
                let sl_nib = if srcb.len() == 4 { 0 } else { 3 };
                let base = 12 + 16 + 4 + srcb.len() + 32;
                if off < base {
                    let mut m = rng.bytes(off);
                    if !m.is_empty() {
                        m[0] |= 0x10;
                    }
                    ("malformed", m)
                } else {
                    let pay = rng.bytes((off - base).min(65535));
                    let mut d = wire::build_packet(17, 2, (0, 0), (0, sl_nib), ia_bytes(2, 0x220), ia_bytes(1, 0x110), &[198, 51, 100, 7], &srcb, &rng.bytes(32), &pay);
                    if d.len() < off {
                        d.extend_from_slice(&rng.bytes(off - d.len()));
                    }
                    ("onehop", d)
                }
            }
        };
        let res = catch(|| match ingress_reply(&datagram, peer, local) {
            None => Err("policy passed".to_string()),
            Some(Ok(b)) => Ok(b),
            Some(Err(e)) => Err(format!("encode: {e:?}")),
        });
        out.push((format!("snap/{cn}/{why}"), datagram, res.unwrap_or_else(|p| Err(format!("PANIC {p}")))));
    }
    out
}

fn cmd_quote(inp: &str, outp: &str) {
    let cells = read_ndjson(inp);
    let mut w = NdjsonWriter::create(outp);
    let mut rng = Rng::new(seed_from_env() ^ 0xC14);
    for (i, c) in cells.iter().enumerate() {
        let kind = c["kind"].as_str().unwrap();
        let hdr = c["hdr"].as_u64().unwrap() as usize;
        let off = c["off"].as_u64().unwrap() as usize;
        let offender = offender_bytes(off, &mut rng);
        let msg = mk_error(kind, offender.clone(), &mut rng);
        let mut results = vec![];
        for shape in shapes_for_hdr(hdr, &mut rng) {
            for raw_first in [false, true] {
                let name = format!("{}/{}", if raw_first { "sciparse_raw" } else { "sciparse" }, shape.name);
                let r = catch(|| ctor_sciparse(&shape, &msg, raw_first)).unwrap_or_else(|p| Err(format!("PANIC {p}")));
                let mut o = match &r {
                    Ok(b) => measure_error(b, &offender, None),
                    Err(e) => json!({"err": e}),
                };
                o["ctor"] = json!(name);
                results.push(o);
            }
        }
        for (name, r) in ctor_pocket_reply(hdr, &msg, &mut rng) {
            let mut o = match &r {
                Ok(b) => measure_error(b, &offender, None),
                Err(e) => json!({"err": e}),
            };
            o["ctor"] = json!(name);
            results.push(o);
        }
        if kind == "ParamProblem" {
            for (name, datagram, r) in ctor_snap(hdr, off, i as u64, &mut rng) {
                let mut o = match &r {
                    Ok(b) => measure_error(b, &datagram, None),
                    Err(e) => json!({"err": e}),
                };
                o["ctor"] = json!(name);
                results.push(o);
            }
        }
        w.write(&json!({"kind": kind, "hdr": hdr, "off": off, "results": results}));
    }
    w.finish();
}

// =================================================================================================
// reply: message descriptors -> real handlers
// =================================================================================================

/// SCMP message template of type t (long enough for every `have`), with the given echo fields / quote
fn scmp_template(t: u8, code: u8, id: u16, seq: u16, data: &[u8], quote: &[u8], rng: &mut Rng) -> Vec<u8> {
    let mut m = vec![t, code, 0, 0];
    match t {
        128 | 129 => {
            m.extend_from_slice(&id.to_be_bytes());
            m.extend_from_slice(&seq.to_be_bytes());
            m.extend_from_slice(data);
        }
        130 | 131 => {
            m.extend_from_slice(&id.to_be_bytes());
            m.extend_from_slice(&seq.to_be_bytes());
            m.extend_from_slice(&ia_bytes(1, 0xff00_0000_0111));
            m.extend_from_slice(&(rng.below(65536)).to_be_bytes());
        }
        1 => {
            m.extend_from_slice(&[0, 0, 0, 0]);
            m.extend_from_slice(quote);
        }
        2 | 4 => {
            m.extend_from_slice(&[0, 0]);
            m.extend_from_slice(&id.to_be_bytes()); // mtu / pointer carries the case id
            m.extend_from_slice(quote);
        }
        5 => {
            m.extend_from_slice(&ia_bytes(1, 0xff00_0000_0111));
            m.extend_from_slice(&(id as u64).to_be_bytes());
            m.extend_from_slice(quote);
        }
        6 => {
            m.extend_from_slice(&ia_bytes(1, 0xff00_0000_0111));
            m.extend_from_slice(&(id as u64).to_be_bytes());
            m.extend_from_slice(&(seq as u64).to_be_bytes());
            m.extend_from_slice(quote);
        }
        _ => {
            m.extend_from_slice(&id.to_be_bytes());
            m.extend_from_slice(&seq.to_be_bytes());
            m.extend_from_slice(data);
        }
    }
    m
}

struct Req {
    bytes: Vec<u8>,
    id: u16,
    seq: u16,
}

#[derive(Clone, Copy, PartialEq, Debug)]
enum PathKind {
    Empty,
    Std(usize),
    OneHop,
    Opaque,
}

/// Build the packet of a reply cell. None = the cell has no concrete instance (checksum field absent but ck demanded).
#[allow(clippy::too_many_arguments)]
fn build_scmp_packet(t: u8, code: u8, have: usize, trunc: bool, ck: bool, pk: PathKind, addr_ok: bool, quote_err: bool, case_id: u16, rng: &mut Rng) -> Option<Req> {
    if have < 4 && ck {
        return None;
    }
    let id = case_id;
    let seq = rng.below(65536) as u16;
    let data = rng.bytes(64);
    // quoted packet for error types: a SCION/UDP packet, or (quote_err) a SCION/SCMP error packet
    let quote = if quote_err {
        let inner = scmp_template(1, 0, 0, 0, &[], &rng.bytes(20), rng);
        let mut q = wire::build_packet(202, 0, (0, 0), (0, 0), ia_bytes(2, 0x220), ia_bytes(1, 0x110), &[198, 51, 100, 7], &[192, 0, 2, 1], &[], &inner);
        wire::fix_l4_checksum(&mut q);
        q
    } else {
        offender_bytes(90, rng)
    };
    let tmpl = scmp_template(t, code, id, seq, &data, &quote, rng);
    let mut msg = tmpl.clone();
    if msg.len() < have {
        msg.extend_from_slice(&rng.bytes(have - msg.len()));
    }
    msg.truncate(have);
    let (ptype, pb): (u8, Vec<u8>) = match pk {
        PathKind::Empty => (0, vec![]),
        PathKind::Std(n) => {
            let sl = match n {
                1 => [2 + rng.below(3) as usize, 0, 0],
                2 => [1 + rng.below(3) as usize, 2 + rng.below(2) as usize, 0],
                _ => [2, 1 + rng.below(3) as usize, 2 + rng.below(3) as usize],
            };
            let nh: usize = sl.iter().sum();
            // as received at the destination: last hop of the last segment
            (1, std_path_bytes(sl, n - 1, nh - 1, rng))
        }
        PathKind::OneHop => {
            let mut b = rng.bytes(32);
            b[0] &= 1;
            b[1] = 0;
            b[8] = 0;
            b[20] = 0;
            (2, b)
        }
        PathKind::Opaque => (3, rng.bytes(16)),
    };
    // addresses: requester = src
    let (st_sl, src_host): ((u8, u8), Vec<u8>) = match rng.below(3) {
        0 => ((0, 0), vec![192, 0, 2, 1]),
        1 => ((0, 3), Ipv6Addr::new(0x2001, 0xdb8, 0, 0, 0, 0, 0, 1).octets().to_vec()),
        _ => ((0, 0), vec![10, 0, 0, 9]),
    };
    let (mut dt_dl, dst_host): ((u8, u8), Vec<u8>) = match rng.below(2) {
        0 => ((0, 0), vec![198, 51, 100, 7]),
        _ => ((0, 3), Ipv6Addr::new(0x2001, 0xdb8, 0, 0, 0, 0, 0, 7).octets().to_vec()),
    };
    let mut st_sl = st_sl;
    if !addr_ok {
        // unknown host address type (T=2) on one side
        if rng.chance(1, 2) {
            st_sl = (2, st_sl.1);
        } else {
            dt_dl = (2, dt_dl.1);
        }
    }
    let mut b = wire::build_packet(202, ptype, dt_dl, st_sl, ia_bytes(2, 0xff00_0000_0220), ia_bytes(1, 0xff00_0000_0110), &dst_host, &src_host, &pb, &msg);
    if have >= 4 {
        wire::fix_l4_checksum(&mut b);
        if !ck && !trunc {
            let hl = b[5] as usize * 4;
            b[hl + 2] ^= 0x55;
            b[hl + 3] ^= 0xaa;
        }
    }
    if trunc {
        // the payload length field promises more than the datagram holds
        let claimed = (have + 8 + rng.below(64) as usize) as u16;
        b[6..8].copy_from_slice(&claimed.to_be_bytes());
    }
    Some(Req { bytes: b, id, seq })
}

/// reference reversal of the path of a request (ptype, bytes) -> (ptype, bytes) of the reply
fn reference_reverse(ptype: u8, pb: &[u8]) -> Option<(u8, Vec<u8>)> {
    match ptype {
        0 => Some((0, vec![])),
        1 => wire::reverse_standard(pb).map(|x| (1, x)),
        2 => {
            if pb.len() != 32 {
                return None;
            }
            // one-hop -> standard path with one segment of two hops, reversed, starting at its first hop
            let meta: u32 = 2 << 12;
            let mut out = meta.to_be_bytes().to_vec();
            let mut inf = pb[0..8].to_vec();
            inf[0] ^= 1;
            out.extend_from_slice(&inf);
            out.extend_from_slice(&pb[20..32]);
            out.extend_from_slice(&pb[8..20]);
            Some((1, out))
        }
        _ => None,
    }
}

/// Is `reply` a faithful echo reply to `req`?  Returns (faithful, reasons, reply checksum ok)
fn echo_faithful(req: &[u8], reply: &[u8]) -> (bool, Vec<String>, bool) {
    let mut why = vec![];
    let Some((hq, dq)) = wire::describe_scmp(req) else { return (false, vec!["request unparsable".into()], false) };
    let Some((hr, dr)) = wire::describe_scmp(reply) else { return (false, vec!["reply unparsable".into()], false) };
    if dr.t != 129 {
        why.push(format!("type {}", dr.t));
    }
    if dr.code != 0 {
        why.push("code".into());
    }
    if !dr.complete {
        why.push("incomplete".into());
    }
    if dr.id != dq.id {
        why.push("identifier".into());
    }
    if dr.seq != dq.seq {
        why.push("sequence".into());
    }
    if dr.data != dq.data {
        why.push("data".into());
    }
    if !(hr.dst_ia == hq.src_ia && hr.dst_host == hq.src_host && (hr.dt, hr.dl) == (hq.st, hq.sl)) {
        why.push("not addressed to the requester".into());
    }
    if !(hr.src_ia == hq.dst_ia && hr.src_host == hq.dst_host && (hr.st, hr.sl) == (hq.dt, hq.dl)) {
        why.push("source is not the request's destination".into());
    }
    match reference_reverse(hq.ptype, &hq.path) {
        Some((pt, pb)) => {
            if hr.ptype != pt || hr.path != pb {
                why.push(if hq.ptype == 2 { "onehop-path not reversed as reference".into() } else { "path not reversed".to_string() });
            }
        }
        None => why.push("request path not reversible".into()),
    }
    if hr.hdr_len + hr.pay_len != reply.len() {
        why.push("length fields".into());
    }
    (why.is_empty(), why, dr.cksum_ok)
}

#[derive(Default)]
struct ErrRecorder {
    got: Mutex<Vec<(u8, Vec<u8>, Vec<u8>)>>, // (type, quote, path bytes)
}
fn err_parts(e: &ScmpErrorMessage) -> (u8, Vec<u8>) {
    match e {
        ScmpErrorMessage::DestinationUnreachable(x) => (1, x.get_offending_packet().to_vec()),
        ScmpErrorMessage::PacketTooBig(x) => (2, x.get_offending_packet().to_vec()),
        ScmpErrorMessage::ParameterProblem(x) => (4, x.get_offending_packet().to_vec()),
        ScmpErrorMessage::ExternalInterfaceDown(x) => (5, x.get_offending_packet().to_vec()),
        ScmpErrorMessage::InternalConnectivityDown(x) => (6, x.get_offending_packet().to_vec()),
    }
}
impl ScmpErrorReceiver for ErrRecorder {
    fn report_scmp_error<'a>(&self, scmp_error: ScmpErrorMessage, path: ScionDpPathViewRef<'a>) {
        let (t, q) = err_parts(&scmp_error);
        self.got.lock().unwrap().push((t, q, path.as_slice().to_vec()));
    }
}

/// descriptor of a received packet as the reference reader sees it (fields of Scmp.tla)
fn descriptor(bytes: &[u8]) -> Option<Value> {
    let h = wire::parse_hdr(bytes)?;
    if h.next != wire::PROTO_SCMP {
        return None;
    }
    let m = h.payload(bytes);
    let t = if m.is_empty() { 0 } else { m[0] };
    let have = m.len();
    let trunc = have < h.pay_len;
    let fixed = wire::scmp_fixed_len(t);
    let pfixed = fixed.max(8);
    let complete = !trunc && have >= fixed && have >= 4;
    let ck = !trunc && have >= 4 && wire::checksum_ok(&h, wire::PROTO_SCMP, m);
    let rev = reference_reverse(h.ptype, &h.path).is_some();
    let known = |t: u8, l: u8| matches!((t, l), (0, 0) | (0, 3) | (1, 0));
    let addr = known(h.dt, h.dl) && known(h.st, h.sl);
    Some(json!({"t": t, "complete": complete, "ck": ck, "parsed": have >= pfixed, "rev": rev, "addr": addr, "have": have, "trunc": trunc}))
}

struct HandleObs {
    raw_ok: bool,
    echo_replies: u64,
    echo_faithful: bool,
    echo_why: Vec<String>,
    echo_reply_ck: bool,
    echo_panic: Option<String>,
    err_replies: u64,
    notified: Vec<u64>,
    notif_content_ok: bool,
    err_panic: Option<String>,
    reply_hex: Option<String>,
}

/// feed one packet to DefaultEchoHandler::handle and to the stack's ScmpErrorHandler::handle (2 recording receivers)
fn observe_handlers(bytes: &[u8]) -> HandleObs {
    let mut o = HandleObs { raw_ok: false, echo_replies: 0, echo_faithful: true, echo_why: vec![], echo_reply_ck: true, echo_panic: None, err_replies: 0, notified: vec![0, 0], notif_content_ok: true, err_panic: None, reply_hex: None };
    let Ok((view, _)) = ScionRawPacketView::try_from_slice(bytes) else { return o };
    o.raw_ok = true;
    // echo handler
    match catch(|| DefaultEchoHandler::new().handle(view).map(|r| r.try_encode_to_owned_view().map(|v| v.as_slice().to_vec()))) {
        Err(p) => o.echo_panic = Some(p),
        Ok(None) => {}
        Ok(Some(Err(e))) => {
            // a reply was produced but cannot be encoded: counts as one (unsendable) reply
            o.echo_replies = 1;
            o.echo_faithful = false;
            o.echo_why.push(format!("reply does not encode: {e:?}"));
        }
        Ok(Some(Ok(rb))) => {
            o.echo_replies = 1;
            let (f, why, ck) = echo_faithful(bytes, &rb);
            o.echo_faithful = f;
            o.echo_why = why;
            o.echo_reply_ck = ck;
            o.reply_hex = Some(wire::hex(&rb));
        }
    }
    // error handler with two receivers
    let r1 = Arc::new(ErrRecorder::default());
    let r2 = Arc::new(ErrRecorder::default());
    let rs: Vec<Arc<dyn ScmpErrorReceiver>> = vec![r1.clone(), r2.clone()];
    match catch(|| {
        let h = sockhook::scmp_error_handler(&rs);
        h.handle(view).is_some()
    }) {
        Err(p) => o.err_panic = Some(p),
        Ok(replied) => o.err_replies = replied as u64,
    }
    let want = wire::describe_scmp(bytes);
    for (i, r) in [r1, r2].iter().enumerate() {
        let g = r.got.lock().unwrap();
        o.notified[i] = g.len() as u64;
        for (t, q, pb) in g.iter() {
            if let Some((h, d)) = &want {
                if *t != d.t || *q != d.quote || *pb != h.path {
                    o.notif_content_ok = false;
                }
            }
        }
    }
    o
}

fn obs_json(o: &HandleObs) -> Value {
    json!({"raw_ok": o.raw_ok, "echo_replies": o.echo_replies, "echo_faithful": o.echo_faithful, "echo_why": o.echo_why, "echo_reply_ck": o.echo_reply_ck,
           "echo_panic": o.echo_panic, "err_replies": o.err_replies, "notified": o.notified, "notif_content_ok": o.notif_content_ok, "err_panic": o.err_panic})
}

fn cmd_reply(inp: &str, outp: &str) {
    let cells = read_ndjson(inp);
    let mut w = NdjsonWriter::create(outp);
    let mut rng = Rng::new(seed_from_env() ^ 0xC14B);
    let kinds_rev = [PathKind::Empty, PathKind::Std(1), PathKind::Std(2), PathKind::Std(3), PathKind::OneHop];
    for (i, c) in cells.iter().enumerate() {
        let t = c["t"].as_u64().unwrap() as u8;
        let have = c["have"].as_u64().unwrap() as usize;
        let trunc = c["trunc"].as_bool().unwrap();
        let ck = c["ck"].as_bool().unwrap();
        let rev = c["rev"].as_bool().unwrap();
        let addr = c["addr"].as_bool().unwrap();
        let code = *rng.pick(&[0u8, 0, 1, 255]);
        let pk = if rev { kinds_rev[i % kinds_rev.len()] } else { PathKind::Opaque };
        let quote_err = wire::is_known_error(t) && i % 3 == 0;
        let Some(req) = build_scmp_packet(t, code, have, trunc, ck, pk, addr, quote_err, (i % 65536) as u16, &mut rng) else {
            w.write(&json!({"i": i, "infeasible": true}));
            continue;
        };
        // the reference reader must agree with the cell (self-check of the builder)
        let d = descriptor(&req.bytes);
        let o = observe_handlers(&req.bytes);
        let mut j = obs_json(&o);
        j["i"] = json!(i);
        j["d"] = d.unwrap_or(Value::Null);
        j["path"] = json!(format!("{pk:?}"));
        j["quote_err"] = json!(quote_err);
        j["pkt"] = json!(wire::hex(&req.bytes));
        w.write(&j);
    }
    w.finish();
}

fn main() {
    quiet_panics();
    let a: Vec<String> = std::env::args().collect();
    if a.len() < 4 {
        eprintln!("usage: c14_scmp quote|reply|router|socket|record <in> <out>");
        std::process::exit(2);
    }
    match a[1].as_str() {
        "quote" => cmd_quote(&a[2], &a[3]),
        "reply" => cmd_reply(&a[2], &a[3]),
        _ => {
            eprintln!("unknown subcommand");
            std::process::exit(2)
        }
    }
}
