use sciparse::{
    address::addr::ScionAddr,
    core::{encode::WireEncode, model::Model, view::View},
    dataplane_path::model::DpPath,
    identifier::{asn::Asn, isd::Isd, isd_asn::IsdAsn},
    packet::model::ScionScmpPacket,
    payload::scmp::model::{ScmpEchoRequest, ScmpMessage},
};
use vh_scmp::wire;

fn main() {
    let src = ScionAddr::new(IsdAsn::new(Isd(1), Asn(10)), std::net::Ipv4Addr::new(192, 0, 2, 1).into());
    let dst = ScionAddr::new(IsdAsn::new(Isd(1), Asn(20)), std::net::Ipv4Addr::new(198, 51, 100, 1).into());
    let p = ScionScmpPacket::new(src, dst, DpPath::Empty, ScmpMessage::EchoRequest(ScmpEchoRequest::new(7, 9, b"payload".to_vec())));
    let v = p.try_encode_to_owned_view().unwrap();
    let b = v.as_slice();
    println!("{}", wire::hex(b));
    let (h, d) = wire::describe_scmp(b).unwrap();
    println!("{:?} {:?}", h, d);
}
