//! Harness-side reference code for C14 (SCMP): an INDEPENDENT byte-level reader/writer of SCION
//! headers and SCMP messages (no sciparse code is used here), the ones-complement checksum over
//! the SCION pseudo-header, and the reference path reversal.  The P-monitors of C14 are evaluated
//! with these functions on the real bytes produced by the code under test.
pub mod wire;
