//! Independent byte-level SCION/SCMP reader and writer (reference side of C14).
//!
//! Layout facts (SCION header specification):
//!   common header 12 B: ver(4) tc(8) flow(20) | next(8) hdrlen(8, x4) paylen(16) | ptype(8) DT(2)DL(2)ST(2)SL(2) rsv(16)
//!   address header   : dstIA(8) srcIA(8) dstHost((DL+1)*4) srcHost((SL+1)*4)
//!   path             : type 0 empty | 1 standard (4 + 8*#seg + 12*#hops) | 2 one-hop (32) | other opaque
//!   SCMP             : type(8) code(8) checksum(16) + type specific
//!   checksum         : ones-complement of the ones-complement sum of
//!                      dstIA srcIA dstHost srcHost len(32) zero(24) proto(8) || message (checksum field as sent;
//!                      verification: folded sum over everything == 0xffff)

pub const PROTO_UDP: u8 = 17;
pub const PROTO_SCMP: u8 = 202;
pub const SCMP_ERROR_MAX: usize = 1232;

#[derive(Debug, Clone, PartialEq, Eq)]
pub struct Hdr {
    pub next: u8,
    pub hdr_len: usize,
    pub pay_len: usize,
    pub ptype: u8,
    pub dt: u8,
    pub dl: u8,
    pub st: u8,
    pub sl: u8,
    pub dst_ia: [u8; 8],
    pub src_ia: [u8; 8],
    pub dst_host: Vec<u8>,
    pub src_host: Vec<u8>,
    /// path bytes (hdr_len - 12 - address header)
    pub path: Vec<u8>,
}

/// Parse the SCION header of `b`. None if the bytes do not hold a complete, self-consistent header.
pub fn parse_hdr(b: &[u8]) -> Option<Hdr> {
    if b.len() < 12 {
        return None;
    }
    if b[0] >> 4 != 0 {
        return None;
    }
    let next = b[4];
    let hdr_len = b[5] as usize * 4;
    let pay_len = u16::from_be_bytes([b[6], b[7]]) as usize;
    let ptype = b[8];
    let dt = b[9] >> 6;
    let dl = (b[9] >> 4) & 3;
    let st = (b[9] >> 2) & 3;
    let sl = b[9] & 3;
    let dlen = (dl as usize + 1) * 4;
    let slen = (sl as usize + 1) * 4;
    let addr_end = 12 + 16 + dlen + slen;
    if hdr_len < addr_end || b.len() < hdr_len {
        return None;
    }
    let mut dst_ia = [0u8; 8];
    dst_ia.copy_from_slice(&b[12..20]);
    let mut src_ia = [0u8; 8];
    src_ia.copy_from_slice(&b[20..28]);
    Some(Hdr {
        next,
        hdr_len,
        pay_len,
        ptype,
        dt,
        dl,
        st,
        sl,
        dst_ia,
        src_ia,
        dst_host: b[28..28 + dlen].to_vec(),
        src_host: b[28 + dlen..addr_end].to_vec(),
        path: b[addr_end..hdr_len].to_vec(),
    })
}

impl Hdr {
    /// payload bytes actually present (may be shorter than pay_len = truncated datagram)
    pub fn payload<'a>(&self, b: &'a [u8]) -> &'a [u8] {
        let end = (self.hdr_len + self.pay_len).min(b.len());
        &b[self.hdr_len..end]
    }
}

fn fold(mut s: u64) -> u16 {
    while s > 0xffff {
        s = (s >> 16) + (s & 0xffff);
    }
    s as u16
}

fn sum_be(data: &[u8]) -> u64 {
    let mut s = 0u64;
    let mut i = 0;
    while i + 1 < data.len() {
        s += ((data[i] as u64) << 8) | data[i + 1] as u64;
        i += 2;
    }
    if i < data.len() {
        s += (data[i] as u64) << 8;
    }
    s
}

/// ones-complement sum (not inverted) over pseudo header + message
pub fn pseudo_sum(h: &Hdr, proto: u8, msg: &[u8]) -> u16 {
    let mut s = 0u64;
    s += sum_be(&h.dst_ia);
    s += sum_be(&h.src_ia);
    s += sum_be(&h.dst_host);
    s += sum_be(&h.src_host);
    let l = msg.len() as u32;
    s += (l >> 16) as u64 + (l & 0xffff) as u64;
    s += proto as u64;
    s += sum_be(msg);
    fold(s)
}

/// Does the L4 message `msg` (checksum field included as sent) verify under header `h`?
pub fn checksum_ok(h: &Hdr, proto: u8, msg: &[u8]) -> bool {
    pseudo_sum(h, proto, msg) == 0xffff
}

/// The checksum value a correct sender puts into the field at `off` (message given with any value there).
pub fn correct_checksum(h: &Hdr, proto: u8, msg: &[u8], off: usize) -> u16 {
    let mut m = msg.to_vec();
    if m.len() >= off + 2 {
        m[off] = 0;
        m[off + 1] = 0;
    }
    !pseudo_sum(h, proto, &m)
}

/// Rewrite the SCMP (or UDP) checksum field of the packet `pkt` in place with the correct value.
/// Returns false if the packet has no room for the field.
pub fn fix_l4_checksum(pkt: &mut [u8]) -> bool {
    let Some(h) = parse_hdr(pkt) else { return false };
    let off = match h.next {
        PROTO_SCMP => 2,
        PROTO_UDP => 6,
        _ => return false,
    };
    let end = (h.hdr_len + h.pay_len).min(pkt.len());
    if end < h.hdr_len + off + 2 {
        return false;
    }
    let c = correct_checksum(&h, h.next, &pkt[h.hdr_len..end], off);
    pkt[h.hdr_len + off..h.hdr_len + off + 2].copy_from_slice(&c.to_be_bytes());
    true
}

// ------------------------------------------------------------------------------------------------
// SCMP
// ------------------------------------------------------------------------------------------------

/// fixed part (before the quoted packet / data) of the SCMP message of this type; None = no known layout
pub fn scmp_fixed_len(t: u8) -> usize {
    match t {
        1 | 2 | 4 => 8,
        5 => 20,
        6 => 28,
        128 | 129 => 8,
        130 | 131 => 24,
        _ => 4,
    }
}

pub fn is_known_error(t: u8) -> bool {
    matches!(t, 1 | 2 | 4 | 5 | 6)
}
pub fn is_error_type(t: u8) -> bool {
    t < 128
}

#[derive(Debug, Clone)]
pub struct ScmpDesc {
    pub t: u8,
    pub code: u8,
    /// message at least as long as the fixed part of its type
    pub complete: bool,
    pub cksum_ok: bool,
    /// for known error types with a complete header: the quoted bytes
    pub quote: Vec<u8>,
    /// quoted packet is itself an SCMP packet of an error type
    pub quotes_error: bool,
    /// echo / traceroute id, seq
    pub id: u16,
    pub seq: u16,
    pub data: Vec<u8>,
}

/// Describe the SCMP message carried by packet `pkt` (None: not a parsable SCION packet or not SCMP,
/// or fewer than 4 payload bytes).
pub fn describe_scmp(pkt: &[u8]) -> Option<(Hdr, ScmpDesc)> {
    let h = parse_hdr(pkt)?;
    if h.next != PROTO_SCMP {
        return None;
    }
    let m = h.payload(pkt);
    if m.len() < 4 {
        return None;
    }
    let t = m[0];
    let fixed = scmp_fixed_len(t);
    let complete = m.len() >= fixed && (fixed > 4 || m.len() >= 4);
    // a truncated datagram (fewer bytes than payload_len) never verifies: the length in the pseudo header differs
    let cksum_ok = m.len() == h.pay_len && checksum_ok(&h, PROTO_SCMP, m);
    let mut d = ScmpDesc { t, code: m[1], complete, cksum_ok, quote: vec![], quotes_error: false, id: 0, seq: 0, data: vec![] };
    if complete {
        if is_known_error(t) {
            d.quote = m[fixed..].to_vec();
            if let Some(qh) = parse_hdr(&d.quote) {
                if qh.next == PROTO_SCMP {
                    let qm = qh.payload(&d.quote);
                    if !qm.is_empty() && is_error_type(qm[0]) {
                        d.quotes_error = true;
                    }
                }
            }
        }
        if matches!(t, 128..=131) {
            d.id = u16::from_be_bytes([m[4], m[5]]);
            d.seq = u16::from_be_bytes([m[6], m[7]]);
        }
        if matches!(t, 128 | 129) {
            d.data = m[8..].to_vec();
        }
    }
    Some((h, d))
}

// ------------------------------------------------------------------------------------------------
// reference path reversal (standard path, type 1); other types: empty stays empty
// ------------------------------------------------------------------------------------------------

/// Reverse a standard path given as raw path bytes. None if the bytes are not a well-formed standard path.
pub fn reverse_standard(path: &[u8]) -> Option<Vec<u8>> {
    if path.len() < 4 {
        return None;
    }
    let meta = u32::from_be_bytes([path[0], path[1], path[2], path[3]]);
    let ci = (meta >> 30) as usize;
    let ch = ((meta >> 24) & 0x3f) as usize;
    let sl = [((meta >> 12) & 0x3f) as usize, ((meta >> 6) & 0x3f) as usize, (meta & 0x3f) as usize];
    let nseg = if sl[0] == 0 {
        0
    } else if sl[1] == 0 {
        1
    } else if sl[2] == 0 {
        2
    } else {
        3
    };
    if nseg == 0 || (nseg < 3 && sl[nseg..].iter().any(|&x| x != 0)) {
        return None;
    }
    let nh: usize = sl.iter().sum();
    if path.len() != 4 + 8 * nseg + 12 * nh || ci >= nseg || ch >= nh {
        return None;
    }
    let infos: Vec<&[u8]> = (0..nseg).map(|i| &path[4 + 8 * i..12 + 8 * i]).collect();
    let hop0 = 4 + 8 * nseg;
    let hops: Vec<&[u8]> = (0..nh).map(|i| &path[hop0 + 12 * i..hop0 + 12 * i + 12]).collect();
    let mut rsl = [0usize; 3];
    for i in 0..nseg {
        rsl[i] = sl[nseg - 1 - i];
    }
    let nci = nseg - 1 - ci;
    let nch = nh - 1 - ch;
    let meta2: u32 = ((nci as u32) << 30) | ((nch as u32) << 24) | ((rsl[0] as u32) << 12) | ((rsl[1] as u32) << 6) | rsl[2] as u32;
    let mut out = meta2.to_be_bytes().to_vec();
    for i in (0..nseg).rev() {
        let mut inf = infos[i].to_vec();
        inf[0] ^= 0x01; // toggle ConsDir
        out.extend_from_slice(&inf);
    }
    for h in hops.iter().rev() {
        out.extend_from_slice(h);
    }
    Some(out)
}

/// Canonical form of a standard path: reserved bits cleared (PathMeta RSV, InfoField flag bits other than
/// C/P and its reserved byte, HopField flag bits other than the two router alerts). Reserved bits carry no
/// meaning and need not survive a reversal. Returns the input unchanged if it is not a well-formed standard path.
pub fn canon_standard(path: &[u8]) -> Vec<u8> {
    let mut p = path.to_vec();
    if p.len() < 4 {
        return p;
    }
    let meta = u32::from_be_bytes([p[0], p[1], p[2], p[3]]);
    let sl = [((meta >> 12) & 0x3f) as usize, ((meta >> 6) & 0x3f) as usize, (meta & 0x3f) as usize];
    let nseg = sl.iter().filter(|&&x| x > 0).count();
    let nh: usize = sl.iter().sum();
    if p.len() != 4 + 8 * nseg + 12 * nh {
        return p;
    }
    let m2 = meta & !(0x3f << 18);
    p[0..4].copy_from_slice(&m2.to_be_bytes());
    for i in 0..nseg {
        p[4 + 8 * i] &= 0x03;
        p[5 + 8 * i] = 0;
    }
    let h0 = 4 + 8 * nseg;
    for i in 0..nh {
        p[h0 + 12 * i] &= 0x03;
    }
    p
}

// ------------------------------------------------------------------------------------------------
// writer (used to build inputs the SDK's encoder cannot or should not produce)
// ------------------------------------------------------------------------------------------------

/// Build a SCION packet from parts; payload_len is set to `payload.len()`; hdr_len from the parts.
pub fn build_packet(next: u8, ptype: u8, dt_dl: (u8, u8), st_sl: (u8, u8), dst_ia: [u8; 8], src_ia: [u8; 8], dst_host: &[u8], src_host: &[u8], path: &[u8], payload: &[u8]) -> Vec<u8> {
    let hdr_len = 12 + 16 + dst_host.len() + src_host.len() + path.len();
    assert!(hdr_len % 4 == 0 && hdr_len / 4 <= 255);
    let mut b = vec![0u8; 12];
    b[4] = next;
    b[5] = (hdr_len / 4) as u8;
    b[6..8].copy_from_slice(&(payload.len() as u16).to_be_bytes());
    b[8] = ptype;
    b[9] = (dt_dl.0 << 6) | (dt_dl.1 << 4) | (st_sl.0 << 2) | st_sl.1;
    b.extend_from_slice(&dst_ia);
    b.extend_from_slice(&src_ia);
    b.extend_from_slice(dst_host);
    b.extend_from_slice(src_host);
    b.extend_from_slice(path);
    b.extend_from_slice(payload);
    b
}

pub fn hex(b: &[u8]) -> String {
    let mut s = String::with_capacity(b.len() * 2);
    for x in b {
        s.push_str(&format!("{:02x}", x));
    }
    s
}
pub fn unhex(s: &str) -> Vec<u8> {
    (0..s.len() / 2).map(|i| u8::from_str_radix(&s[2 * i..2 * i + 2], 16).unwrap()).collect()
}
