fn main() {}
