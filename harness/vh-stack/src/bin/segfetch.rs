//! C19 harness, second observation point: scion_stack::path::fetcher::PathFetcherImpl::fetch_paths driven
//! by scripted segment sources (the soup of a TLC-printed case split over two fetchers, plus optionally a
//! failing and a never-answering fetcher).
//!
//! segfetch replay <in.ndjson> <out.ndjson>
use std::{collections::BTreeSet, collections::HashMap, future::Future, pin::Pin, sync::Arc, time::Duration};

use scion_stack::path::fetcher::{
    PathFetcherImpl,
    traits::{PathFetcher, SegmentFetchError, SegmentFetcher, Segments},
};
use sciparse::{
    identifier::isd_asn::IsdAsn,
    path::{ScionPath, combinator::combine},
    reexport::p256::ecdsa::SigningKey,
    segment::SignedPathSegment,
};
use serde_json::{Value, json};
use vh_core::{NdjsonWriter, catch};

#[path = "../../../vh-sciparse/src/soup_common.rs"]
#[allow(dead_code)]
mod common;
use common::{TS, backed_by_input, build_segment, ia, ifaces_of, path_id, self_consistent};

enum Script {
    Deliver(Vec<SignedPathSegment>, Vec<SignedPathSegment>),
    Fail,
    Hang,
}

struct Scripted(Script);

// hand-written equivalent of #[async_trait] (the harness must not add crates)
impl SegmentFetcher for Scripted {
    fn fetch_segments<'life0, 'async_trait>(
        &'life0 self,
        _src: IsdAsn,
        _dst: IsdAsn,
    ) -> Pin<Box<dyn Future<Output = Result<Segments, SegmentFetchError>> + Send + 'async_trait>>
    where
        'life0: 'async_trait,
        Self: 'async_trait,
    {
        Box::pin(async move {
            match &self.0 {
                Script::Deliver(c, n) => Ok(Segments::new(c.clone(), n.clone())),
                Script::Fail => Err("scripted failure".into()),
                Script::Hang => {
                    std::future::pending::<()>().await;
                    unreachable!()
                }
            }
        })
    }
}

fn sign(seg: &Value, cache: &mut HashMap<String, SignedPathSegment>, key: &SigningKey) -> Result<SignedPathSegment, String> {
    let k = seg["es"].to_string();
    if let Some(s) = cache.get(&k) {
        return Ok(s.clone());
    }
    let signed = catch(|| build_segment(seg).try_into_signed_segment(|_| Some((key.clone(), None)), TS))
        .map_err(|p| format!("panic while signing: {p}"))?
        .map_err(|e| format!("signing failed: {e}"))?;
    cache.insert(k, signed.clone());
    Ok(signed)
}

fn id_set(ps: &[ScionPath]) -> BTreeSet<String> {
    ps.iter().map(|p| path_id(&ifaces_of(p))).collect()
}

fn spec_set(v: &Value) -> BTreeSet<String> {
    v.as_array()
        .map(|a| a.iter().map(|p| p.as_array().unwrap().iter().map(|x| format!("{}#{}", x[0], x[1])).collect::<Vec<_>>().join(">")).collect())
        .unwrap_or_default()
}

struct Fetched {
    panic: Option<String>,
    err: Option<String>,
    paths: Vec<ScionPath>,
}

fn fetch(rt: &tokio::runtime::Runtime, fetchers: Vec<(String, Arc<dyn SegmentFetcher>)>, src: u64, dst: u64) -> Fetched {
    let f = PathFetcherImpl::new(fetchers, Duration::from_secs(3));
    match catch(|| rt.block_on(async { f.fetch_paths(ia(src), ia(dst)).await })) {
        Err(p) => Fetched { panic: Some(p), err: None, paths: vec![] },
        Ok(Err(e)) => Fetched { panic: None, err: Some(e.to_string()), paths: vec![] },
        Ok(Ok(paths)) => Fetched { panic: None, err: None, paths },
    }
}

fn replay(inp: &str, outp: &str) {
    let lines = vh_core::read_ndjson(inp);
    let mut w = NdjsonWriter::create(outp);
    // paused clock: the timeout of the never-answering fetcher elapses without waiting
    let rt = tokio::runtime::Builder::new_current_thread().enable_all().start_paused(true).build().expect("runtime");
    let key = SigningKey::from_slice(&[7u8; 32]).expect("key");
    let mut cache: HashMap<String, SignedPathSegment> = HashMap::new();
    for (ci, line) in lines.iter().enumerate() {
        if line.get("ev").is_some() {
            continue;
        }
        let soup = line["soup"].as_array().unwrap();
        let mut ops: Vec<String> = line["h"].as_array().map(|a| a.iter().map(|m| m["op"].as_str().unwrap_or("?").to_string()).collect()).unwrap_or_default();
        ops.sort();
        ops.dedup();
        let opk = if ops.is_empty() { "unmutated".to_string() } else { ops.join("+") };
        // split the soup over two sources; the good part over one
        let mut parts: [(Vec<SignedPathSegment>, Vec<SignedPathSegment>); 2] = Default::default();
        let mut good: (Vec<SignedPathSegment>, Vec<SignedPathSegment>) = Default::default();
        let (mut all_c, mut all_n) = (vec![], vec![]);
        let mut unsignable = None;
        for (i, seg) in soup.iter().enumerate() {
            let s = match sign(seg, &mut cache, &key) {
                Ok(s) => s,
                Err(e) => {
                    unsignable = Some(e);
                    break;
                }
            };
            let core = seg["kind"].as_str().unwrap() == "core";
            let p = &mut parts[i % 2];
            if core {
                p.0.push(s.clone());
                all_c.push(s.clone());
            } else {
                p.1.push(s.clone());
                all_n.push(s.clone());
            }
            if seg["good"].as_bool().unwrap() {
                if core { good.0.push(s) } else { good.1.push(s) }
            }
        }
        if let Some(e) = unsignable {
            // an observation about the signing code, not about fetch_paths: reported as non-conformance
            w.write(&json!({"real": [], "pv": [], "conf": false, "mis": [{"what": "segment cannot be signed", "detail": e}]}));
            continue;
        }
        let faulty_present = ci % 2 == 0 || ci % 3 == 0;
        let mk = |with_faulty: bool| -> Vec<(String, Arc<dyn SegmentFetcher>)> {
            let mut v: Vec<(String, Arc<dyn SegmentFetcher>)> = vec![
                ("a".into(), Arc::new(Scripted(Script::Deliver(parts[0].0.clone(), parts[0].1.clone())))),
                ("b".into(), Arc::new(Scripted(Script::Deliver(parts[1].0.clone(), parts[1].1.clone())))),
            ];
            if with_faulty {
                if ci % 2 == 0 {
                    v.insert(1, ("failing".into(), Arc::new(Scripted(Script::Fail))));
                }
                if ci % 3 == 0 {
                    v.push(("hanging".into(), Arc::new(Scripted(Script::Hang))));
                }
            }
            v
        };
        let mut pv = vec![];
        let mut conf = true;
        let mut mis = vec![];
        let mut real = vec![];
        for x in line["x"].as_array().unwrap() {
            let (src, dst) = (x["src"].as_u64().unwrap(), x["dst"].as_u64().unwrap());
            let all = fetch(&rt, mk(true), src, dst);
            let g = fetch(&rt, vec![("good".into(), Arc::new(Scripted(Script::Deliver(good.0.clone(), good.1.clone()))))], src, dst);
            for (which, f) in [("all sources", &all), ("good part", &g)] {
                if let Some(p) = &f.panic {
                    pv.push(json!({"key": format!("Total:panic:fetch_paths:{opk}"), "what": format!("fetch_paths({src},{dst}) over {which} panicked: {p}")}));
                }
                let all_segs: Vec<&SignedPathSegment> = all_c.iter().chain(all_n.iter()).collect();
                for p in &f.paths {
                    match catch(|| {
                        let mut b = self_consistent(p);
                        b.extend(backed_by_input(p, &all_segs));
                        b
                    }) {
                        Ok(b) if b.is_empty() => {}
                        Ok(b) => {
                            let names: Vec<String> = b.iter().map(|s| s.split(':').next().unwrap().to_string()).collect();
                            pv.push(json!({"key": format!("SelfConsistent:{}:fetch_paths:{opk}", names.join("+")),
                                "what": format!("fetch_paths({src},{dst}) over {which} returned path {} which is inconsistent with itself: {}", path_id(&ifaces_of(p)), names.join(", "))}));
                        }
                        Err(pm) => pv.push(json!({"key": format!("Total:panic:accessor:{opk}"), "what": format!("path accessor panicked: {pm}")})),
                    }
                }
            }
            let (sa, sg) = (id_set(&all.paths), id_set(&g.paths));
            if all.panic.is_none() && g.panic.is_none() {
                if !sg.is_subset(&sa) {
                    let lost: Vec<_> = sg.difference(&sa).cloned().collect();
                    pv.push(json!({"key": format!("Monotone:lost:fetch_paths:{opk}"), "what": format!("fetch_paths({src},{dst}): paths of the untouched segments disappear with the junk and faulty sources: {lost:?}")}));
                } else if x["allnc"].as_bool().unwrap() && sa != sg {
                    let extra: Vec<_> = sa.difference(&sg).cloned().collect();
                    pv.push(json!({"key": format!("Monotone:extra:fetch_paths:{opk}"), "what": format!("fetch_paths({src},{dst}): all junk is non-contributing, yet extra paths appear: {extra:?}")}));
                }
                // conformance (drift only): fetch_paths = combine over the union of the answering sources = the model
                let direct = catch(|| combine(ia(src), ia(dst), all_c.clone(), all_n.clone())).map(|p| id_set(&p)).unwrap_or_default();
                if sa != direct || sa != spec_set(&x["paths"]) || (sa.is_empty() && faulty_present && all.err.is_none()) {
                    conf = false;
                    mis.push(json!({"src": src, "dst": dst, "fetch": sa.iter().collect::<Vec<_>>(), "combine": direct.iter().collect::<Vec<_>>(),
                        "spec": spec_set(&x["paths"]).iter().collect::<Vec<_>>(), "err": all.err}));
                }
            } else {
                conf = false;
            }
            real.push(json!({"src": src, "dst": dst, "paths": sa.len(), "good": sg.len(), "err": all.err, "panic": all.panic}));
        }
        w.write(&json!({"real": real, "pv": pv, "conf": conf, "mis": mis}));
    }
    w.finish();
}

fn main() {
    vh_core::quiet_panics();
    let args: Vec<String> = std::env::args().collect();
    match args.get(1).map(|s| s.as_str()) {
        Some("replay") if args.len() == 4 => replay(&args[2], &args[3]),
        _ => {
            eprintln!("usage: segfetch replay <in> <out>");
            std::process::exit(2);
        }
    }
}
