//! C05 / C06 / C07 harness: binds spec/PathManager/PathSet*.tla to the endhost path manager of
//! crates/scion-stack (PathSet worker steps, PathIssueManager, hand-out functions) through the
//! guarded hook `scion_stack::path::manager::verif_pathset`.
//!
//!   pathset replay <in.ndjson> <out.ndjson>   spec -> impl: run TLC-generated histories
//!   pathset record <meta.json> <out.ndjson>   impl -> spec: seeded worker-faithful random histories
//!   pathset realtime <meta.json> <out.json>   real MultiPathManager, real worker task, real clock (smoke run)
//!   pathset probe                             print facts about path construction (debugging)
//!
//! Both produce the same per-run format: {"run":n,"steps":[{"a":action,"s":state,"o":outcome}],"end":why}.
//! All times are integer model ticks; `meta.unit` = seconds per tick; the clock is injected
//! (T0 = 1_000_000 s after the unix epoch).  No verdict is taken here except that panics of the code
//! under test are captured as data; the P-monitors live in lib/pathset_common.py and the TLA+ specs.
use std::{
    collections::{HashMap, HashSet},
    future::Future,
    sync::{Arc, Mutex},
    task::{Context, Poll, Waker},
    time::{Duration, SystemTime},
};

use scion_stack::{
    path::{
        fetcher::traits::{PathFetchError, PathFetcher},
        manager::verif_pathset::{VerifConfig, VerifIngest, VerifPathSet, verif_strategy},
        policy::PathPolicy,
    },
    stack::ScionSocketSendError,
};
use sciparse::{
    address::ip_addr::ScionIpAddr,
    identifier::{asn::Asn, isd::Isd, isd_asn::IsdAsn},
    path::{
        ScionPath,
        fingerprint::data_plane::DpPathFingerprint,
        policy::{PathPolicy as SciparsePolicy, acl::AclPolicy, hop_pattern::HopPatternPolicy},
    },
    payload::scmp::model::{
        ScmpErrorMessage, ScmpExternalInterfaceDown, ScmpInternalConnectivityDown,
    },
    util::test_builder::TestPathBuilder,
};
use scion_sdk_utils::backoff::BackoffConfig;
use serde_json::{Value, json};
use vh_core::{NdjsonWriter, Rng, catch};

const T0: u64 = 1_000_000;
const FORBIDDEN_ASN: u64 = 666;

fn src_ia() -> IsdAsn {
    IsdAsn::new(Isd(1), Asn(1))
}
fn dst_ia() -> IsdAsn {
    IsdAsn::new(Isd(2), Asn(1))
}

// ------------------------------------------------------------------------------------ universe

#[derive(Clone, Debug)]
struct UPath {
    id: i64,
    src_eg: u16,
    transit: Vec<(u32, u16, u16)>,
    dst_in: u16,
    meta: bool,
    #[allow(dead_code)]
    ok: bool,
}

#[derive(Clone, Debug)]
struct UIssue {
    id: i64,
    kind: String, // ext | int | fh
    asn: u64,     // 1 = source AS
    isd: u16,
    ing: u16,
    eg: u16,
    variant: u64,
}

struct Universe {
    paths: Vec<UPath>,
    issues: Vec<UIssue>,
    by_fp: HashMap<DpPathFingerprint, i64>,
    exp_delta: u32,
}

fn build_raw(p: &UPath, info_ts: u32) -> ScionPath {
    build_variant(p, info_ts, if p.meta { "ok" } else { "nometa" })
}

/// The SAME data-plane path (same fingerprint: path type, src/dst, interface sequence) as different
/// control-plane objects:  "ok" = with metadata;  "nometa" = without metadata (policy evaluation impossible);
/// "bad666" = metadata names AS 1-666 for the first transit hop (denied by the ACL);
/// "lowmtu" = metadata with MTU 1000 (rejected by the closure predicate).
fn build_variant(p: &UPath, info_ts: u32, variant: &str) -> ScionPath {
    let src = ScionIpAddr::new(src_ia(), std::net::IpAddr::V4(std::net::Ipv4Addr::LOCALHOST));
    let dst = ScionIpAddr::new(dst_ia(), std::net::IpAddr::V4(std::net::Ipv4Addr::new(127, 0, 0, 2)));
    let mut b = TestPathBuilder::new(src.into(), dst.into())
        .using_info_timestamp(info_ts)
        .with_hop_expiry(0)
        .up();
    b = b.add_hop(0, p.src_eg);
    for (k, (asn, i, e)) in p.transit.iter().enumerate() {
        let asn = if variant == "bad666" && k == 0 { FORBIDDEN_ASN as u32 } else { *asn };
        b = b.with_asn(asn).add_hop(*i, *e);
    }
    b = b.add_hop(p.dst_in, 0);
    let ctx = b.build(info_ts);
    let view = || ctx.data_plane_path.try_encode_to_owned_view().expect("encode");
    match variant {
        "nometa" => ScionPath::new(src_ia(), dst_ia(), view(), None, None),
        "lowmtu" => {
            let mut m = ctx.path_meta.clone();
            m.mtu = 1000;
            ScionPath::new(src_ia(), dst_ia(), view(), Some(m), None)
        }
        _ => ctx.path(),
    }
}

impl Universe {
    fn from_meta(meta: &Value) -> Universe {
        let mut paths = vec![];
        for p in meta["paths"].as_array().expect("meta.paths") {
            paths.push(UPath {
                id: p["id"].as_i64().unwrap(),
                src_eg: p["src_eg"].as_u64().unwrap() as u16,
                transit: p["transit"]
                    .as_array()
                    .unwrap()
                    .iter()
                    .map(|t| {
                        (t[0].as_u64().unwrap() as u32, t[1].as_u64().unwrap() as u16, t[2].as_u64().unwrap() as u16)
                    })
                    .collect(),
                dst_in: p["dst_in"].as_u64().unwrap() as u16,
                meta: p["meta"].as_bool().unwrap_or(true),
                ok: p["ok"].as_bool().unwrap_or(true),
            });
        }
        let mut issues = vec![];
        if let Some(a) = meta["issues"].as_array() {
            for i in a {
                issues.push(UIssue {
                    id: i["id"].as_i64().unwrap(),
                    kind: i["kind"].as_str().unwrap().to_string(),
                    asn: i["as"].as_u64().unwrap(),
                    isd: i["isd"].as_u64().unwrap_or(1) as u16,
                    ing: i["in"].as_u64().unwrap_or(0) as u16,
                    eg: i["eg"].as_u64().unwrap_or(0) as u16,
                    variant: i["variant"].as_u64().unwrap_or(0),
                });
            }
        }
        let probe = build_raw(&paths[0], 1000);
        // lifetime of a hop field with expiry byte 0 (337 s); tolerate a code under test that reports none
        let exp_delta = probe.expiration().map(|e| e.wrapping_sub(1000)).unwrap_or(337);
        let mut by_fp = HashMap::new();
        for p in &paths {
            let fp = build_raw(p, 1000).fingerprint();
            if by_fp.insert(fp, p.id).is_some() {
                eprintln!("universe: two paths share a fingerprint (id {})", p.id);
                std::process::exit(2);
            }
        }
        Universe { paths, issues, by_fp, exp_delta }
    }
    fn path(&self, id: i64, exp_abs: u64) -> ScionPath {
        self.path_v(id, exp_abs, "ok")
    }
    fn path_v(&self, id: i64, exp_abs: u64, variant: &str) -> ScionPath {
        let p = self.paths.iter().find(|p| p.id == id).unwrap_or_else(|| {
            eprintln!("unknown path id {id}");
            std::process::exit(2)
        });
        let variant = if variant == "ok" && !p.meta { "nometa" } else { variant };
        build_variant(p, (exp_abs as u32).wrapping_sub(self.exp_delta), variant)
    }
    fn id_of(&self, fp: &DpPathFingerprint) -> i64 {
        *self.by_fp.get(fp).unwrap_or(&-1)
    }
}

// ------------------------------------------------------------------------------------ policies

/// "arbitrary predicate" over the path OBJECT: metadata present with MTU >= 1200 and the first egress
/// interface is not `reject_first_eg`.
#[derive(Clone)]
struct ClosurePolicy {
    reject_first_eg: u16,
}
impl ClosurePolicy {
    fn verdict(&self, path: &ScionPath) -> bool {
        path.metadata().is_some_and(|m| m.mtu >= 1200)
            && path.first_egress_interface().is_none_or(|i| i.id != self.reject_first_eg)
    }
}
impl PathPolicy for ClosurePolicy {
    fn predicate(&self, path: &ScionPath) -> bool {
        self.verdict(path)
    }
}

/// allowed set keyed by fingerprint (used by the real-time smoke run)
struct FpPolicy(HashSet<DpPathFingerprint>);
impl PathPolicy for FpPolicy {
    fn predicate(&self, path: &ScionPath) -> bool {
        self.0.contains(&path.fingerprint())
    }
}

/// A policy whose evaluation fails (Err) for every path: must count as "rejected".
#[derive(Clone)]
struct FailingPolicy;
impl SciparsePolicy for FailingPolicy {
    fn path_allowed(&self, _path: &ScionPath) -> Result<bool, std::borrow::Cow<'static, str>> {
        Err("cannot evaluate".into())
    }
}

/// One attached policy; `verdict` evaluates the REAL policy object directly on a path object,
/// independently of PathStrategy::predicate (an evaluation error counts as rejection).
#[derive(Clone)]
enum Pol {
    Acl(AclPolicy),
    Hop(HopPatternPolicy),
    Closure(ClosurePolicy),
    Failing,
}
impl Pol {
    fn from_meta(v: &Value) -> Result<Pol, String> {
        match v["k"].as_str().unwrap_or("") {
            "acl" => AclPolicy::parse(v["s"].as_str().unwrap_or("")).map(Pol::Acl).map_err(|e| format!("acl parse: {e}")),
            "hop" => HopPatternPolicy::parse(v["s"].as_str().unwrap_or("")).map(Pol::Hop).map_err(|e| format!("hop pattern parse: {e:?}")),
            "closure" => Ok(Pol::Closure(ClosurePolicy { reject_first_eg: v["reject_first_eg"].as_u64().unwrap_or(0) as u16 })),
            "failing" => Ok(Pol::Failing),
            other => Err(format!("unknown policy kind {other}")),
        }
    }
    fn verdict(&self, p: &ScionPath) -> bool {
        match self {
            Pol::Acl(a) => a.path_allowed(p).unwrap_or(false),
            Pol::Hop(h) => h.path_allowed(p).unwrap_or(false),
            Pol::Closure(c) => c.verdict(p),
            Pol::Failing => false,
        }
    }
    fn attach_vec(&self) -> Arc<dyn PathPolicy> {
        match self {
            Pol::Acl(a) => Arc::new(a.clone()),
            Pol::Hop(h) => Arc::new(h.clone()),
            Pol::Closure(c) => Arc::new(c.clone()),
            Pol::Failing => Arc::new(FailingPolicy),
        }
    }
    fn attach_add(&self, st: &mut scion_stack::path::PathStrategy) {
        match self {
            Pol::Acl(a) => st.add_policy(a.clone()),
            Pol::Hop(h) => st.add_policy(h.clone()),
            Pol::Closure(c) => st.add_policy(c.clone()),
            Pol::Failing => st.add_policy(FailingPolicy),
        }
    }
}

// ------------------------------------------------------------------------------------ fetcher

#[derive(Default)]
struct Script {
    next: Option<Result<Vec<ScionPath>, String>>,
    calls: u64,
}
#[derive(Clone)]
struct Fetcher(Arc<Mutex<Script>>);
impl PathFetcher for Fetcher {
    fn fetch_paths(
        &self,
        _src: IsdAsn,
        _dst: IsdAsn,
    ) -> impl Future<Output = Result<Vec<ScionPath>, PathFetchError>> + Send + '_ {
        async move {
            let mut g = self.0.lock().unwrap();
            g.calls += 1;
            match g.next.take() {
                Some(Ok(v)) => Ok(v),
                Some(Err(e)) => Err(PathFetchError::InternalError(e.into())),
                None => Err(PathFetchError::InternalError("unscripted fetch".into())),
            }
        }
    }
}

fn poll_once<F: Future>(f: F) -> Option<F::Output> {
    let mut f = std::pin::pin!(f);
    let mut cx = Context::from_waker(Waker::noop());
    match f.as_mut().poll(&mut cx) {
        Poll::Ready(v) => Some(v),
        Poll::Pending => None,
    }
}

// ------------------------------------------------------------------------------------ one run

struct Cfg {
    unit: u64,
    vc: VerifConfig,
    pols: Vec<Pol>,
    /// attach the policies through PathStrategy::add_policy (after construction) instead of the policy vector
    attach_add: bool,
    late: i64,
}

fn cfg_from_meta(meta: &Value) -> Cfg {
    let unit = meta["unit"].as_u64().unwrap_or(1);
    let c = &meta["cfg"];
    let t = |k: &str| Duration::from_secs(c[k].as_u64().unwrap_or_else(|| {
        eprintln!("meta.cfg.{k} missing");
        std::process::exit(2)
    }) * unit);
    let mut vc = VerifConfig::stack_default();
    vc.max_cached_paths_per_pair = c["max_cache"].as_u64().unwrap() as usize;
    vc.refetch_interval = t("interval");
    vc.min_refetch_delay = t("min_delay");
    vc.min_expiry_threshold = t("threshold");
    vc.max_idle_period = t("idle");
    vc.fetch_failure_backoff = BackoffConfig {
        minimum_delay_secs: (c["backoff_min"].as_u64().unwrap() * unit) as f32,
        maximum_delay_secs: (c["backoff_max"].as_u64().unwrap() * unit) as f32,
        factor: c["backoff_factor"].as_f64().unwrap_or(2.0) as f32,
        jitter_secs: (c["backoff_jitter"].as_f64().unwrap_or(0.0) * unit as f64) as f32,
    };
    vc.issue_cache_size = c["issue_cap"].as_u64().unwrap() as usize;
    vc.issue_broadcast_size = c["chan_cap"].as_u64().unwrap() as usize;
    vc.issue_deduplication_window = t("dedup");
    vc.path_swap_score_threshold = (c["swap_thr_milli"].as_i64().unwrap() as f32) / 1000.0;
    let mut pols = vec![];
    for v in meta["policies"].as_array().cloned().unwrap_or_default() {
        match Pol::from_meta(&v) {
            Ok(p) => pols.push(p),
            Err(e) => {
                eprintln!("{e}");
                std::process::exit(2)
            }
        }
    }
    Cfg {
        unit,
        vc,
        pols,
        attach_add: meta["attach"].as_str() == Some("add"),
        late: meta["late"].as_i64().unwrap_or(1),
    }
}

struct Run<'a> {
    uni: &'a Universe,
    cfg: &'a Cfg,
    vps: VerifPathSet<Fetcher>,
    script: Arc<Mutex<Script>>,
    now: i64, // ticks
    dead: Option<String>,
}

fn tick_time(cfg: &Cfg, ticks: i64) -> SystemTime {
    SystemTime::UNIX_EPOCH + Duration::from_secs(T0 + (ticks as u64) * cfg.unit)
}

/// seconds since T0 -> ticks (exact integer when on the grid, else a float)
fn to_ticks(cfg: &Cfg, t: SystemTime) -> Value {
    let ms = match t.duration_since(SystemTime::UNIX_EPOCH) {
        Ok(d) => d.as_millis() as i128 - (T0 as i128) * 1000,
        Err(e) => -(e.duration().as_millis() as i128) - (T0 as i128) * 1000,
    };
    let u = (cfg.unit as i128) * 1000;
    if ms % u == 0 { json!((ms / u) as i64) } else { json!((ms as f64) / (u as f64)) }
}

fn exp_ticks(cfg: &Cfg, e: Option<u32>) -> Value {
    match e {
        None => Value::Null,
        Some(e) => {
            let s = e as i64 - T0 as i64;
            if s % cfg.unit as i64 == 0 { json!(s / cfg.unit as i64) } else { json!(s as f64 / cfg.unit as f64) }
        }
    }
}

impl<'a> Run<'a> {
    fn new(uni: &'a Universe, cfg: &'a Cfg) -> Result<Run<'a>, String> {
        let script = Arc::new(Mutex::new(Script::default()));
        let strategy = if cfg.attach_add {
            let mut st = verif_strategy(vec![], true);
            for p in &cfg.pols {
                p.attach_add(&mut st);
            }
            st
        } else {
            verif_strategy(cfg.pols.iter().map(|p| p.attach_vec()).collect(), true)
        };
        let vps = VerifPathSet::new(src_ia(), dst_ia(), tick_time(cfg, 0), cfg.vc.into_config(), Fetcher(script.clone()), strategy)
            .map_err(|e| format!("config rejected: {e}"))?;
        Ok(Run { uni, cfg, vps, script, now: 0, dead: None })
    }

    fn st(&self) -> SystemTime {
        tick_time(self.cfg, self.now)
    }

    fn state(&self) -> Value {
        let now = self.st();
        let s = self.vps.snapshot(now);
        let nm = self.vps.next_maintain(now);
        let nm_ms = nm.as_millis() as i64;
        let u = self.cfg.unit as i64 * 1000;
        json!({
            "now": self.now,
            "cache": s.cache.iter().map(|e| json!({
                "id": self.uni.id_of(&e.fingerprint),
                "exp": exp_ticks(self.cfg, e.expiration),
                "sc": (e.score as f64 * 10000.0).round() as i64,
                "rel": (e.reliability as f64 * 10000.0).round() as i64,
                "ok": self.verdicts(&e.path).iter().all(|b| *b),
            })).collect::<Vec<_>>(),
            "active": match (&s.active, &s.active_path) {
                (Some((fp, e)), Some(p)) => {
                    let pol = self.verdicts(p);
                    json!({"id": self.uni.id_of(fp), "exp": exp_ticks(self.cfg, *e), "ok": pol.iter().all(|b| *b), "pol": pol,
                           "meta": p.metadata().is_some()})
                }
                _ => Value::Null,
            },
            "nr": to_ticks(self.cfg, s.next_refetch),
            "ni": to_ticks(self.cfg, s.next_idle_check),
            "failed": s.failed_attempts,
            "used": s.used_in_idle_period,
            "init": s.initialized,
            "err": s.has_error,
            "imap": s.issue_cache_len,
            "ififo": s.issue_fifo_len,
            "pend": s.issue_pending,
            "nm": if nm_ms % u == 0 { json!(nm_ms / u) } else { json!(nm_ms as f64 / u as f64) },
            "calls": self.script.lock().unwrap().calls,
        })
    }

    /// every attached REAL policy evaluated directly on the object
    fn verdicts(&self, p: &ScionPath) -> Vec<bool> {
        self.cfg.pols.iter().map(|pol| catch(|| pol.verdict(p)).unwrap_or(false)).collect()
    }

    fn handout(&self, r: Result<Option<ScionPath>, String>) -> Value {
        match r {
            Err(m) => json!({"k": "panic", "msg": m}),
            Ok(None) => json!({"k": "none"}),
            Ok(Some(p)) => json!({
                "k": "path",
                "pol": self.verdicts(&p),
                "ok": self.verdicts(&p).iter().all(|b| *b),
                "id": self.uni.id_of(&p.fingerprint()),
                "exp": exp_ticks(self.cfg, p.expiration()),
                "src_ok": p.src_ia() == src_ia(),
                "dst_ok": p.dst_ia() == dst_ia(),
                "meta": p.metadata().is_some(),
            }),
        }
    }

    /// Executes one action; returns the outcome object.
    fn apply(&mut self, a: &Value) -> Value {
        let kind = a["a"].as_str().unwrap_or("");
        match kind {
            "adv" => {
                self.now += a["d"].as_i64().unwrap();
                json!({})
            }
            // sleep as the worker does: up to the instant the real object asks to be maintained next (whole ticks, >= 1)
            "sleep" => {
                let ms = self.vps.next_maintain(self.st()).as_millis() as i64;
                let u = self.cfg.unit as i64 * 1000;
                let d = ((ms + u - 1) / u).max(1);
                self.now += d;
                json!({"d": d})
            }
            "tick" => {
                let f = &a["fetch"];
                let resp: Option<Result<Vec<ScionPath>, String>> = match f["k"].as_str() {
                    Some("ok") => Some(Ok(f.get("paths").or_else(|| f.get("ps")).and_then(|v| v.as_array())
                        .expect("fetch.paths")
                        .iter()
                        .map(|p| {
                            let e = p["exp"].as_i64().unwrap();
                            self.uni.path_v(p["id"].as_i64().unwrap(), (T0 as i64 + e * self.cfg.unit as i64) as u64,
                                            p["v"].as_str().unwrap_or("ok"))
                        })
                        .collect())),
                    Some("empty") => Some(Ok(vec![])),
                    Some("err") => Some(Err("scripted failure".into())),
                    _ => None,
                };
                let now = self.st();
                // score every returned path would get as a NEW candidate at this instant (cached issues applied);
                // logged for trace validation (ranking/merge are validated against logged scores)
                let mut cand = serde_json::Map::new();
                if let Some(Ok(ps)) = &resp {
                    for p in ps {
                        let sc = catch(|| self.vps.probe_candidate_score(p, now)).unwrap_or(f32::NAN);
                        cand.insert(self.uni.id_of(&p.fingerprint()).to_string(), json!((sc as f64 * 10000.0).round() as i64));
                    }
                }
                let calls0 = {
                    let mut g = self.script.lock().unwrap();
                    g.next = resp;
                    g.calls
                };
                let r = catch(|| poll_once(self.vps.maintain(now)));
                let fetched = self.script.lock().unwrap().calls > calls0;
                self.script.lock().unwrap().next = None;
                match r {
                    Err(m) => {
                        self.dead = Some("panic".into());
                        json!({"k": "panic", "msg": m, "fetched": fetched})
                    }
                    Ok(None) => {
                        self.dead = Some("pending".into());
                        json!({"k": "pending", "fetched": fetched})
                    }
                    Ok(Some(exit)) => {
                        if let Some(why) = exit {
                            self.dead = Some(format!("exit:{why}"));
                        }
                        json!({"k": "done", "fetched": fetched, "exit": exit, "cand": cand})
                    }
                }
            }
            "report" => {
                let id = a["i"].as_i64().unwrap();
                let Some(i) = self.uni.issues.iter().find(|i| i.id == id) else {
                    eprintln!("unknown issue {id}");
                    std::process::exit(2)
                };
                let ia = IsdAsn::new(Isd(i.isd), Asn(i.asn));
                let now = self.st();
                let before = self.vps.snapshot(now);
                let r = catch(|| match i.kind.as_str() {
                    "ext" => {
                        let m: ScmpErrorMessage =
                            ScmpExternalInterfaceDown::new(ia, i.eg, i.variant.to_be_bytes().to_vec()).into();
                        self.vps.report_scmp_error(now, m)
                    }
                    "int" => {
                        let m: ScmpErrorMessage =
                            ScmpInternalConnectivityDown::new(ia, i.ing, i.eg, i.variant.to_be_bytes().to_vec()).into();
                        self.vps.report_scmp_error(now, m)
                    }
                    "fh" => {
                        let e = ScionSocketSendError::UnderlayNextHopUnreachable {
                            isd_as: ia,
                            interface_id: i.eg,
                            address: None,
                            msg: format!("v{}", i.variant),
                        };
                        self.vps.report_send_error(now, &e)
                    }
                    _ => {
                        eprintln!("unknown issue kind");
                        std::process::exit(2)
                    }
                });
                match r {
                    Err(m) => {
                        self.dead = Some("panic".into());
                        json!({"k": "panic", "msg": m})
                    }
                    Ok(()) => {
                        let after = self.vps.snapshot(now);
                        // accepted <=> a FIFO entry was pushed (add_issue always pushes when it does not return early)
                        let accepted = after.issue_fifo_len != before.issue_fifo_len
                            || after.issue_pending != before.issue_pending
                            || after.issue_cache_len != before.issue_cache_len;
                        json!({"k": if accepted { "accepted" } else { "dup" }})
                    }
                }
            }
            "ingest" => {
                let now = self.st();
                match catch(|| self.vps.ingest_next_issue(now)) {
                    Err(m) => {
                        self.dead = Some("panic".into());
                        json!({"k": "panic", "msg": m})
                    }
                    Ok(VerifIngest::Empty) => json!({"k": "empty"}),
                    Ok(VerifIngest::Lagged(n)) => json!({"k": "lagged", "n": n}),
                    Ok(VerifIngest::Handled) => json!({"k": "handled"}),
                    Ok(VerifIngest::Stop(w)) => {
                        self.dead = Some(format!("exit:{w}"));
                        json!({"k": "stop", "why": w})
                    }
                }
            }
            "send" => {
                let now = self.st();
                match a["via"].as_str().unwrap_or("cached") {
                    "path" => {
                        let r = catch(|| poll_once(self.vps.path(now)));
                        match r {
                            Err(m) => json!({"k": "panic", "msg": m}),
                            Ok(None) => json!({"k": "wait"}),
                            Ok(Some(Ok(p))) => self.handout(Ok(Some(p))),
                            Ok(Some(Err(e))) => json!({"k": "error", "class": match &*e {
                                PathFetchError::NoPathsFound => "no_paths",
                                _ => "fetch_failed",
                            }}),
                        }
                    }
                    _ => {
                        let r = catch(|| self.vps.cached_path(now));
                        self.handout(r)
                    }
                }
            }
            _ => {
                eprintln!("unknown action {a}");
                std::process::exit(2)
            }
        }
    }

    fn step(&mut self, a: &Value) -> Value {
        let o = self.apply(a);
        let poisoned = o["k"] == "panic" && self.dead.is_some();
        let s = if poisoned { Value::Null } else { catch(|| self.state()).unwrap_or(Value::Null) };
        let mut r = json!({"a": a, "o": o, "s": s});
        // a send is observed through both public hand-out functions: cached_path (o) and, once the
        // set is initialised (so that it cannot block), path() as used by PathManager::path_wait (o2)
        if a["a"] == "send" && a.get("via").is_none() && s["init"] == true {
            let o2 = self.apply(&json!({"a": "send", "via": "path"}));
            r["o2"] = o2;
        }
        r
    }
}

// ------------------------------------------------------------------------------------ replay

fn replay(inp: &str, outp: &str) {
    let lines = vh_core::read_ndjson(inp);
    let meta = &lines[0];
    let uni = Universe::from_meta(meta);
    let cfg = cfg_from_meta(meta);
    let mut w = NdjsonWriter::create(outp);
    for (n, line) in lines.iter().enumerate().skip(1) {
        let h = line["h"].as_array().expect("h");
        let mut run = match Run::new(&uni, &cfg) {
            Ok(r) => r,
            Err(e) => {
                // the code under test refused the configuration: an observation, not a tool error
                w.write(&json!({"run": n, "steps": [], "end": format!("rejected:{e}")}));
                continue;
            }
        };
        // a panic that escapes the per-call capture (e.g. while building a scripted path or projecting the state)
        // is still an observation about the code under test, never a harness abort
        let mut steps: Vec<Value> = vec![];
        let mut end = "complete".to_string();
        let r = catch(|| {
            steps.push(json!({"a": {"a": "init"}, "o": {}, "s": run.state()}));
            for a in h {
                steps.push(run.step(a));
                if let Some(d) = &run.dead {
                    end = d.clone();
                    break;
                }
            }
        });
        if let Err(m) = r {
            end = format!("panic-outside-call:{m}");
        }
        w.write(&json!({"run": n, "steps": steps, "end": end}));
    }
    w.finish();
}

// ------------------------------------------------------------------------------------ record

/// Worker-faithful random driver: time only advances up to the instant the real object says it
/// wants to be maintained next (+ late), pending notifications are ingested before time moves.
fn record(metap: &str, outp: &str) {
    let meta: Value = serde_json::from_str(&std::fs::read_to_string(metap).expect("meta")).expect("meta json");
    let uni = Universe::from_meta(&meta);
    let cfg = cfg_from_meta(&meta);
    let runs = meta["runs"].as_u64().unwrap_or(10);
    let nsteps = meta["steps"].as_u64().unwrap_or(200);
    let burst = meta["burst"].as_u64().unwrap_or(3);
    let p_variant = meta["p_variant"].as_u64().unwrap_or(0);
    let exp_choices: Vec<i64> = meta["exp_choices"].as_array().map(|a| a.iter().map(|x| x.as_i64().unwrap()).collect()).unwrap_or_else(|| vec![1, 2, 3, 4, 6, 9]);
    let mut rng = Rng::new(vh_core::seed_from_env() ^ meta["salt"].as_u64().unwrap_or(0));
    let mut w = NdjsonWriter::create(outp);
    for n in 0..runs {
        let mut run = match Run::new(&uni, &cfg) {
            Ok(r) => r,
            Err(e) => {
                w.write(&json!({"run": n, "steps": [], "end": format!("rejected:{e}")}));
                continue;
            }
        };
        let mut steps = vec![json!({"a": {"a": "init"}, "o": {}, "s": run.state()})];
        let mut end = "complete".to_string();
        // per-run flavour: how hostile the lookup service is, how chatty the issue source
        let p_err = *rng.pick(&[0u64, 10, 30, 60]);
        let p_issue = *rng.pick(&[0u64, 5, 15, 30]);
        let p_send = *rng.pick(&[5u64, 20, 50]);
        while (steps.len() as u64) < nsteps {
            let s = run.vps.snapshot(run.st());
            // whole ticks until the next maintenance instant, rounded up (with backoff jitter the instant is off the grid)
            let nm = (run.vps.next_maintain(run.st()).as_millis() as i64 + cfg.unit as i64 * 1000 - 1) / (cfg.unit as i64 * 1000);
            let a: Value = if s.issue_pending > 0 && !rng.chance(burst.saturating_sub(1), burst.max(1)) {
                json!({"a": "ingest"})
            } else if !uni.issues.is_empty() && rng.chance(p_issue, 100) {
                json!({"a": "report", "i": rng.pick(&uni.issues).id})
            } else if s.issue_pending > 0 {
                json!({"a": "ingest"})
            } else if rng.chance(p_send, 100) {
                json!({"a": "send", "via": if rng.chance(1, 4) && s.initialized { "path" } else { "cached" }})
            } else if nm == 0 {
                // tick due: choose the lookup answer
                let fetch = if rng.chance(p_err, 100) {
                    if rng.chance(1, 3) { json!({"k": "empty"}) } else { json!({"k": "err"}) }
                } else {
                    let mut ps = vec![];
                    let variant = |rng: &mut Rng| -> &'static str {
                        if p_variant > 0 && rng.chance(p_variant, 100) { *rng.pick(&["nometa", "bad666", "lowmtu"]) } else { "ok" }
                    };
                    for p in &uni.paths {
                        if rng.chance(1, 2) {
                            ps.push(json!({"id": p.id, "exp": run.now + *rng.pick(&exp_choices), "v": variant(&mut rng)}));
                        }
                    }
                    if ps.is_empty() {
                        let p = rng.pick(&uni.paths);
                        ps.push(json!({"id": p.id, "exp": run.now + *rng.pick(&exp_choices), "v": variant(&mut rng)}));
                    }
                    rng.shuffle(&mut ps);      // the position of the conforming paths in the lookup result varies
                    json!({"k": "ok", "paths": ps})
                };
                json!({"a": "tick", "fetch": fetch})
            } else {
                // sleep: usually right up to the next maintenance instant, sometimes late, sometimes less
                let d = match rng.below(10) {
                    0 => nm + cfg.late.min(1),
                    1 | 2 if nm > 1 => 1 + rng.below((nm - 1) as u64) as i64,
                    _ => nm,
                };
                json!({"a": "adv", "d": d.max(1)})
            };
            // an overdue tick (late) must be taken before anything else moves the clock again
            let a = if a["a"] == "adv" && nm == 0 { json!({"a": "tick", "fetch": {"k": "err"}}) } else { a };
            steps.push(run.step(&a));
            if let Some(d) = &run.dead {
                end = d.clone();
                break;
            }
        }
        w.write(&json!({"run": n, "steps": steps, "end": end}));
    }
    w.finish();
}

// ------------------------------------------------------------------------------------ real time

/// A lookup service for the real-time smoke run: the first lookup returns path 1 (lifetime `life` s) and the
/// policy-violating path 4; every later lookup fails.
#[derive(Clone)]
struct RtFetcher {
    uni: Arc<Universe>,
    t0: SystemTime,
    life: u64,
    calls: Arc<Mutex<Vec<u128>>>,
}
impl PathFetcher for RtFetcher {
    fn fetch_paths(
        &self,
        _src: IsdAsn,
        _dst: IsdAsn,
    ) -> impl Future<Output = Result<Vec<ScionPath>, PathFetchError>> + Send + '_ {
        async move {
            let mut g = self.calls.lock().unwrap();
            g.push(SystemTime::now().duration_since(self.t0).map(|d| d.as_millis()).unwrap_or(0));
            if g.len() == 1 {
                let base = self.t0.duration_since(SystemTime::UNIX_EPOCH).unwrap().as_secs();
                Ok(vec![self.uni.path(1, base + self.life), self.uni.path(4, base + 10 * self.life)])
            } else {
                Err(PathFetchError::InternalError("scripted failure".into()))
            }
        }
    }
}

/// Real `MultiPathManager` with its real worker task and the real clock, observed only through the public
/// hand-out functions (`cached_path`, `path`, `PathManager::path_wait`).  All judged instants keep >= 5 s of
/// margin from the boundaries the code reads from the clock (the P-monitor ignores samples inside the margins).
fn realtime(metap: &str, outp: &str) {
    use scion_stack::path::manager::{MultiPathManager, MultiPathManagerConfig, traits::PathManager};
    let meta: Value = serde_json::from_str(&std::fs::read_to_string(metap).expect("meta")).expect("meta json");
    let uni = Arc::new(Universe::from_meta(&meta));
    let life = meta["life"].as_u64().unwrap_or(12);
    let total_ms = meta["total_ms"].as_u64().unwrap_or(20_000);
    let rt = tokio::runtime::Builder::new_multi_thread().worker_threads(2).enable_all().build().expect("runtime");
    let samples = rt.block_on(async {
        let t0 = SystemTime::now();
        let calls = Arc::new(Mutex::new(vec![]));
        let fetcher = RtFetcher { uni: uni.clone(), t0, life, calls: calls.clone() };
        let allowed: HashSet<DpPathFingerprint> =
            uni.paths.iter().filter(|p| p.ok).map(|p| build_raw(p, 1000).fingerprint()).collect();
        let strategy = verif_strategy(vec![Arc::new(FpPolicy(allowed))], true);
        let cfg = MultiPathManagerConfig::default()
            .with_min_expiry_threshold(Duration::from_secs(3))
            .with_min_refetch_delay(Duration::from_secs(1))
            .with_refetch_interval(Duration::from_secs(30));
        let mut samples: Vec<Value> = vec![];
        let mgr = match MultiPathManager::new(cfg, fetcher, strategy) {
            Ok(m) => m,
            Err(e) => return json!({"rejected": e.to_string(), "samples": samples}),
        };
        let base = t0.duration_since(SystemTime::UNIX_EPOCH).unwrap().as_secs() as i64;
        let mut k = 0u64;
        loop {
            let now = SystemTime::now();
            let el = now.duration_since(t0).map(|d| d.as_millis() as u64).unwrap_or(0);
            if el > total_ms {
                break;
            }
            let via;
            let r: Result<Option<ScionPath>, String> = if k % 4 == 3 {
                via = "path_wait";
                let m2 = mgr.clone();
                // run in a task so that a panic (debug assertion) is an observation
                match tokio::spawn(async move {
                    tokio::time::timeout(Duration::from_millis(400), m2.path_wait(src_ia(), dst_ia(), now)).await
                })
                .await
                {
                    Ok(Ok(Ok(p))) => Ok(Some(p)),
                    Ok(Ok(Err(_))) => Ok(None),
                    Ok(Err(_)) => Err("timeout".into()),
                    Err(e) => Err(format!("panic:{e}")),
                }
            } else {
                via = "cached_path";
                catch(|| mgr.cached_path(src_ia(), dst_ia(), now)).map_err(|m| format!("panic:{m}"))
            };
            samples.push(match r {
                Ok(Some(p)) => json!({"ms": el, "via": via, "k": "path", "id": uni.id_of(&p.fingerprint()),
                                      "exp_s": p.expiration().map(|e| e as i64 - base)}),
                Ok(None) => json!({"ms": el, "via": via, "k": "none"}),
                Err(m) => json!({"ms": el, "via": via, "k": if m.starts_with("panic") { "panic" } else { "timeout" }, "msg": m}),
            });
            k += 1;
            tokio::time::sleep(Duration::from_millis(250)).await;
        }
        json!({"life": life, "samples": samples, "lookups_ms": *calls.lock().unwrap()})
    });
    std::fs::write(outp, serde_json::to_string(&samples).unwrap()).expect("write");
}

fn probe() {
    let meta = json!({"paths": [{"id": 1, "src_eg": 1, "transit": [[101, 2, 3]], "dst_in": 4},
                                {"id": 2, "src_eg": 1, "transit": [[666, 2, 3], [102, 5, 6]], "dst_in": 7, "meta": false}]});
    let uni = Universe::from_meta(&meta);
    println!("exp_delta {}", uni.exp_delta);
    for id in [1, 2] {
        let p = uni.path(id, (T0 + 77) as u64);
        println!("path {id}: exp {:?} (want {}), fp {}, meta {}, first_eg {:?}, hops {:?}", p.expiration(), T0 + 77, p.fingerprint(), p.metadata().is_some(),
            p.first_egress_interface(), p.metadata().and_then(|m| m.interfaces.as_ref()).map(|v| v.iter().map(|i| format!("{}#{}", i.interface.isd_asn, i.interface.id)).collect::<Vec<_>>()));
        for pol in ["- 1-666 +", "- 1-29a +"] {
            match AclPolicy::parse(pol) {
                Ok(a) => println!("  acl {pol:?}: {:?}", a.path_allowed(&p)),
                Err(e) => println!("  acl {pol:?}: parse error {e}"),
            }
        }
    }
}

fn main() {
    vh_core::quiet_panics();
    let args: Vec<String> = std::env::args().collect();
    let rt = tokio::runtime::Builder::new_current_thread().enable_all().build().expect("runtime");
    let _g = rt.enter();
    match args.get(1).map(|s| s.as_str()) {
        Some("replay") if args.len() == 4 => replay(&args[2], &args[3]),
        Some("record") if args.len() == 4 => record(&args[2], &args[3]),
        Some("realtime") if args.len() == 4 => {
            drop(_g);
            drop(rt);
            realtime(&args[2], &args[3]);
            return;
        }
        Some("probe") => probe(),
        _ => {
            eprintln!("usage: pathset replay <in.ndjson> <out.ndjson> | record <meta.json> <out.ndjson> | realtime <meta.json> <out.json> | probe");
            std::process::exit(2)
        }
    }
}
