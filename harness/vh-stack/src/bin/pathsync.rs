//! C20 harness: concurrency skeleton of the endhost path manager (spec/PathManager/PathSync.tla).
//!
//!   pathsync replay <schedules.ndjson> <out.ndjson>
//!       deterministic replay of TLC-generated schedules (Gen_PathSync) on a current_thread
//!       tokio runtime driving the REAL MultiPathManager with a scripted PathFetcher whose
//!       completions are gated by the director in the order of the schedule.  After every
//!       external event the runtime runs to quiescence and the observation (caller results,
//!       worker states, map) is compared with the spec's; the P-monitors are evaluated on
//!       the real outputs.  The recorded hook events of every run are written as a trace.
//!   pathsync fine <schedules.ndjson> <out.ndjson>
//!       fine-grained schedules (GenFine_PathSync): a multi-thread runtime on which every task is
//!       parked at the hook's yield points (the step boundaries of the I-spec) and released one step
//!       at a time in the order TLC chose; same observations, P-monitors and trace output.
//!   pathsync record <events.ndjson> <results.json>
//!       randomised scenarios (VERIF_SEED) on a multi-thread runtime (4 workers) with
//!       randomised yield/delay points; events for Trace_PathSync + direct liveness monitor.
//!
//!   pathsync storm <events.ndjson> <results.json>
//!       high-rate driver: for thousands of fresh pairs several threads keep issuing path() callers
//!       while the pair's lookup completes at a random moment; direct liveness monitor (10 s of
//!       process progress after the completion); a sample of the pairs is traced and validated.
//!
//! A panic in the code under test is data (reported as a P-violation), never a tool error.
use std::{
    collections::{BTreeMap, HashMap},
    future::Future,
    sync::{
        Arc, Mutex,
        atomic::{AtomicBool, AtomicU64, Ordering},
    },
    time::{Duration, Instant, SystemTime},
};

use scion_stack::path::{
    PathStrategy,
    fetcher::traits::{PathFetchError, PathFetcher},
    manager::{MultiPathManager, traits::PathManager, verif_sync},
};
use sciparse::{
    address::ip_addr::ScionIpAddr,
    identifier::{asn::Asn, isd::Isd, isd_asn::IsdAsn},
    path::ScionPath,
    util::test_builder::TestPathBuilder,
};
use serde_json::{Value, json};
use tokio::sync::oneshot;
use vh_core::{NdjsonWriter, Rng};

// ------------------------------------------------------------------------------------------ log

#[derive(Clone, Debug)]
struct Ev {
    seq: u64,
    kind: String,
    w: u64,
    task: Option<tokio::task::Id>,
    c: String,
    k: u64,
    snap: Option<verif_sync::Snapshot>,
    note: String,
}

static LOG: Mutex<Vec<Ev>> = Mutex::new(Vec::new());

fn log_snapshot() -> Vec<Ev> {
    let mut v = LOG.lock().unwrap().clone();
    // events of workers created while no sink was installed (id 0: leftovers of an earlier,
    // untraced manager that is still shutting down) do not belong to the observed run
    v.retain(|e| {
        e.w != 0
            || !matches!(
                e.kind.as_str(),
                "fetch_start" | "fetch_done" | "exiting" | "exit_notify" | "worker_exit" | "caller_check" | "caller_woken" | "map_load"
            )
    });
    v.sort_by_key(|e| e.seq);
    v
}
fn log_len() -> usize {
    LOG.lock().unwrap().len()
}

fn key_of(dst: IsdAsn) -> u64 {
    dst.asn().0
}

fn install_sink() {
    verif_sync::set_sink(Some(Arc::new(|e: verif_sync::Event| {
        let ev = Ev {
            seq: e.seq,
            kind: e.kind.to_string(),
            w: e.worker,
            task: e.task,
            c: String::new(),
            k: e.dst.map(key_of).unwrap_or(0),
            snap: if e.has_snapshot { Some(e.snapshot) } else { None },
            note: e.note.to_string(),
        };
        LOG.lock().unwrap().push(ev);
    })));
}

/// harness-side event, stamped from the same global counter
fn hev(kind: &str, c: &str, w: u64, k: u64, note: &str) {
    let seq = verif_sync::next_seq();
    LOG.lock().unwrap().push(Ev {
        seq,
        kind: kind.to_string(),
        w,
        task: tokio::task::try_id(),
        c: c.to_string(),
        k,
        snap: None,
        note: note.to_string(),
    });
}

fn reset_all() {
    verif_sync::reset();
    LOG.lock().unwrap().clear();
}

// ----------------------------------------------------------------------------------- heartbeat
// Liveness deadlines are measured in wall time AND in progress of the runtime under test (a task
// that ticks every 5 ms): on a starved machine no deadline expires.
static HEART: AtomicU64 = AtomicU64::new(0);

fn spawn_heartbeat() {
    tokio::spawn(async {
        loop {
            tokio::time::sleep(Duration::from_millis(5)).await;
            HEART.fetch_add(1, Ordering::SeqCst);
        }
    });
}

#[derive(Clone, Copy)]
struct Deadline {
    t0: Instant,
    hb0: u64,
    secs: u64,
}
impl Deadline {
    fn new(secs: u64) -> Self {
        Deadline { t0: Instant::now(), hb0: HEART.load(Ordering::SeqCst), secs }
    }
    fn passed(&self) -> bool {
        self.t0.elapsed() >= Duration::from_secs(self.secs)
            && HEART.load(Ordering::SeqCst).saturating_sub(self.hb0) * 5 >= self.secs * 1000
    }
}

// --------------------------------------------------------------------------------------- paths

fn src_ia() -> IsdAsn {
    IsdAsn::new(Isd(1), Asn(1))
}
fn dst_ia(k: u64) -> IsdAsn {
    IsdAsn::new(Isd(2), Asn(k))
}
fn now_secs() -> u64 {
    SystemTime::now().duration_since(SystemTime::UNIX_EPOCH).unwrap().as_secs()
}

/// a path src -> dst whose hop fields expire at about `expiry` (unix seconds)
fn mk_path(dst: IsdAsn, expiry: u64) -> ScionPath {
    let src = ScionIpAddr::new(src_ia(), std::net::IpAddr::V4(std::net::Ipv4Addr::LOCALHOST));
    let dsta = ScionIpAddr::new(dst, std::net::IpAddr::V4(std::net::Ipv4Addr::new(127, 0, 0, 2)));
    // exp_time 0 = one unit of 24h/256 = 337.5 s after the info timestamp
    let ts = (expiry - 337) as u32;
    TestPathBuilder::new(src.into(), dsta.into())
        .using_info_timestamp(ts)
        .with_hop_expiry(0)
        .up()
        .add_hop(0, 1)
        .with_asn(77)
        .add_hop(2, 3)
        .add_hop(1, 0)
        .build(ts)
        .path()
}

// ------------------------------------------------------------------------------------- fetcher

#[derive(Clone, Copy, Debug, PartialEq)]
enum Outcome {
    Ok,
    OkNear, // ok, but the path is close to the expiry threshold: triggers a refetch in ~2 s
    Empty,
    Err,
}
impl Outcome {
    fn name(self) -> &'static str {
        match self {
            Outcome::Ok | Outcome::OkNear => "ok",
            Outcome::Empty => "empty",
            Outcome::Err => "err",
        }
    }
}

enum FetchMode {
    /// completion gated by the director
    Gated,
    /// record mode: outcome and delay by seeded rng
    Random { seed: u64 },
}

struct FetchState {
    mode: FetchMode,
    /// worker id -> gate of its pending fetch
    pending: Mutex<HashMap<u64, oneshot::Sender<Outcome>>>,
    calls: AtomicU64,
    threshold_secs: u64,
    /// record mode: cleanup phase, answer immediately
    fast: AtomicBool,
    /// record mode, directed scenario: the first lookup waits for the director
    gate_first: AtomicBool,
}

#[derive(Clone)]
struct Fetcher(Arc<FetchState>);

fn worker_of_current_task() -> u64 {
    let id = tokio::task::try_id();
    let log = LOG.lock().unwrap();
    log.iter()
        .filter(|e| e.kind == "fetch_start" && e.task == id)
        .max_by_key(|e| e.seq)
        .map(|e| e.w)
        .unwrap_or(0)
}

impl PathFetcher for Fetcher {
    fn fetch_paths(
        &self,
        _src: IsdAsn,
        dst: IsdAsn,
    ) -> impl Future<Output = Result<Vec<ScionPath>, PathFetchError>> + Send + '_ {
        async move {
            let st = &self.0;
            let w = worker_of_current_task();
            let n = st.calls.fetch_add(1, Ordering::SeqCst);
            let outcome = match &st.mode {
                FetchMode::Gated => {
                    let (tx, rx) = oneshot::channel();
                    st.pending.lock().unwrap().insert(w, tx);
                    hev("fetch_call", "", w, key_of(dst), "");
                    rx.await.unwrap_or(Outcome::Err)
                }
                FetchMode::Random { seed } => {
                    hev("fetch_call", "", w, key_of(dst), "");
                    let mut rng = Rng::new(seed.wrapping_mul(1_000_003).wrapping_add(n * 7919 + w));
                    if st.gate_first.swap(false, Ordering::SeqCst) {
                        let (tx, rx) = oneshot::channel();
                        st.pending.lock().unwrap().insert(w, tx);
                        let _ = tokio::time::timeout(Duration::from_secs(3), rx).await;
                    }
                    if !st.fast.load(Ordering::SeqCst) {
                        match rng.below(4) {
                            0 => {}
                            1 => tokio::task::yield_now().await,
                            2 => tokio::time::sleep(Duration::from_micros(rng.range(50, 3000))).await,
                            _ => {
                                for _ in 0..rng.range(1, 5) {
                                    tokio::task::yield_now().await;
                                }
                            }
                        }
                    }
                    match rng.below(5) {
                        0 => Outcome::Empty,
                        1 => Outcome::Err,
                        _ => Outcome::Ok,
                    }
                }
            };
            hev("fetch_ret", "", w, key_of(dst), outcome.name());
            match outcome {
                Outcome::Ok => Ok(vec![mk_path(dst, now_secs() + 20 * 3600)]),
                Outcome::OkNear => Ok(vec![mk_path(dst, now_secs() + st.threshold_secs + 3)]),
                Outcome::Empty => Ok(vec![]),
                Outcome::Err => Err(PathFetchError::InternalError("scripted failure".into())),
            }
        }
    }
}

type Mgr = MultiPathManager<Fetcher>;

// ------------------------------------------------------------------------------- observations

/// worker states as far as the hook events show them
fn obs_workers(log: &[Ev], nw: usize) -> Vec<String> {
    let mut st = vec!["unborn".to_string(); nw];
    for e in log {
        if e.w == 0 || e.w as usize > nw {
            continue;
        }
        let s = &mut st[e.w as usize - 1];
        match e.kind.as_str() {
            "map_insert" => *s = "spawned".into(),
            "fetch_start" => *s = "fetching".into(),
            "fetch_done" => *s = "sleeping".into(),
            "exiting" => *s = "exiting".into(),
            "exit_notify" => *s = "clearing".into(),
            "worker_exit" => *s = "dead".into(),
            _ => {}
        }
    }
    st
}

/// content of the map (key -> worker id) as far as the hook events show it
fn obs_map(log: &[Ev], nk: usize) -> Vec<u64> {
    let mut m = vec![0u64; nk];
    for e in log {
        if e.k == 0 || e.k as usize > nk {
            continue;
        }
        match e.kind.as_str() {
            "map_insert" => m[e.k as usize - 1] = e.w,
            "map_remove" => m[e.k as usize - 1] = 0,
            _ => {}
        }
    }
    m
}

/// P-monitor SingleWorker: a further worker for a pair is created only after the map entry of an
/// earlier one was removed.  A removal is bracketed by map_remove_begin .. map_remove_end and
/// takes effect somewhere in between, so a removal that reported success counts from its begin.
fn single_worker_ok(log: &[Ev]) -> Result<(), String> {
    // (begin seq, pair) of the removals that removed an entry
    let mut removals: Vec<(u64, u64)> = vec![];
    for (i, e) in log.iter().enumerate() {
        if e.kind != "map_remove_begin" {
            continue;
        }
        let next = log[i + 1..].iter().find(|x| x.task == e.task && (x.kind == "map_remove" || x.kind == "map_remove_end"));
        if let Some(x) = next {
            if x.kind == "map_remove" {
                removals.push((e.seq, e.k));
            }
        }
    }
    let mut ins: HashMap<u64, usize> = HashMap::new();
    for e in log {
        if e.kind == "map_insert" {
            let n = ins.entry(e.k).or_default();
            *n += 1;
            let rem = removals.iter().filter(|(s, k)| *k == e.k && *s < e.seq).count();
            if *n > rem + 1 {
                return Err(format!("pair {}: worker {} is the {}. worker started although only {} map entries were removed before", e.k, e.w, *n, rem));
            }
        }
    }
    Ok(())
}

fn ev_json(e: &Ev, names: &HashMap<tokio::task::Id, String>, wtasks: &HashMap<tokio::task::Id, u64>) -> Value {
    let c = if !e.c.is_empty() {
        e.c.clone()
    } else {
        e.task.and_then(|t| names.get(&t).cloned()).unwrap_or_default()
    };
    let by = e.task.and_then(|t| wtasks.get(&t).copied()).unwrap_or(0);
    let s = e.snap.unwrap_or_default();
    json!({"ev": e.kind, "seq": e.seq, "w": e.w, "c": c, "k": e.k, "by": by, "note": e.note,
           "snap": e.snap.is_some(), "init": s.initialized, "ongoing": s.ongoing, "err": s.has_error, "active": s.has_active})
}

/// worker task ids: the task that emitted fetch_start / exiting for worker w
fn worker_tasks(log: &[Ev]) -> HashMap<tokio::task::Id, u64> {
    let mut m = HashMap::new();
    for e in log {
        if matches!(e.kind.as_str(), "fetch_start" | "fetch_done" | "exiting" | "exit_notify" | "worker_exit") && e.w != 0 {
            if let Some(t) = e.task {
                m.insert(t, e.w);
            }
        }
    }
    m
}

// ------------------------------------------------------------------------------------- callers

#[derive(Clone, Debug, PartialEq)]
enum CallRes {
    Path,
    Error,
    NoneYet,
    Cancelled,
    Panic(String),
}
impl CallRes {
    fn name(&self) -> String {
        match self {
            CallRes::Path => "path".into(),
            CallRes::Error => "error".into(),
            CallRes::NoneYet => "none".into(),
            CallRes::Cancelled => "cancelled".into(),
            CallRes::Panic(_) => "panic".into(),
        }
    }
}

struct Caller {
    name: String,
    join: Option<tokio::task::JoinHandle<CallRes>>,
    res: Option<CallRes>,
    started: Option<Instant>,
}

fn spawn_api_caller(mgr: &Mgr, name: &str, kind: &str, k: u64) -> tokio::task::JoinHandle<CallRes> {
    let m = mgr.clone();
    let cached = kind == "cached";
    let nm = name.to_string();
    tokio::spawn(async move {
        let r = if cached {
            match m.cached_path(src_ia(), dst_ia(k), SystemTime::now()) {
                Some(_) => CallRes::Path,
                None => CallRes::NoneYet,
            }
        } else {
            match m.path_wait(src_ia(), dst_ia(k), SystemTime::now()).await {
                Ok(_) => CallRes::Path,
                Err(_) => CallRes::Error,
            }
        };
        // the result is stamped after the caller's clone of the manager was released: the
        // release is a hidden step between the caller's last hook event and this stamp
        drop(m);
        hev("caller_done", &nm, 0, k, &r.name());
        r
    })
}

fn spawn_handle_caller(h: verif_sync::VerifHandle, name: &str) -> tokio::task::JoinHandle<CallRes> {
    let nm = name.to_string();
    tokio::spawn(async move {
        let r = match h.active_path().await {
            Some(_) => CallRes::Path,
            None => CallRes::Error,
        };
        hev("caller_done", &nm, h.id(), 0, &r.name());
        r
    })
}

async fn reap(c: &mut Caller) {
    if c.res.is_some() {
        return;
    }
    if let Some(j) = &c.join {
        if j.is_finished() {
            let j = c.join.take().unwrap();
            c.res = Some(match j.await {
                Ok(r) => r,
                Err(e) if e.is_cancelled() => {
                    hev("caller_done", &c.name, 0, 0, "cancelled");
                    CallRes::Cancelled
                }
                Err(e) => CallRes::Panic(format!("{e}")),
            });
        }
    }
}

// ------------------------------------------------------------------------------------- replay

async fn settle() {
    // run-to-quiescence on the current_thread runtime: yield until no hook event was produced
    // and no task made progress during a whole round of yields
    let mut stable = 0;
    let mut last = log_len();
    for _ in 0..400 {
        for _ in 0..6 {
            tokio::task::yield_now().await;
        }
        let n = log_len();
        if n == last {
            stable += 1;
            if stable >= 2 {
                return;
            }
        } else {
            stable = 0;
            last = n;
        }
    }
}

async fn wait_until(mut cond: impl FnMut() -> bool, timeout: Duration) -> bool {
    let t0 = Instant::now();
    loop {
        if cond() {
            return true;
        }
        if t0.elapsed() > timeout {
            return false;
        }
        tokio::time::sleep(Duration::from_millis(2)).await;
    }
}

struct ReplayOut {
    obs: Vec<Value>,
    conf: bool,
    mis: Value,
    pv: Vec<Value>,
    timing: bool,
    /// a timer of the code fired that the schedule does not contain (idle expiry or refetch of
    /// another worker): the schedule is not realisable with real clocks, the run is inconclusive
    unsched: bool,
    trace: Vec<Value>,
    fetches: u64,
}

fn replay_one(sched: &Value, idle_ms: u64) -> ReplayOut {
    const GATE_FIRST: bool = false;
    reset_all();
    let h = sched["h"].as_array().expect("h").clone();
    let fin = sched["final"].clone();
    let callers_meta = sched["callers"].as_object().expect("callers meta").clone();
    let nw = fin["w"].as_array().map(|a| a.len()).unwrap_or(2);
    let nk = fin["m"].as_array().map(|a| a.len()).unwrap_or(1);
    let has_idle = h.iter().any(|s| s["ev"]["a"] == "idle");
    // refetch after an error needs a short first backoff; after ok a near-expiry first answer
    let threshold = 10u64;
    // a refetch is scheduled for a worker whose first lookup fails: needs a short first backoff
    let refetch_after_fail = h.iter().enumerate().any(|(i, s)| {
        s["ev"]["a"] == "refetch"
            && h[..i].iter().any(|p| p["ev"]["a"] == "ret" && p["ev"]["w"] == s["ev"]["w"] && p["ev"]["o"] != "ok")
    });
    let (bmin, bmax, bfac) = if refetch_after_fail { (0.0004, 3600.0, 1000.0) } else { (3600.0, 3600.0, 1.0) };
    let cfg = verif_sync::config(
        Duration::from_secs(3600),
        Duration::from_millis(100),
        Duration::from_secs(threshold),
        if has_idle { Duration::from_millis(idle_ms) } else { Duration::from_secs(3600) },
        bmin,
        bmax,
        bfac,
    );
    let rt = tokio::runtime::Builder::new_current_thread().enable_all().build().expect("runtime");
    let out = rt.block_on(async move {
        let fst = Arc::new(FetchState {
            mode: FetchMode::Gated,
            pending: Mutex::new(HashMap::new()),
            calls: AtomicU64::new(0),
            threshold_secs: threshold,
            fast: AtomicBool::new(false),
            gate_first: AtomicBool::new(GATE_FIRST),
        });
        spawn_heartbeat();
        let mut mgr: Option<Mgr> = Some(MultiPathManager::new(cfg, Fetcher(fst.clone()), PathStrategy::default()).expect("config"));
        let mut callers: BTreeMap<String, Caller> = BTreeMap::new();
        for (name, _) in callers_meta.iter() {
            callers.insert(name.clone(), Caller { name: name.clone(), join: None, res: None, started: None });
        }
        let mut names: HashMap<tokio::task::Id, String> = HashMap::new();
        let mut mis = Value::Null;
        let mut conf = true;
        let mut timing = false;
        let mut unsched = false;
        let mut sched_idle: Vec<u64> = vec![];
        let mut sched_fetches: HashMap<u64, usize> = HashMap::new();
        let mut pv: Vec<Value> = vec![];
        let mut obs: Vec<Value> = vec![];

        // which workers are scheduled to refetch later (first answer must expire soon)
        let refetch_after: Vec<u64> = h.iter().filter(|s| s["ev"]["a"] == "refetch").map(|s| s["ev"]["w"].as_u64().unwrap()).collect();

        macro_rules! observe {
            () => {{
                let log = log_snapshot();
                let mut oc = serde_json::Map::new();
                for (n, c) in callers.iter() {
                    let s = match (&c.res, c.started) {
                        (Some(r), _) => r.name(),
                        (None, Some(_)) => "pending".to_string(),
                        (None, None) => "idle".to_string(),
                    };
                    oc.insert(n.clone(), Value::String(s));
                }
                json!({"c": oc, "w": obs_workers(&log, nw), "m": obs_map(&log, nk)})
            }};
        }

        for (i, step) in h.iter().enumerate() {
            for c in callers.values_mut() {
                reap(c).await;
            }
            let real = observe!();
            if conf && real != step["pre"] {
                conf = false;
                mis = json!({"step": i, "spec": step["pre"], "real": real});
            }
            obs.push(real);
            let ev = &step["ev"];
            let a = ev["a"].as_str().unwrap_or("");
            let cn = ev["c"].as_str().unwrap_or("").to_string();
            let w = ev["w"].as_u64().unwrap_or(0);
            match a {
                "start" => {
                    let meta = &callers_meta[&cn];
                    let kind = meta["kind"].as_str().unwrap();
                    let k = meta["k"].as_u64().unwrap();
                    if let Some(m) = &mgr {
                        hev("caller_start", &cn, 0, k, kind);
                        let j = spawn_api_caller(m, &cn, kind, k);
                        names.insert(j.id(), cn.clone());
                        let c = callers.get_mut(&cn).unwrap();
                        c.join = Some(j);
                        c.started = Some(Instant::now());
                    }
                }
                "handle" => {
                    let hs = verif_sync::handles();
                    if let Some(hd) = hs.into_iter().find(|x| x.id() == w) {
                        hev("handle_get", &cn, w, 0, "");
                        let j = spawn_handle_caller(hd, &cn);
                        names.insert(j.id(), cn.clone());
                        let c = callers.get_mut(&cn).unwrap();
                        c.join = Some(j);
                        c.started = Some(Instant::now());
                    } else if conf {
                        conf = false;
                        mis = json!({"step": i, "spec": "handle of worker exists", "real": "no such worker"});
                    }
                }
                "cancel" => {
                    let c = callers.get_mut(&cn).unwrap();
                    if let Some(j) = &c.join {
                        hev("caller_cancel", &cn, 0, 0, "");
                        j.abort();
                    }
                }
                "ret" => {
                    let o = match ev["o"].as_str().unwrap_or("") {
                        "ok" => {
                            let first = !log_snapshot().iter().any(|e| e.kind == "fetch_done" && e.w == w);
                            if first && refetch_after.contains(&w) { Outcome::OkNear } else { Outcome::Ok }
                        }
                        "empty" => Outcome::Empty,
                        _ => Outcome::Err,
                    };
                    let tx = fst.pending.lock().unwrap().remove(&w);
                    match tx {
                        Some(tx) => {
                            let _ = tx.send(o);
                        }
                        None => {
                            if conf {
                                conf = false;
                                mis = json!({"step": i, "spec": "worker awaits the fetcher", "real": "no pending fetch"});
                            }
                        }
                    }
                }
                "refetch" => {
                    *sched_fetches.entry(w).or_default() += 1;
                    let before = log_snapshot().iter().filter(|e| e.kind == "fetch_call" && e.w == w).count();
                    let ok = wait_until(|| log_snapshot().iter().filter(|e| e.kind == "fetch_call" && e.w == w).count() > before, Duration::from_secs(8)).await;
                    if !ok {
                        timing = true;
                    }
                }
                "idle" => {
                    sched_idle.push(w);
                    let ok = wait_until(|| log_snapshot().iter().any(|e| e.kind == "worker_exit" && e.w == w), Duration::from_millis(idle_ms * 4 + 5000)).await;
                    if !ok {
                        timing = true;
                    }
                }
                "stop" => {
                    if let Some(m) = &mgr {
                        m.stop_managing_paths(src_ia(), dst_ia(w));
                    }
                }
                "drop" => {
                    hev("drop_begin", "", 0, 0, "");
                    mgr = None;
                    hev("drop", "", 0, 0, "");
                }
                _ => {}
            }
            settle().await;
            {
                // timers of the code that the schedule does not contain
                let log = log_snapshot();
                for e in log.iter() {
                    if e.kind == "exiting" && e.note == "idle" && !sched_idle.contains(&e.w) {
                        unsched = true;
                    }
                }
                let mut calls: HashMap<u64, usize> = HashMap::new();
                for e in log.iter().filter(|e| e.kind == "fetch_call") {
                    *calls.entry(e.w).or_default() += 1;
                }
                for (w, n) in calls {
                    if n > 1 + sched_fetches.get(&w).copied().unwrap_or(0) {
                        unsched = true;
                    }
                }
            }
            // P-monitor NoLostWakeup: after a lookup finished, every caller that waited on that
            // worker is released; after a cancel the caller is gone
            if a == "cancel" {
                let c = callers.get_mut(&cn).unwrap();
                reap(c).await;
            }
            if a == "ret" {
                // callers that registered with worker w before this answer (caller_check saw an
                // update pending) and were not woken before it
                let log = log_snapshot();
                let mut waiting: Vec<String> = vec![];
                for e in log.iter().filter(|e| e.kind == "caller_check" && e.w == w) {
                    let s = e.snap.unwrap_or_default();
                    if !(s.ongoing || !s.initialized) {
                        continue;
                    }
                    if let Some(n) = e.task.and_then(|t| names.get(&t)) {
                        if !waiting.contains(n) {
                            waiting.push(n.clone());
                        }
                    }
                }
                for n in waiting {
                    let c = callers.get_mut(&n).unwrap();
                    reap(c).await;
                    if c.res.is_some() {
                        continue;
                    }
                    let dl = Deadline::new(8);
                    while c.res.is_none() && !dl.passed() {
                        tokio::time::sleep(Duration::from_millis(5)).await;
                        reap(c).await;
                    }
                    if c.res.is_none() {
                        pv.push(json!({"key": "NoLostWakeup:not-released-after-lookup", "what": format!("caller {} waited on worker {} and is still pending 8 s after that worker's lookup finished", n, w)}));
                    }
                }
            }
        }
        // ---- end of schedule: the manager was dropped and every lookup answered
        // release anything still pending (not expected: complete schedules answer all lookups)
        let t_end = Deadline::new(8);
        let mut all_done = false;
        while !t_end.passed() {
            // "lookups complete": answer lookups the schedule did not answer (timer-driven refetches)
            let pend: Vec<oneshot::Sender<Outcome>> = fst.pending.lock().unwrap().drain().map(|(_, tx)| tx).collect();
            for tx in pend {
                unsched = true;
                let _ = tx.send(Outcome::Err);
            }
            for c in callers.values_mut() {
                reap(c).await;
            }
            all_done = callers.values().all(|c| c.started.is_none() || c.res.is_some());
            let log = log_snapshot();
            let spawned = log.iter().filter(|e| e.kind == "map_insert").count();
            let exited = log.iter().filter(|e| e.kind == "worker_exit").count();
            if all_done && spawned == exited {
                break;
            }
            tokio::time::sleep(Duration::from_millis(5)).await;
        }
        let log = log_snapshot();
        let real = observe!();
        if conf && real != fin {
            conf = false;
            mis = json!({"step": h.len(), "spec": fin, "real": real});
        }
        obs.push(real);
        for c in callers.values() {
            if c.started.is_some() && c.res.is_none() {
                pv.push(json!({"key": "NoLostWakeup:caller-never-released", "what": format!("caller {} still pending 8 s after every lookup was answered and the manager dropped", c.name)}));
            }
            if let Some(CallRes::Panic(m)) = &c.res {
                pv.push(json!({"key": "Panic:caller", "what": format!("caller {} panicked: {}", c.name, m)}));
            }
        }
        let spawned: Vec<u64> = log.iter().filter(|e| e.kind == "map_insert").map(|e| e.w).collect();
        for w in &spawned {
            if !log.iter().any(|e| e.kind == "worker_exit" && e.w == *w) {
                pv.push(json!({"key": "DropStopsAll:worker-alive-after-drop", "what": format!("worker {} did not terminate within 8 s after the manager was dropped", w)}));
            }
        }
        if mgr.is_none() {
            for hd in verif_sync::handles() {
                let snap = hd.snapshot();
                let exited = log.iter().any(|e| e.kind == "worker_exit" && e.w == hd.id());
                if !exited {
                    continue;
                }
                let p = tokio::time::timeout(Duration::from_secs(20), hd.active_path()).await;
                match p {
                    Err(_) => pv.push(json!({"key": "HandleAfterDrop:handle-hangs", "what": format!("handle of worker {} does not answer after drop", hd.id())})),
                    Ok(Some(_)) => pv.push(json!({"key": "HandleAfterDrop:handle-yields-path", "what": format!("handle of worker {} yields a path after the manager was dropped and the worker ended", hd.id())})),
                    Ok(None) => {}
                }
                if hd.current_error().is_none() || !snap.has_error {
                    pv.push(json!({"key": "HandleAfterDrop:no-error", "what": format!("handle of worker {} reports no error after the manager was dropped and the worker ended", hd.id())}));
                }
            }
        }
        if let Err(m) = single_worker_ok(&log) {
            pv.push(json!({"key": "SingleWorker:second-worker-without-removal", "what": m}));
        }
        let _ = all_done;
        // unscheduled exits (idle timer fired early, deferred reclamation) make the run inconclusive
        let wt = worker_tasks(&log);
        let trace: Vec<Value> = log.iter().map(|e| ev_json(e, &names, &wt)).collect();
        ReplayOut { obs, conf, mis, pv, timing, unsched, trace, fetches: fst.calls.load(Ordering::SeqCst) }
    });
    // let the runtime drop (aborts whatever is left)
    out
}


// ---------------------------------------------------------------------------------------- fine
// Binding 1b: fine-grained schedules (GenFine_PathSync): every task is parked at the yield points of
// the hook and released one step at a time, on a multi-thread runtime.

const GATE_NAMES: [&str; 9] = [
    "path.after_peek",
    "path.after_ensure",
    "handle.after_load",
    "lock.await",
    "await.registered",
    "worker.start",
    "fetch.before_finish",
    "exit.before_remove",
    "exit.before_notify",
];

#[derive(Default)]
struct GateTable {
    /// task -> gate it is parked at
    at: HashMap<tokio::task::Id, &'static str>,
    /// task -> last gate it left
    left: HashMap<tokio::task::Id, &'static str>,
    permits: HashMap<tokio::task::Id, u64>,
    free_run: bool,
}

static GATES: std::sync::LazyLock<(Mutex<GateTable>, std::sync::Condvar)> =
    std::sync::LazyLock::new(|| (Mutex::new(GateTable::default()), std::sync::Condvar::new()));

fn gate_callback(name: &'static str) {
    if !GATE_NAMES.contains(&name) {
        return;
    }
    let Some(id) = tokio::task::try_id() else {
        return;
    };
    // block_in_place: the worker thread hands its run queue (including a task spawned by this
    // one, which sits in the non-stealable LIFO slot) to another thread while this task is parked
    tokio::task::block_in_place(|| {
        let (m, cv) = &*GATES;
        let mut g = m.lock().unwrap();
        if g.free_run {
            return;
        }
        g.at.insert(id, name);
        cv.notify_all();
        let t0 = Instant::now();
        loop {
            if g.free_run {
                break;
            }
            if let Some(p) = g.permits.get_mut(&id) {
                if *p > 0 {
                    *p -= 1;
                    break;
                }
            }
            if t0.elapsed() > Duration::from_secs(30) {
                break; // never block the code under test forever
            }
            g = cv.wait_timeout(g, Duration::from_millis(20)).unwrap().0;
        }
        g.at.remove(&id);
        g.left.insert(id, name);
    });
}

fn gate_permit(id: tokio::task::Id) {
    let (m, cv) = &*GATES;
    let mut g = m.lock().unwrap();
    *g.permits.entry(id).or_default() += 1;
    cv.notify_all();
}

fn gate_free_run() {
    let (m, cv) = &*GATES;
    m.lock().unwrap().free_run = true;
    cv.notify_all();
}

fn fine_one(sched: &Value, alts: &[Value]) -> ReplayOut {
    const GATE_FIRST: bool = false;
    reset_all();
    {
        let (m, _) = &*GATES;
        *m.lock().unwrap() = GateTable::default();
    }
    verif_sync::set_yield(Some(Arc::new(gate_callback)));
    let h = sched["h"].as_array().expect("h").clone();
    let fin = sched["final"].clone();
    let callers_meta = sched["callers"].as_object().expect("callers meta").clone();
    let nw = fin["w"].as_array().map(|a| a.len()).unwrap_or(2);
    let nk = fin["m"].as_array().map(|a| a.len()).unwrap_or(1);
    let threshold = 10u64;
    let cfg = verif_sync::config(
        Duration::from_secs(3600),
        Duration::from_millis(100),
        Duration::from_secs(threshold),
        Duration::from_secs(3600),
        3600.0,
        3600.0,
        1.0,
    );
    // expected observations per step: any of the alternatives (same director steps, different
    // order of the urgent steps in between)
    let expected = |i: usize| -> Vec<Value> {
        let mut v = vec![];
        for a in std::iter::once(sched).chain(alts.iter()) {
            let ah = a["h"].as_array().unwrap();
            let o = if i < ah.len() { ah[i]["pre"].clone() } else { a["final"].clone() };
            if !v.contains(&o) {
                v.push(o);
            }
        }
        v
    };
    let rt = tokio::runtime::Builder::new_multi_thread().worker_threads(8).enable_all().build().expect("runtime");
    let out = rt.block_on(async move {
        let fst = Arc::new(FetchState {
            mode: FetchMode::Gated,
            pending: Mutex::new(HashMap::new()),
            calls: AtomicU64::new(0),
            threshold_secs: threshold,
            fast: AtomicBool::new(false),
            gate_first: AtomicBool::new(GATE_FIRST),
        });
        spawn_heartbeat();
        let mut mgr: Option<Mgr> = Some(MultiPathManager::new(cfg, Fetcher(fst.clone()), PathStrategy::default()).expect("config"));
        let mut callers: BTreeMap<String, Caller> = BTreeMap::new();
        let mut ctask: HashMap<String, tokio::task::Id> = HashMap::new();
        for (name, _) in callers_meta.iter() {
            callers.insert(name.clone(), Caller { name: name.clone(), join: None, res: None, started: None });
        }
        let mut names: HashMap<tokio::task::Id, String> = HashMap::new();
        let mut wtask: HashMap<u64, tokio::task::Id> = HashMap::new();
        let mut conf = true;
        let mut mis = Value::Null;
        let mut pv: Vec<Value> = vec![];
        let mut obs: Vec<Value> = vec![];

        macro_rules! observe {
            () => {{
                for c in callers.values_mut() {
                    reap(c).await;
                }
                let log = log_snapshot();
                // worker tasks: by events, else the unknown task parked at worker.start
                for (t, w) in worker_tasks(&log) {
                    wtask.insert(w, t);
                }
                let (at, left) = {
                    let g = GATES.0.lock().unwrap();
                    (g.at.clone(), g.left.clone())
                };
                let mut inserted: Vec<u64> = log.iter().filter(|e| e.kind == "map_insert").map(|e| e.w).collect();
                inserted.sort();
                for (t, name) in at.iter() {
                    if *name == "worker.start" && !names.contains_key(t) && !wtask.values().any(|x| x == t) {
                        if let Some(w) = inserted.iter().find(|w| !wtask.contains_key(w)) {
                            wtask.insert(*w, *t);
                        }
                    }
                }
                let mut oc = serde_json::Map::new();
                for (n, c) in callers.iter() {
                    let s = match (&c.res, c.started) {
                        (Some(r), _) => r.name(),
                        (None, None) => "idle".to_string(),
                        (None, Some(_)) => {
                            let t = ctask.get(n);
                            match t.and_then(|t| at.get(t)) {
                                Some(g) => format!("g:{g}"),
                                None => {
                                    if t.and_then(|t| left.get(t)).copied() == Some("await.registered") { "await".to_string() } else { "running".to_string() }
                                }
                            }
                        }
                    };
                    oc.insert(n.clone(), Value::String(s));
                }
                let mut ow: Vec<String> = vec![];
                let pending: Vec<u64> = fst.pending.lock().unwrap().keys().copied().collect();
                for w in 1..=nw as u64 {
                    let has = |k: &str| log.iter().any(|e| e.kind == k && e.w == w);
                    let s = if !has("map_insert") {
                        "unborn".to_string()
                    } else if has("worker_exit") {
                        "dead".to_string()
                    } else if let Some(g) = wtask.get(&w).and_then(|t| at.get(t)) {
                        format!("g:{g}")
                    } else if pending.contains(&w) {
                        "fetching".to_string()
                    } else if has("fetch_done") && !has("exiting") {
                        "sleeping".to_string()
                    } else {
                        "running".to_string()
                    };
                    ow.push(s);
                }
                json!({"c": oc, "w": ow, "m": obs_map(&log, nk)})
            }};
        }
        macro_rules! await_obs {
            ($exp:expr) => {{
                let exp: Vec<Value> = $exp;
                let t0 = Instant::now();
                let mut last;
                loop {
                    last = observe!();
                    if exp.contains(&last) || t0.elapsed() > Duration::from_secs(10) {
                        break;
                    }
                    tokio::time::sleep(Duration::from_micros(300)).await;
                }
                last
            }};
        }

        for (i, step) in h.iter().enumerate() {
            let exp = expected(i);
            let real = await_obs!(exp.clone());
            obs.push(real.clone());
            if !exp.contains(&real) {
                conf = false;
                mis = json!({"step": i, "spec": step["pre"], "real": real});
                break;
            }
            let ev = &step["ev"];
            let a = ev["a"].as_str().unwrap_or("");
            let cn = ev["c"].as_str().unwrap_or("").to_string();
            let w = ev["w"].as_u64().unwrap_or(0);
            match a {
                "start" => {
                    let meta = &callers_meta[&cn];
                    let kind = meta["kind"].as_str().unwrap();
                    let k = meta["k"].as_u64().unwrap();
                    if let Some(m) = &mgr {
                        hev("caller_start", &cn, 0, k, kind);
                        let j = spawn_api_caller(m, &cn, kind, k);
                        names.insert(j.id(), cn.clone());
                        ctask.insert(cn.clone(), j.id());
                        let c = callers.get_mut(&cn).unwrap();
                        c.join = Some(j);
                        c.started = Some(Instant::now());
                    }
                }
                "handle" => {
                    if let Some(hd) = verif_sync::handles().into_iter().find(|x| x.id() == w) {
                        hev("handle_get", &cn, w, 0, "");
                        let j = spawn_handle_caller(hd, &cn);
                        names.insert(j.id(), cn.clone());
                        ctask.insert(cn.clone(), j.id());
                        let c = callers.get_mut(&cn).unwrap();
                        c.join = Some(j);
                        c.started = Some(Instant::now());
                    }
                }
                "step" | "unpark" => {
                    let t = if cn.is_empty() { wtask.get(&w).copied() } else { ctask.get(&cn).copied() };
                    match t {
                        Some(t) => gate_permit(t),
                        None => {
                            conf = false;
                            mis = json!({"step": i, "spec": "task is parked at a yield point", "real": "task unknown"});
                            break;
                        }
                    }
                }
                "cancel" => {
                    let c = callers.get_mut(&cn).unwrap();
                    if let Some(j) = &c.join {
                        hev("caller_cancel", &cn, 0, 0, "");
                        j.abort();
                    }
                    if let Some(t) = ctask.get(&cn) {
                        gate_permit(*t);
                    }
                }
                "ret" => {
                    let o = match ev["o"].as_str().unwrap_or("") {
                        "ok" => Outcome::Ok,
                        "empty" => Outcome::Empty,
                        _ => Outcome::Err,
                    };
                    if let Some(tx) = fst.pending.lock().unwrap().remove(&w) {
                        let _ = tx.send(o);
                    }
                }
                "stop" => {
                    if let Some(m) = &mgr {
                        m.stop_managing_paths(src_ia(), dst_ia(w));
                    }
                }
                "drop" => {
                    hev("drop_begin", "", 0, 0, "");
                    mgr = None;
                    hev("drop", "", 0, 0, "");
                }
                _ => {}
            }
        }
        if conf {
            let exp = expected(h.len());
            let real = await_obs!(exp.clone());
            obs.push(real.clone());
            if !exp.contains(&real) {
                conf = false;
                mis = json!({"step": h.len(), "spec": fin, "real": real});
            }
        }
        // ---- whatever happened: let everything run freely and evaluate the property
        gate_free_run();
        if let Some(m) = mgr.take() {
            hev("drop_begin", "", 0, 0, "");
            drop(m);
            hev("drop", "", 0, 0, "");
        }
        let t_end = Deadline::new(8);
        while !t_end.passed() {
            let pend: Vec<oneshot::Sender<Outcome>> = fst.pending.lock().unwrap().drain().map(|(_, tx)| tx).collect();
            for tx in pend {
                let _ = tx.send(Outcome::Err);
            }
            for c in callers.values_mut() {
                reap(c).await;
            }
            let log = log_snapshot();
            let spawned = log.iter().filter(|e| e.kind == "map_insert").count();
            let exited = log.iter().filter(|e| e.kind == "worker_exit").count();
            if callers.values().all(|c| c.started.is_none() || c.res.is_some()) && spawned == exited {
                break;
            }
            tokio::time::sleep(Duration::from_millis(2)).await;
        }
        let log = log_snapshot();
        for c in callers.values() {
            if c.started.is_some() && c.res.is_none() {
                pv.push(json!({"key": "NoLostWakeup:caller-never-released", "what": format!("caller {} still pending 8 s after every lookup was answered and the manager dropped", c.name)}));
            }
            if let Some(CallRes::Panic(m)) = &c.res {
                pv.push(json!({"key": "Panic:caller", "what": format!("caller {} panicked: {}", c.name, m)}));
            }
        }
        let spawned: Vec<u64> = log.iter().filter(|e| e.kind == "map_insert").map(|e| e.w).collect();
        for w in &spawned {
            if !log.iter().any(|e| e.kind == "worker_exit" && e.w == *w) {
                pv.push(json!({"key": "DropStopsAll:worker-alive-after-drop", "what": format!("worker {} did not terminate within 8 s after the manager was dropped", w)}));
            }
        }
        for hd in verif_sync::handles() {
            if !log.iter().any(|e| e.kind == "worker_exit" && e.w == hd.id()) {
                continue;
            }
            match tokio::time::timeout(Duration::from_secs(20), hd.active_path()).await {
                Err(_) => pv.push(json!({"key": "HandleAfterDrop:handle-hangs", "what": format!("handle of worker {} does not answer after drop", hd.id())})),
                Ok(Some(_)) => pv.push(json!({"key": "HandleAfterDrop:handle-yields-path", "what": format!("handle of worker {} yields a path after the manager was dropped and the worker ended", hd.id())})),
                Ok(None) => {}
            }
            if hd.current_error().is_none() {
                pv.push(json!({"key": "HandleAfterDrop:no-error", "what": format!("handle of worker {} reports no error after the manager was dropped and the worker ended", hd.id())}));
            }
        }
        if let Err(m) = single_worker_ok(&log) {
            pv.push(json!({"key": "SingleWorker:second-worker-without-removal", "what": m}));
        }
        let wt = worker_tasks(&log);
        let trace: Vec<Value> = log.iter().map(|e| ev_json(e, &names, &wt)).collect();
        ReplayOut { obs, conf, mis, pv, timing: false, unsched: false, trace, fetches: fst.calls.load(Ordering::SeqCst) }
    });
    verif_sync::set_yield(None);
    gate_free_run();
    out
}

fn cmd_fine(inp: &str, outp: &str) {
    install_sink();
    let rows = vh_core::read_ndjson(inp);
    let mut out = NdjsonWriter::create(outp);
    let mut tr = NdjsonWriter::create(&format!("{outp}.trace.ndjson"));
    tr.write(&json!({"ev": "meta", "spec": "PathSync", "mode": "fine"}));
    let mut violating = 0;
    for row in rows.iter() {
        if row.get("h").is_none() {
            continue;
        }
        if violating >= 12 {
            out.write(&json!({"id": row["id"], "skipped": true}));
            continue;
        }
        let alts: Vec<Value> = row["alts"].as_array().cloned().unwrap_or_default();
        let r = match vh_core::catch(|| fine_one(row, &alts)) {
            Ok(r) => r,
            Err(p) => ReplayOut { obs: vec![], conf: false, mis: json!({"panic": p.clone()}), pv: vec![json!({"key": "Panic:harness-thread", "what": p})], timing: false, unsched: false, trace: vec![], fetches: 0 },
        };
        if !r.pv.is_empty() {
            violating += 1;
        }
        out.write(&json!({"id": row["id"], "obs": r.obs, "conf": r.conf, "mis": r.mis, "pv": r.pv, "fetches": r.fetches, "events": r.trace.len()}));
        let spec_nw = row["final"]["w"].as_array().map(|a| a.len()).unwrap_or(2);
        let real_nw = r.trace.iter().filter(|e| e["ev"] == "map_insert").count();
        tr.write(&json!({"ev": "reset", "nw": spec_nw.max(real_nw), "callers": row["callers"], "id": row["id"]}));
        for e in r.trace {
            tr.write(&e);
        }
    }
    out.finish();
    tr.finish();
}


// --------------------------------------------------------------------------------------- storm
// High-rate real-schedule driver: for many FRESH pairs, several threads keep issuing path()
// callers while the pending lookup of that pair completes at a random moment (heavy contention on
// PathSetSharedState::sync exactly when the worker clears the flags and notifies).  Direct
// liveness monitor: every caller resolves within 10 s of the lookup's completion, measured while
// the process itself makes progress (heartbeat).  A sample of the pairs runs with the hook's event
// sink installed (few callers) and is validated by Trace_PathSync.

struct StormFetcher {
    issued: Arc<AtomicU64>,
    target: u64,
    extra_yields: u64,
    spin_ns: u64,
    outcome: Outcome,
    done: Arc<AtomicBool>,
    completed: Arc<Mutex<Option<(Instant, u64)>>>,
    heart: Arc<AtomicU64>,
    traced: bool,
    /// lookups started for this (fresh, never stopped, never idle) pair: must stay 1
    lookups: Arc<AtomicU64>,
}

impl PathFetcher for StormFetcher {
    fn fetch_paths(
        &self,
        _src: IsdAsn,
        dst: IsdAsn,
    ) -> impl Future<Output = Result<Vec<ScionPath>, PathFetchError>> + Send + '_ {
        async move {
            let w = if self.traced { worker_of_current_task() } else { 0 };
            self.lookups.fetch_add(1, Ordering::SeqCst);
            if self.traced {
                hev("fetch_call", "", w, key_of(dst), "");
            }
            // answer only once callers are in flight, at a random moment
            let t0 = Instant::now();
            while self.issued.load(Ordering::Relaxed) < self.target && t0.elapsed() < Duration::from_millis(20) {
                tokio::task::yield_now().await;
            }
            for _ in 0..self.extra_yields {
                tokio::task::yield_now().await;
            }
            let t1 = Instant::now();
            while (t1.elapsed().as_nanos() as u64) < self.spin_ns {
                std::hint::spin_loop();
            }
            if self.traced {
                hev("fetch_ret", "", w, key_of(dst), self.outcome.name());
            }
            *self.completed.lock().unwrap() = Some((Instant::now(), self.heart.load(Ordering::SeqCst)));
            self.done.store(true, Ordering::SeqCst);
            match self.outcome {
                Outcome::Ok | Outcome::OkNear => Ok(vec![mk_path(dst, now_secs() + 20 * 3600)]),
                Outcome::Empty => Ok(vec![]),
                Outcome::Err => Err(PathFetchError::InternalError("scripted failure".into())),
            }
        }
    }
}

const HEART_MS: u64 = 5;

fn cmd_storm(evp: &str, resp: &str) {
    let seed0 = vh_core::seed_from_env();
    let pairs: u64 = std::env::var("VERIF_STORM_PAIRS").ok().and_then(|s| s.parse().ok()).unwrap_or(20000);
    let sample_every: u64 = std::env::var("VERIF_STORM_SAMPLE_EVERY").ok().and_then(|s| s.parse().ok()).unwrap_or(200);
    let budget_s: u64 = std::env::var("VERIF_STORM_BUDGET_S").ok().and_then(|s| s.parse().ok()).unwrap_or(3600);
    let mut tr = NdjsonWriter::create(evp);
    tr.write(&json!({"ev": "meta", "spec": "PathSync", "mode": "storm", "seed": seed0}));
    let rt = tokio::runtime::Builder::new_multi_thread().worker_threads(6).enable_all().build().expect("runtime");
    let heart = Arc::new(AtomicU64::new(0));
    let res = rt.block_on(async {
        {
            let h = heart.clone();
            tokio::spawn(async move {
                loop {
                    tokio::time::sleep(Duration::from_millis(HEART_MS)).await;
                    h.fetch_add(1, Ordering::SeqCst);
                }
            });
        }
        spawn_heartbeat();
        let t_start = Instant::now();
        let mut rng = Rng::new(seed0 ^ 0x5707_4D5E);
        let mut pv: Vec<Value> = vec![];
        let mut callers_total = 0u64;
        let mut parked_total = 0u64;
        let mut pairs_done = 0u64;
        let mut sampled = 0u64;
        let mut traces: Vec<(Value, Vec<Value>)> = vec![];
        let mut res_path = 0u64;
        let mut res_err = 0u64;
        for pair in 0..pairs {
            if pv.len() >= 3 || t_start.elapsed() > Duration::from_secs(budget_s) {
                break;
            }
            let traced = pair % sample_every == 0;
            if traced {
                reset_all();
                install_sink();
                sampled += 1;
            }
            let done = Arc::new(AtomicBool::new(false));
            let issued = Arc::new(AtomicU64::new(0));
            let completed = Arc::new(Mutex::new(None));
            let outcome = match rng.below(6) {
                0 => Outcome::Empty,
                1 => Outcome::Err,
                _ => Outcome::Ok,
            };
            let max_callers: u64 = if traced { rng.range(2, 8) } else { 4000 };
            let lookups = Arc::new(AtomicU64::new(0));
            let fetcher = StormFetcher {
                lookups: lookups.clone(),
                issued: issued.clone(),
                target: if traced { rng.range(1, max_callers) } else { rng.range(1, 48) },
                extra_yields: rng.below(4),
                spin_ns: if rng.chance(1, 2) { rng.below(3000) } else { 0 },
                outcome,
                done: done.clone(),
                completed: completed.clone(),
                heart: heart.clone(),
                traced,
            };
            let cfg = verif_sync::config(
                Duration::from_secs(3600),
                Duration::from_millis(100),
                Duration::from_secs(10),
                Duration::from_secs(3600),
                3600.0,
                3600.0,
                1.0,
            );
            let mgr = MultiPathManager::new(cfg, fetcher, PathStrategy::default()).expect("config");
            let dst = if traced { dst_ia(1) } else { dst_ia(pair % 60000 + 1) };
            let names: Arc<Mutex<HashMap<tokio::task::Id, String>>> = Arc::new(Mutex::new(HashMap::new()));
            // issuers on the runtime's threads
            let mut issuers = vec![];
            for t in 0..5u64 {
                let m = mgr.clone();
                let done = done.clone();
                let issued = issued.clone();
                let names = names.clone();
                let mut r = Rng::new(seed0 ^ pair.wrapping_mul(0x9E37_79B9) ^ (t << 56));
                issuers.push(tokio::spawn(async move {
                    let mut hs: Vec<(String, tokio::task::JoinHandle<bool>)> = vec![];
                    loop {
                        let n = issued.fetch_add(1, Ordering::SeqCst);
                        if n >= max_callers {
                            break;
                        }
                        let after = done.load(Ordering::SeqCst);
                        if traced {
                            let name = format!("w1_{}", n + 1);
                            hev("caller_start", &name, 0, 1, "wait");
                            let mm = m.clone();
                            let nm = name.clone();
                            let j = tokio::spawn(async move {
                                let ok = mm.path_wait(src_ia(), dst_ia(1), SystemTime::now()).await.is_ok();
                                drop(mm);
                                hev("caller_done", &nm, 0, 1, if ok { "path" } else { "error" });
                                ok
                            });
                            names.lock().unwrap().insert(j.id(), name.clone());
                            hs.push((name, j));
                        } else {
                            let mm = m.clone();
                            hs.push((String::new(), tokio::spawn(async move { mm.path(src_ia(), dst, SystemTime::now()).await.is_ok() })));
                        }
                        if after {
                            break; // one caller after the completion, then stop
                        }
                        if r.chance(1, 6) {
                            tokio::task::yield_now().await;
                        }
                    }
                    hs
                }));
            }
            let mut handles = vec![];
            for i in issuers {
                if let Ok(hs) = i.await {
                    handles.extend(hs);
                }
            }
            callers_total += handles.len() as u64;
            // every caller must resolve within 10 s of the completion (progress time)
            let mut pending = 0u64;
            for (name, mut j) in handles {
                loop {
                    match tokio::time::timeout(Duration::from_millis(50), &mut j).await {
                        Ok(Ok(ok)) => {
                            if ok { res_path += 1 } else { res_err += 1 }
                            break;
                        }
                        Ok(Err(e)) => {
                            if e.is_panic() {
                                pv.push(json!({"key": "Panic:caller", "what": format!("storm pair {pair}: caller panicked: {e}"), "pair": pair}));
                            }
                            break;
                        }
                        Err(_) => {
                            let c = *completed.lock().unwrap();
                            // no completion yet: the lookup itself is still running (bounded by its own 20 ms wait)
                            if let Some((at, hb)) = c {
                                let ticks = heart.load(Ordering::SeqCst).saturating_sub(hb);
                                if at.elapsed() > Duration::from_secs(10) && ticks * HEART_MS >= 10_000 {
                                    pending += 1;
                                    let _ = name;
                                    j.abort();
                                    break;
                                }
                            }
                        }
                    }
                }
            }
            if pending > 0 {
                parked_total += pending;
                pv.push(json!({"key": "NoLostWakeup:caller-never-released", "pair": pair, "seed": seed0,
                    "what": format!("storm pair {pair}: {pending} caller(s) of path() still pending 10 s (of process progress) after the lookup of their pair completed ({})", outcome.name())}));
            }
            // concurrent first requests for one pair start exactly one worker (nothing removes the
            // entry in a storm pair: no stop, idle and refetch periods of one hour)
            let nl = lookups.load(Ordering::SeqCst);
            if nl > 1 {
                pv.push(json!({"key": "SingleWorker:second-worker-without-removal", "pair": pair, "seed": seed0,
                    "what": format!("storm pair {pair}: {nl} lookups were started for one fresh pair (concurrent first requests must start exactly one worker)")}));
            }
            if traced {
                hev("drop_begin", "", 0, 0, "");
            }
            drop(mgr);
            if traced {
                hev("drop", "", 0, 0, "");
                // wait for the worker's exit events
                let t0 = Deadline::new(8);
                loop {
                    let log = log_snapshot();
                    let sp = log.iter().filter(|e| e.kind == "map_insert").count();
                    let ex = log.iter().filter(|e| e.kind == "worker_exit").count();
                    if sp == ex || t0.passed() {
                        if sp != ex && pending == 0 {
                            let evs: Vec<String> = log.iter().map(|e| format!("{} {} w{} {}", e.seq, e.kind, e.w, e.note)).collect();
                            pv.push(json!({"key": "DropStopsAll:worker-alive-after-drop", "pair": pair, "events": evs, "what": format!("storm pair {pair}: worker did not terminate within 8 s after the manager was dropped")}));
                        }
                        break;
                    }
                    tokio::time::sleep(Duration::from_millis(1)).await;
                }
                let log = log_snapshot();
                let wt = worker_tasks(&log);
                let nm = names.lock().unwrap().clone();
                let mut cm = serde_json::Map::new();
                for n in nm.values() {
                    cm.insert(n.clone(), json!({"kind": "wait", "k": 1}));
                }
                let nw = log.iter().filter(|e| e.kind == "map_insert").count().max(1);
                let evs: Vec<Value> = log.iter().map(|e| ev_json(e, &nm, &wt)).collect();
                if pending == 0 {
                    traces.push((json!({"ev": "reset", "nw": nw, "nk": 1, "callers": Value::Object(cm), "pair": pair}), evs));
                }
                verif_sync::set_sink(None);
            }
            pairs_done += 1;
        }
        json!({"pairs": pairs_done, "planned_pairs": pairs, "callers": callers_total, "never_released": parked_total, "sampled": sampled,
               "res_path": res_path, "res_error": res_err, "wall_s": t_start.elapsed().as_secs_f64(), "pv": pv, "traces": traces.len(),
               "_traces": traces.into_iter().map(|(m, e)| json!({"m": m, "e": e})).collect::<Vec<_>>()})
    });
    let mut res = res;
    if let Some(ts) = res.get("_traces").and_then(|t| t.as_array()).cloned() {
        for t in ts {
            tr.write(&t["m"]);
            for e in t["e"].as_array().unwrap() {
                tr.write(e);
            }
        }
    }
    res.as_object_mut().unwrap().remove("_traces");
    tr.finish();
    std::fs::write(resp, serde_json::to_string(&res).unwrap()).expect("write results");
    // the runtime is shut down without waiting for leftover tasks (parked callers of a violating run)
    rt.shutdown_background();
}

fn cmd_replay(inp: &str, outp: &str) {
    install_sink();
    let rows = vh_core::read_ndjson(inp);
    let mut out = NdjsonWriter::create(outp);
    let trace_path = format!("{outp}.trace.ndjson");
    let mut tr = NdjsonWriter::create(&trace_path);
    tr.write(&json!({"ev": "meta", "spec": "PathSync", "mode": "replay"}));
    let mut violating = 0;
    for row in rows.iter() {
        if row.get("h").is_none() {
            continue;
        }
        if violating >= 12 {
            // every violation costs seconds of waiting: the verdict is clear, skip the rest
            out.write(&json!({"id": row["id"], "skipped": true}));
            continue;
        }
        let mut idle_ms = 120;
        let mut res = None;
        for _attempt in 0..3 {
            let r = vh_core::catch(|| replay_one(row, idle_ms));
            match r {
                Ok(r) => {
                    let retry = !r.unsched && (r.timing || (!r.conf && row["h"].as_array().unwrap().iter().any(|s| s["ev"]["a"] == "idle" || s["ev"]["a"] == "refetch")));
                    let pvs = !r.pv.is_empty();
                    res = Some(r);
                    if !retry || pvs {
                        break;
                    }
                    idle_ms *= 4;
                }
                Err(p) => {
                    res = Some(ReplayOut { obs: vec![], conf: false, mis: json!({"panic": p}), pv: vec![json!({"key": "Panic:harness-thread", "what": p})], timing: false, unsched: false, trace: vec![], fetches: 0 });
                    break;
                }
            }
        }
        let r = res.unwrap();
        if !r.pv.is_empty() {
            violating += 1;
        }
        out.write(&json!({"id": row["id"], "obs": r.obs, "conf": r.conf, "mis": r.mis, "pv": r.pv, "timing": r.timing, "unsched": r.unsched, "fetches": r.fetches, "events": r.trace.len()}));
        let spec_nw = row["final"]["w"].as_array().map(|a| a.len()).unwrap_or(2);
        let real_nw = r.trace.iter().filter(|e| e["ev"] == "map_insert").count();
        tr.write(&json!({"ev": "reset", "nw": spec_nw.max(real_nw), "callers": row["callers"], "id": row["id"]}));
        for e in r.trace {
            tr.write(&e);
        }
    }
    out.finish();
    tr.finish();
}

// -------------------------------------------------------------------------------------- record

fn cmd_record(evp: &str, resp: &str) {
    install_sink();
    let seed0 = vh_core::seed_from_env();
    let runs: u64 = std::env::var("VERIF_RUNS").ok().and_then(|s| s.parse().ok()).unwrap_or(500);
    let shard: u64 = std::env::var("VERIF_SHARD").ok().and_then(|s| s.parse().ok()).unwrap_or(0);
    let mut tr = NdjsonWriter::create(evp);
    tr.write(&json!({"ev": "meta", "spec": "PathSync", "mode": "record", "seed": seed0, "shard": shard}));
    let mut pv: Vec<Value> = vec![];
    let mut stats: BTreeMap<String, u64> = BTreeMap::new();
    let mut total_events = 0u64;
    let mut nontrivial = 0u64;
    let mut done_runs = 0u64;
    for run in 0..runs {
        if pv.len() >= 12 {
            break;
        }
        done_runs += 1;
        let seed = match std::env::var("VERIF_ONE_SEED").ok().and_then(|s| s.parse::<u64>().ok()) {
            Some(s) => s, // re-run of one recorded scenario (bin/check C20 --replay)
            None => seed0.wrapping_mul(0x9E37).wrapping_add(shard * 1_000_003 + run),
        };
        let r = vh_core::catch(|| record_one(seed));
        match r {
            Ok((meta, trace, mut v, st)) => {
                total_events += trace.len() as u64;
                tr.write(&meta);
                for e in trace {
                    tr.write(&e);
                }
                for x in v.iter_mut() {
                    x["run"] = json!(run);
                    x["seed"] = json!(seed);
                }
                pv.extend(v);
                if st.get("woken").copied().unwrap_or(0) > 0 || st.get("stops").copied().unwrap_or(0) > 0 {
                    nontrivial += 1;
                }
                for (k, n) in st {
                    *stats.entry(k).or_default() += n;
                }
            }
            Err(p) => pv.push(json!({"key": "Panic:harness-thread", "what": p, "run": run, "seed": seed})),
        }
    }
    tr.finish();
    std::fs::write(
        resp,
        serde_json::to_string(&json!({"runs": done_runs, "planned_runs": runs, "events": total_events, "pv": pv, "stats": stats, "nontrivial_runs": nontrivial})).unwrap(),
    )
    .expect("write results");
}

type RecOut = (Value, Vec<Value>, Vec<Value>, BTreeMap<String, u64>);

fn record_one(seed: u64) -> RecOut {
    reset_all();
    let mut rng = Rng::new(seed);
    let ncallers = rng.range(2, 8) as usize;
    let nk = if rng.chance(1, 3) { 2 } else { 1 };
    let idle_short = rng.chance(1, 3);
    let idle_ms = rng.range(1, 4);
    let threshold = 10u64;
    let cfg = verif_sync::config(
        Duration::from_secs(3600),
        Duration::from_millis(100),
        Duration::from_secs(threshold),
        if idle_short { Duration::from_millis(idle_ms) } else { Duration::from_secs(3600) },
        3600.0,
        3600.0,
        1.0,
    );
    // one run in eight follows a directed scenario: a cached_path caller creates the worker, the
    // manager is dropped before the worker's first poll, handles of that worker are awaited
    // (the only situation in which the notification of the exit path is what releases a waiter)
    let template = rng.below(8); // 0: dropped before the first poll; 1: waiter held across the answer
    let directed = template == 0;
    let slow_start = directed;
    // directed scenario 1 (the lost-wake-up schedule TLC finds on PathSync_Broken): a path_wait caller
    // is held right after its critical section in await_ongoing_update (check + registration) while
    // the pending lookup is answered and the worker finishes; then the caller goes on to await
    let hold = template == 1;
    let hold_state: Arc<(Mutex<(bool, bool, bool)>, std::sync::Condvar)> =
        Arc::new((Mutex::new((hold, false, false)), std::sync::Condvar::new())); // (armed, reached, released)
    // yield points: seeded per (run, thread-local counter)
    let ycount = Arc::new(AtomicU64::new(0));
    {
        let yc = ycount.clone();
        let hold_cb = hold_state.clone();
        verif_sync::set_yield(Some(Arc::new(move |name: &'static str| {
            let n = yc.fetch_add(1, Ordering::Relaxed);
            let mut r = Rng::new(seed ^ (n.wrapping_mul(0x2545_F491_4F6C_DD1D)) ^ (name.len() as u64) << 40);
            if name == "await.registered" {
                let armed = {
                    let (m, cv) = &*hold_cb;
                    let mut g = m.lock().unwrap();
                    let a = g.0;
                    if a {
                        g.0 = false;
                        g.1 = true;
                        cv.notify_all();
                    }
                    a
                };
                if armed {
                    // block_in_place: the worker task this caller spawned sits in the thread's
                    // LIFO slot; hand the run queue to another thread while the caller is held
                    tokio::task::block_in_place(|| {
                        let (m, cv) = &*hold_cb;
                        let mut g = m.lock().unwrap();
                        let t0 = Instant::now();
                        while !g.2 && t0.elapsed() < Duration::from_secs(3) {
                            g = cv.wait_timeout(g, Duration::from_millis(20)).unwrap().0;
                        }
                    });
                    return;
                }
            }
            if name == "worker.start" && slow_start {
                // directed scenario: the manager is dropped before the worker's first poll
                std::thread::sleep(Duration::from_micros(600));
                return;
            }
            // the windows right after a critical section of a waiter are stretched more often
            let hot = name == "await.registered" || name == "handle.after_load" || name == "fetch.before_finish" || name == "lock.await";
            match r.below(if hot { 5 } else { 8 }) {
                0 => std::thread::sleep(Duration::from_micros(r.range(20, 400))),
                1 => std::thread::yield_now(),
                2 => {
                    let t = Instant::now();
                    let d = Duration::from_micros(r.range(1, 40));
                    while t.elapsed() < d {
                        std::hint::spin_loop();
                    }
                }
                _ => {}
            }
        })));
    }
    let rt = tokio::runtime::Builder::new_multi_thread().worker_threads(4).enable_all().build().expect("runtime");
    let plan_seed = rng.next_u64();
    #[allow(non_snake_case)]
    let GATE_FIRST = hold;
    let out = rt.block_on(async move {
        let mut rng = Rng::new(plan_seed);
        let fst = Arc::new(FetchState {
            mode: FetchMode::Random { seed: plan_seed },
            pending: Mutex::new(HashMap::new()),
            calls: AtomicU64::new(0),
            threshold_secs: threshold,
            fast: AtomicBool::new(false),
            gate_first: AtomicBool::new(GATE_FIRST),
        });
        spawn_heartbeat();
        let mut mgr: Option<Mgr> = Some(MultiPathManager::new(cfg, Fetcher(fst.clone()), PathStrategy::default()).expect("config"));
        let mut names: HashMap<tokio::task::Id, String> = HashMap::new();
        let mut callers: Vec<Caller> = vec![];
        let mut meta_callers = serde_json::Map::new();
        let mut stats: BTreeMap<String, u64> = BTreeMap::new();
        let mut dropped_at: Option<Instant> = None;
        let mut nsteps = 0;
        // plan: interleave caller arrivals with stop / drop / pauses
        let mut to_start: Vec<usize> = (0..ncallers).collect();
        rng.shuffle(&mut to_start);
        if directed {
            let i = to_start.pop().unwrap();
            let name = format!("c1_{}", i + 1);
            meta_callers.insert(name.clone(), json!({"kind": "cached", "k": 1}));
            hev("caller_start", &name, 0, 1, "cached");
            let j = spawn_api_caller(mgr.as_ref().unwrap(), &name, "cached", 1);
            names.insert(j.id(), name.clone());
            callers.push(Caller { name, join: Some(j), res: None, started: Some(Instant::now()) });
            *stats.entry("callers_cached".into()).or_default() += 1;
            *stats.entry("directed".into()).or_default() += 1;
            let t0 = Instant::now();
            while verif_sync::handles().is_empty() && t0.elapsed() < Duration::from_millis(200) {
                std::hint::spin_loop();
            }
            hev("drop_begin", "", 0, 0, "");
            mgr = None;
            hev("drop", "", 0, 0, "");
            *stats.entry("drops".into()).or_default() += 1;
        }
        if hold {
            let i = to_start.pop().unwrap();
            let name = format!("w1_{}", i + 1);
            meta_callers.insert(name.clone(), json!({"kind": "wait", "k": 1}));
            hev("caller_start", &name, 0, 1, "wait");
            let j = spawn_api_caller(mgr.as_ref().unwrap(), &name, "wait", 1);
            names.insert(j.id(), name.clone());
            callers.push(Caller { name, join: Some(j), res: None, started: Some(Instant::now()) });
            *stats.entry("callers_wait".into()).or_default() += 1;
            *stats.entry("directed_hold".into()).or_default() += 1;
            // wait until the caller sits right after its critical section
            let t0 = Instant::now();
            while !hold_state.0.lock().unwrap().1 && t0.elapsed() < Duration::from_secs(2) {
                tokio::time::sleep(Duration::from_micros(200)).await;
            }
            // answer the lookup and let the worker finish (clear flags, notify)
            let t0 = Instant::now();
            loop {
                let tx = { fst.pending.lock().unwrap().drain().map(|(_, tx)| tx).next() };
                if let Some(tx) = tx {
                    let _ = tx.send(Outcome::Ok);
                    break;
                }
                if t0.elapsed() > Duration::from_secs(2) {
                    break;
                }
                tokio::time::sleep(Duration::from_micros(200)).await;
            }
            let t0 = Instant::now();
            while !LOG.lock().unwrap().iter().any(|e| e.kind == "fetch_done") && t0.elapsed() < Duration::from_secs(2) {
                tokio::time::sleep(Duration::from_micros(200)).await;
            }
            // now the caller may go on to await its notification
            {
                let (m, cv) = &*hold_state;
                m.lock().unwrap().2 = true;
                cv.notify_all();
            }
        }
        while !to_start.is_empty() || mgr.is_some() {
            nsteps += 1;
            let choice = rng.below(10);
            if !to_start.is_empty() && (choice < 6 || mgr.is_none()) {
                let i = to_start.pop().unwrap();
                let kindr = rng.below(10);
                let k = rng.range(1, nk);
                let hs = verif_sync::handles();
                let as_handle = (kindr >= 8 || mgr.is_none()) && !hs.is_empty();
                let kind = if as_handle { "handle" } else if kindr < 2 { "cached" } else { "wait" };
                // the name determines kind and pair (Trace_PathSync derives Kind/KeyOf from it)
                let name = format!("{}{}_{}", &kind[..1], if as_handle { 1 } else { k }, i + 1);
                if as_handle {
                    let hd = hs[rng.below(hs.len() as u64) as usize].clone();
                    meta_callers.insert(name.clone(), json!({"kind": "handle", "k": 1}));
                    hev("handle_get", &name, hd.id(), 0, "");
                    let j = spawn_handle_caller(hd, &name);
                    names.insert(j.id(), name.clone());
                    callers.push(Caller { name, join: Some(j), res: None, started: Some(Instant::now()) });
                    *stats.entry("callers_handle".into()).or_default() += 1;
                } else if let Some(m) = &mgr {
                    meta_callers.insert(name.clone(), json!({"kind": kind, "k": k}));
                    hev("caller_start", &name, 0, k, kind);
                    let j = spawn_api_caller(m, &name, kind, k);
                    names.insert(j.id(), name.clone());
                    callers.push(Caller { name, join: Some(j), res: None, started: Some(Instant::now()) });
                    *stats.entry(format!("callers_{kind}")).or_default() += 1;
                } else {
                    // manager gone and no handle exists: this caller never starts
                    meta_callers.insert(name.clone(), json!({"kind": kind, "k": k}));
                }
            } else if choice == 8 && callers.iter().any(|c| c.res.is_none() && c.name.starts_with('w')) {
                // a path_timeout that elapses: the pending future of a path_wait caller is dropped
                let idx: Vec<usize> = callers.iter().enumerate().filter(|(_, c)| c.res.is_none() && c.name.starts_with('w')).map(|(i, _)| i).collect();
                let c = &callers[idx[rng.below(idx.len() as u64) as usize]];
                if let Some(j) = &c.join {
                    if !j.is_finished() {
                        hev("caller_cancel", &c.name, 0, 0, "");
                        j.abort();
                        *stats.entry("cancels".into()).or_default() += 1;
                    }
                }
            } else if choice == 6 && mgr.is_some() {
                let k = rng.range(1, nk);
                mgr.as_ref().unwrap().stop_managing_paths(src_ia(), dst_ia(k));
                *stats.entry("stops".into()).or_default() += 1;
            } else if (choice == 7 && nsteps > 1) || (to_start.is_empty() && mgr.is_some()) {
                if mgr.is_some() {
                    hev("drop_begin", "", 0, 0, "");
                    mgr = None;
                    hev("drop", "", 0, 0, "");
                    dropped_at = Some(Instant::now());
                    *stats.entry("drops".into()).or_default() += 1;
                }
            } else {
                match rng.below(4) {
                    0 => tokio::task::yield_now().await,
                    1 => tokio::time::sleep(Duration::from_micros(rng.range(10, 2500))).await,
                    // long enough for two idle checks of an unused worker
                    2 if idle_short => tokio::time::sleep(Duration::from_millis(3 * idle_ms)).await,
                    _ => {}
                }
            }
        }
        let _ = dropped_at;
        // ---- direct liveness monitor: every caller resolves, every worker ends, within 5 s
        let t_end = Deadline::new(8);
        let mut pv: Vec<Value> = vec![];
        loop {
            for c in callers.iter_mut() {
                reap(c).await;
            }
            let log = log_snapshot();
            let spawned = log.iter().filter(|e| e.kind == "map_insert").count();
            let exited = log.iter().filter(|e| e.kind == "worker_exit").count();
            let done = callers.iter().all(|c| c.res.is_some());
            if done && spawned == exited {
                break;
            }
            if t_end.passed() {
                for c in callers.iter() {
                    if c.res.is_none() {
                        pv.push(json!({"key": "NoLostWakeup:caller-never-released", "what": format!("caller {} still pending 8 s after the last lookup completed and the manager was dropped", c.name)}));
                    }
                }
                let ws: Vec<u64> = log.iter().filter(|e| e.kind == "map_insert").map(|e| e.w).collect();
                for w in ws {
                    if !log.iter().any(|e| e.kind == "worker_exit" && e.w == w) {
                        pv.push(json!({"key": "DropStopsAll:worker-alive-after-drop", "what": format!("worker {} did not terminate within 8 s after the manager was dropped", w)}));
                    }
                }
                break;
            }
            tokio::time::sleep(Duration::from_millis(1)).await;
        }
        for c in callers.iter() {
            if let Some(CallRes::Panic(m)) = &c.res {
                pv.push(json!({"key": "Panic:caller", "what": format!("caller {} panicked: {}", c.name, m)}));
            }
        }
        let log = log_snapshot();
        for hd in verif_sync::handles() {
            if !log.iter().any(|e| e.kind == "worker_exit" && e.w == hd.id()) {
                continue;
            }
            match tokio::time::timeout(Duration::from_secs(20), hd.active_path()).await {
                Err(_) => pv.push(json!({"key": "HandleAfterDrop:handle-hangs", "what": format!("handle of worker {} does not answer after drop", hd.id())})),
                Ok(Some(_)) => pv.push(json!({"key": "HandleAfterDrop:handle-yields-path", "what": format!("handle of worker {} yields a path after the manager was dropped and the worker ended", hd.id())})),
                Ok(None) => {}
            }
            if hd.current_error().is_none() {
                pv.push(json!({"key": "HandleAfterDrop:no-error", "what": format!("handle of worker {} reports no error after the manager was dropped and the worker ended", hd.id())}));
            }
        }
        if let Err(m) = single_worker_ok(&log) {
            pv.push(json!({"key": "SingleWorker:second-worker-without-removal", "what": m}));
        }
        let wt = worker_tasks(&log);
        let nw = log.iter().filter(|e| e.kind == "map_insert").count();
        *stats.entry("workers".into()).or_default() += nw as u64;
        *stats.entry("fetches".into()).or_default() += fst.calls.load(Ordering::SeqCst);
        for e in log.iter() {
            if e.kind == "exiting" {
                *stats.entry(format!("exit_{}", e.note.split(',').next().unwrap_or("").replace(' ', "_"))).or_default() += 1;
                if e.note == "cancelled" && !log.iter().any(|d| d.kind == "drop_begin" && d.seq < e.seq) {
                    // the cancel token fired while the manager was held: a removed map entry was reclaimed
                    *stats.entry("exit_cancelled_by_reclaim".into()).or_default() += 1;
                }
            }
            if e.kind == "caller_done" {
                *stats.entry(format!("res_{}", e.note)).or_default() += 1;
            }
            if e.kind == "caller_woken" {
                *stats.entry("woken".into()).or_default() += 1;
            }
        }
        let trace: Vec<Value> = log.iter().map(|e| ev_json(e, &names, &wt)).collect();
        let meta = json!({"ev": "reset", "nw": nw.max(1), "nk": nk, "callers": Value::Object(meta_callers), "seed": seed});
        (meta, trace, pv, stats)
    });
    verif_sync::set_yield(None);
    out
}

fn main() {
    vh_core::quiet_panics();
    let args: Vec<String> = std::env::args().collect();
    match args.get(1).map(|s| s.as_str()) {
        Some("replay") if args.len() >= 4 => cmd_replay(&args[2], &args[3]),
        Some("record") if args.len() >= 4 => cmd_record(&args[2], &args[3]),
        Some("fine") if args.len() >= 4 => cmd_fine(&args[2], &args[3]),
        Some("storm") if args.len() >= 4 => cmd_storm(&args[2], &args[3]),
        _ => {
            eprintln!("usage: pathsync replay|fine <in.ndjson> <out.ndjson> | record|storm <events.ndjson> <results.json>");
            std::process::exit(2);
        }
    }
}
