//! C15 harness for the DNS TXT address records of scion-stack (resolver/txt.rs), reached through
//! the guarded hooks `verif_parse_txt_payload` / `verif_resolve_txt_records`.
//! Engine shared with vh-sciparse/addrtext: lexer, leaf facts, replay, record.
#[path = "../../../vh-sciparse/src/addrtext/engine.rs"]
mod engine;

use std::net::{IpAddr, Ipv4Addr, Ipv6Addr};
use std::str::FromStr;

use engine::{HostV, Out, Target, Val};
use scion_stack::resolver::txt::{verif_parse_txt_payload, verif_resolve_txt_records};
use sciparse::address::ip_addr::ScionIpAddr;
use sciparse::identifier::isd_asn::IsdAsn;
use vh_core::Rng;

fn addr_val(a: &ScionIpAddr) -> Val {
    let ia = a.isd_asn();
    Val {
        isd: Some((ia.0 >> 48) as u16),
        asn: Some(ia.0 & 0xffff_ffff_ffff),
        host: Some(match a.ip() {
            IpAddr::V4(x) => HostV::V4(x.to_bits()),
            IpAddr::V6(x) => HostV::V6(x.to_bits()),
        }),
        port: None,
        list: vec![],
    }
}
fn list_val(l: &[ScionIpAddr]) -> Val {
    Val { list: l.iter().map(addr_val).collect(), ..Val::default() }
}

struct Txt;

impl Target for Txt {
    fn types(&self) -> Vec<&'static str> {
        vec!["TxtRecord", "TxtPayload"]
    }
    fn parse(&self, ty: &str, s: &str) -> Vec<(&'static str, Out)> {
        let owned = s.to_string();
        let r = match ty {
            "TxtPayload" => vh_core::catch(|| verif_parse_txt_payload(&owned).ok()),
            "TxtRecord" => vh_core::catch(|| verif_resolve_txt_records("example.com", vec![owned.clone()]).ok()),
            _ => return vec![],
        };
        vec![(
            "parse",
            match r {
                Ok(Some(l)) => Out::Acc(list_val(&l)),
                Ok(None) => Out::Rej,
                Err(m) => Out::Panic(m),
            },
        )]
    }
    /// TXT records have no printer in the code; the displayed form is the documented TSAR grammar
    /// `scion=v1;[ia,host],[ia,host]...` built from the Display of IsdAsn and IpAddr.
    fn shown(&self, ty: &str, rng: &mut Rng, n: usize) -> Vec<(String, String, Val)> {
        let ias = [
            IsdAsn(0x0013_ff00_0000_0110),
            IsdAsn(0),
            IsdAsn(u64::MAX),
            IsdAsn(0x0001_0000_0000_0005),
            IsdAsn(0x0001_0000_ffff_ffff),
            IsdAsn(0x0001_0001_0000_0000),
            IsdAsn(rng.next_u64()),
            IsdAsn(rng.next_u64() & 0xffff_0000_ffff_ffff),
        ];
        let hosts = [
            IpAddr::V4(Ipv4Addr::new(192, 0, 2, 1)),
            IpAddr::V6(Ipv6Addr::from_str("2001:db8::1").unwrap()),
            IpAddr::V4(Ipv4Addr::from_bits(0)),
            IpAddr::V6(Ipv6Addr::from_bits(0)),
            IpAddr::V6(Ipv6Addr::from_bits(u128::MAX)),
            IpAddr::V4(Ipv4Addr::from_bits(u32::MAX)),
            IpAddr::V6(Ipv6Addr::from_str("::ffff:1.2.3.4").unwrap()),
            IpAddr::V6(Ipv6Addr::from_bits(((rng.next_u64() as u128) << 64) | rng.next_u64() as u128)),
            IpAddr::V4(Ipv4Addr::from_bits(rng.next_u64() as u32)),
        ];
        let mut out = Vec::new();
        let total = 10 + n;
        for k in 0..total {
            let len = 1 + (k % 3);
            let l: Vec<ScionIpAddr> = (0..len).map(|e| ScionIpAddr::new(ias[(k * 3 + e) % ias.len()], hosts[(k * 2 + e * 5) % hosts.len()])).collect();
            let body = l.iter().map(|a| format!("[{},{}]", a.isd_asn(), a.ip())).collect::<Vec<_>>().join(",");
            let text = if ty == "TxtRecord" { format!("scion=v1;{body}") } else { body };
            out.push((format!("txt-{len}"), text, list_val(&l)));
        }
        out
    }
}

fn main() {
    engine::main_with(&Txt);
}
