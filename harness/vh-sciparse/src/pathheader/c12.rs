//! C12: views and models agree; a failed operation leaves its operand untouched.
//!
//! `check_std` applies every operation that exists both on the zero-copy view and on the owned
//! model of a standard path (and on the wrappers ScionDpPathView / DpPath / ScionPath) to ONE
//! header given as raw bytes, evaluates the P-monitors on the real results and returns the
//! observation in the abstract form the specification uses.
use sciparse::{
    core::{convert::ToModel, encode::WireEncode, view::View},
    dataplane_path::{
        model::DpPath,
        onehop::{model::OneHopPath, view::OneHopPathView},
        standard::{
            model::{HopField, InfoField, Segment, StandardPath},
            types::{HopFieldFlags, HopFieldMac, InfoFieldFlags},
            view::StandardPathView,
        },
        view::{ScionDpPathView, ScionDpPathViewExt, ScionDpPathViewExtMut, ScionDpPathViewRef},
    },
    identifier::isd_asn::IsdAsn,
    packet::view::ScionRawPacketView,
    path::{
        ScionPath,
        metadata::{InterfaceMetadata, PathMetadata, epic::EpicAuths, path_interface::PathInterface},
    },
};
use serde_json::{Value, json};
use vh_core::catch;

use crate::common::*;

fn view(b: &[u8]) -> &StandardPathView {
    StandardPathView::try_from_slice(b).unwrap().0
}

pub struct Obs {
    pub pv: Vec<Value>,
    pub obs: Value,
}

fn input_class(h: &HdrC) -> &'static str {
    let n = if h.sl[0] == 0 {
        0
    } else if h.sl[1] == 0 {
        1
    } else if h.sl[2] == 0 {
        2
    } else {
        3
    };
    if n == 0 {
        "no-first-segment"
    } else if h.ch as usize >= h.total() {
        "curr_hf-out-of-range"
    } else if h.ci as usize >= n {
        "curr_inf-out-of-range"
    } else if !(h.sl[1] != 0 || h.sl[2] == 0) {
        "zero-length-middle-segment"
    } else {
        "pointers-in-range"
    }
}

/// WF in the sense of C12 (independent of the code under test): the header is what the encoder
/// produces for a model it accepts.
pub fn well_formed(h: &HdrC) -> bool {
    let prefix = h.sl[0] > 0 && (h.sl[1] > 0 || h.sl[2] == 0);
    let nseg = h.ninf();
    prefix
        && (h.ch as usize) < h.total()
        && (h.ci as usize) < nseg
        && 4 + 8 * nseg + 12 * h.total() <= 984
        && h.rsv == 0
        && h.inf.iter().all(|i| i.rsv == 0 && i.flags & !3 == 0)
        // reserved flag bits: whether a model keeps them is not part of the property
        && h.hop.iter().all(|x| x.flags & !3 == 0)
}

fn model_json(m: &StandardPath, idh: &dyn Fn(u16) -> i64, idi: &dyn Fn(u16) -> i64) -> Value {
    json!({
        "ci": m.current_info_field, "ch": m.current_hop_field,
        "segs": m.segments.iter().map(|s| json!({
            "inf": idi(s.info_field.segment_id),
            "cd": s.info_field.flags.cons_dir(),
            "hop": s.hop_fields.iter().map(|h| idh(h.cons_ingress)).collect::<Vec<_>>(),
        })).collect::<Vec<_>>()
    })
}

fn time_to_model(r: u32) -> i64 {
    if r == 0 { 0 } else { r as i64 - TS_BASE as i64 }
}

fn opt_if(x: Option<u16>) -> i64 {
    x.map(|v| v as i64).unwrap_or(-1)
}

/// Apply all C12 operations to one standard-path header.
pub fn check_std(h: &HdrC) -> Obs {
    let mut pvs: Vec<Value> = Vec::new();
    let b0 = h.bytes();
    let cls = input_class(h);
    // more than 64 hop fields cannot be addressed by CurrHF: whether such a header counts as
    // well-formed is left to the encoder (it may refuse the model, or accept it and then handle it)
    let mut wf = well_formed(h);
    let mut obs = json!({"wf": wf, "class": cls});

    // ---- the view constructor must accept every such buffer (it is the quantifier's domain)
    let accepted = match StandardPathView::try_from_slice(&b0) {
        Ok((_, rest)) => rest.is_empty(),
        Err(_) => false,
    };
    obs["accepted"] = json!(accepted);
    if !accepted {
        return Obs { pv: pvs, obs };
    }

    // ---- queries (read-only) -------------------------------------------------------------
    macro_rules! q {
        ($name:expr, $e:expr) => {
            match catch(|| $e) {
                Ok(v) => Some(v),
                Err(msg) => {
                    pvs.push(pv(format!("Panic:{}:{}", $name, cls), format!("{} panicked ({}) on header {}", $name, msg, hex(&b0))));
                    None
                }
            }
        };
    }
    let v0 = view(&b0);
    let vexp = q!("StandardPathView.expiration", v0.expiration());
    let vsegs = q!("StandardPathView.segments", {
        v0.segments()
            .map(|(i, hs)| (i.as_slice().to_vec(), hs.iter().map(|x| x.as_slice().to_vec()).collect::<Vec<_>>()))
            .collect::<Vec<_>>()
    });
    let dref = ScionDpPathViewRef::Standard(v0);
    let fe = q!("first_egress_interface", dref.first_egress_interface());
    let li = q!("last_ingress_interface", dref.last_ingress_interface());
    let ce = q!("current_egress_interface", dref.current_egress_interface());
    let cin = q!("current_ingress_interface", dref.current_ingress_interface());
    let dexp = q!("ScionDpPathView.expiration", dref.expiration());
    let _ = q!("Display", format!("{} {:?}", v0, v0));
    let m0 = q!("StandardPathView.to_model", v0.to_model());
    if let Some(x) = vexp {
        obs["vexp"] = json!(time_to_model(x));
    }
    if let (Some(a), Some(b)) = (vexp, dexp) {
        if b != Some(a) {
            pvs.push(pv("Disagree:expiration:dp-view", format!("ScionDpPathView::expiration {:?} != StandardPathView::expiration {}", b, a)));
        }
    }
    obs["nseg"] = json!(vsegs.as_ref().map(|s| s.len() as i64).unwrap_or(-1));
    obs["fe"] = json!(fe.map(opt_if));
    obs["li"] = json!(li.map(opt_if));
    obs["ce"] = json!(ce.map(opt_if));
    obs["cin"] = json!(cin.map(opt_if));

    // ---- view reversal ---------------------------------------------------------------------
    let mut b1 = b0.clone();
    let rv = catch(|| {
        let (v, _) = StandardPathView::try_from_mut_slice(&mut b1).unwrap();
        v.try_reverse().is_ok()
    });
    let rv_ok = match &rv {
        Ok(ok) => Some(*ok),
        Err(msg) => {
            pvs.push(pv(format!("Panic:StandardPathView.try_reverse:{cls}"), format!("try_reverse panicked ({msg}) on header {}", hex(&b0))));
            None
        }
    };
    if rv_ok == Some(false) && b1 != b0 {
        pvs.push(pv(
            format!("ErrNotAtomic:StandardPathView.try_reverse:{cls}"),
            format!(
                "StandardPathView::try_reverse returned Err but changed the bytes: seg lens {:?} ci {} ch {}: before {} after {}",
                h.sl, h.ci, h.ch, hex(&b0[..4]), hex(&b1[..4])
            ),
        ));
    }
    let after_v = HdrC::parse(&b1);
    obs["rev"] = json!({"ok": rv_ok, "after": after_v.as_ref().map(small_project)});

    // ---- model ------------------------------------------------------------------------------
    let Some(m0) = m0 else { return Obs { pv: pvs, obs } };
    let idh = |cin: u16| cin as i64 - 100;
    let idi = |sid: u16| (sid >> 12) as i64;
    obs["model"] = model_json(&m0, &idh, &idi);
    let mvalid = m0.wire_valid().is_ok();
    obs["mvalid"] = json!(mvalid);
    if h.total() > 64 && !mvalid {
        wf = false;
        obs["wf"] = json!(false);
    }
    let enc0 = catch(|| m0.try_encode_to_vec().ok());
    let mexp = q!("StandardPath.expiration", m0.expiration());
    if let Some(x) = mexp {
        obs["mexp"] = json!(time_to_model(x));
    }
    let mut m1 = m0.clone();
    let rm = catch(|| m1.try_reverse().is_ok());
    let rm_ok = match &rm {
        Ok(ok) => Some(*ok),
        Err(msg) => {
            pvs.push(pv(format!("Panic:StandardPath.try_reverse:{cls}"), format!("model try_reverse panicked ({msg}) on header {}", hex(&b0))));
            None
        }
    };
    if rm_ok == Some(false) && m1 != m0 {
        pvs.push(pv(format!("ErrNotAtomic:StandardPath.try_reverse:{cls}"), format!("StandardPath::try_reverse returned Err but changed the model (header {})", hex(&b0))));
    }
    obs["mrev"] = json!({"ok": rm_ok, "after": model_json(&m1, &idh, &idi)});

    // ---- agreement on well-formed headers ----------------------------------------------------
    if wf {
        match &enc0 {
            Ok(Some(e)) if *e == b0 => {}
            Ok(Some(e)) => pvs.push(pv("Disagree:conversion:encode(from_view(b))!=b", format!("header {} re-encodes as {}", hex(&b0), hex(e)))),
            Ok(None) => pvs.push(pv("Disagree:conversion:encoder-refuses-model-of-wellformed-header", format!("header {}", hex(&b0)))),
            Err(msg) => pvs.push(pv("Panic:StandardPath.try_encode", format!("{msg} on header {}", hex(&b0)))),
        }
        if let (Some(a), Some(b)) = (vexp, mexp) {
            if a != b {
                pvs.push(pv("Disagree:expiration", format!("view {} model {} on header {}", a, b, hex(&b0))));
            }
        }
        // counting queries offered on both sides
        let vq = catch(|| (v0.hop_field_count() as usize, v0.info_field_count() as usize, [v0.seg0_len(), v0.seg1_len(), v0.seg2_len()]));
        let mq = catch(|| (m0.hop_field_count(), m0.info_field_count(), m0.segment_sizes(), m0.segment_lengths()));
        match (vq, mq) {
            (Ok(a), Ok(b)) => {
                if a.0 != b.0 || a.1 != b.1 || a.2 != b.2 || (b.3.0, b.3.1, b.3.2) != (a.2[0], a.2[1], a.2[2]) {
                    pvs.push(pv("Disagree:counts", format!("view (hops, infos, lens) {:?} model {:?} on header {}", a, b, hex(&b0[..4]))));
                }
            }
            (Err(m), _) | (_, Err(m)) => pvs.push(pv(format!("Panic:count-queries:{cls}"), m)),
        }
        if let Some(vs) = &vsegs {
            let ms: Vec<(Vec<u8>, Vec<Vec<u8>>)> = m0
                .segments
                .iter()
                .map(|s| (s.info_field.try_encode_to_vec().unwrap_or_default(), s.hop_fields.iter().map(|x| x.try_encode_to_vec().unwrap_or_default()).collect()))
                .collect();
            if *vs != ms {
                pvs.push(pv("Disagree:segments", format!("view iterates {} segments, model has {} (header {})", vs.len(), ms.len(), hex(&b0))));
            }
        }
        if let (Some(a), Some(b)) = (rv_ok, rm_ok) {
            if a != b {
                pvs.push(pv("Disagree:try_reverse:result", format!("view Ok={a} model Ok={b} on header {}", hex(&b0))));
            } else if a {
                // bytes of the view after the call == encode(model after the call)
                match catch(|| m1.try_encode_to_vec().ok()) {
                    Ok(Some(e)) if e == b1 => {}
                    Ok(Some(e)) => pvs.push(pv("Disagree:try_reverse:bytes", format!("view after {} != encode(model after) {} (before {})", hex(&b1), hex(&e), hex(&b0)))),
                    Ok(None) => pvs.push(pv("Disagree:try_reverse:reversed-model-not-encodable", format!("before {}", hex(&b0)))),
                    Err(msg) => pvs.push(pv("Panic:StandardPath.try_encode", msg)),
                }
                let back = catch(|| view(&b1).to_model());
                if let Ok(mb) = &back {
                    if *mb != m1 {
                        pvs.push(pv(
                            "Disagree:try_reverse:model",
                            format!(
                                "from_view(view after) has ci {} ch {}, model after has ci {} ch {} (before {})",
                                mb.current_info_field, mb.current_hop_field, m1.current_info_field, m1.current_hop_field, hex(&b0[..4])
                            ),
                        ));
                    }
                }
                // involution
                let mut b2 = b1.clone();
                let r2 = catch(|| StandardPathView::try_from_mut_slice(&mut b2).unwrap().0.try_reverse().is_ok());
                if r2 != Ok(true) || b2 != b0 {
                    pvs.push(pv("NotInvolution:StandardPathView.try_reverse", format!("reverse twice: {:?}, {} -> {} -> {}", r2, hex(&b0[..4]), hex(&b1[..4]), hex(&b2[..4]))));
                }
                let mut m2 = m1.clone();
                let r2m = catch(|| m2.try_reverse().is_ok());
                if r2m != Ok(true) || m2 != m0 {
                    pvs.push(pv("NotInvolution:StandardPath.try_reverse", format!("model reversed twice differs from the original (header {})", hex(&b0))));
                }
                // logical position: the same hop field / info field (cons-dir toggled) is current
                if let Some(a) = &after_v {
                    let hop_same = (a.ch as usize) < a.hop.len() && a.hop[a.ch as usize] == h.hop[h.ch as usize];
                    let inf_same = (a.ci as usize) < a.inf.len() && {
                        let mut x = a.inf[a.ci as usize].clone();
                        x.flags ^= FLAG_CONS_DIR;
                        x == h.inf[h.ci as usize]
                    };
                    if !hop_same || !inf_same {
                        pvs.push(pv(
                            if hop_same { "PositionLost:StandardPathView.try_reverse:curr_inf" } else { "PositionLost:StandardPathView.try_reverse:curr_hf" },
                            format!("seg lens {:?}: (ci {}, ch {}) became (ci {}, ch {}), which is not the same hop/info field", h.sl, h.ci, h.ch, a.ci, a.ch),
                        ));
                    }
                }
                let tot = m0.hop_field_count();
                if m1.current_hop_field as usize != tot - 1 - m0.current_hop_field as usize
                    || m1.current_info_field as usize != m0.segments.len() - 1 - m0.current_info_field as usize
                {
                    pvs.push(pv("PositionLost:StandardPath.try_reverse", format!("model position ({}, {}) -> ({}, {})", m0.current_info_field, m0.current_hop_field, m1.current_info_field, m1.current_hop_field)));
                }
            }
        }
        if rv_ok == Some(false) {
            pvs.push(pv("Disagree:try_reverse:wellformed-refused", format!("view refuses to reverse well-formed header {}", hex(&b0))));
        }
    }

    // ---- wrappers: ScionDpPathView / DpPath / ScionPath ----------------------------------------
    wrappers(&b0, &b1, rv_ok, &m0, &m1, rm_ok, wf, cls, &mut pvs);
    Obs { pv: pvs, obs }
}

/// A raw SCION packet (IPv4 host addresses, 8 payload bytes) around the given path bytes.
pub fn packet_with_path(path: &[u8], path_type: u8) -> Vec<u8> {
    let hdr_len = 12 + 24 + path.len();
    let mut b = Vec::with_capacity(hdr_len + 8);
    b.extend_from_slice(&[0x00, 0x00, 0x00, 0x01]); // version 0, qos 0, flow id 1
    b.push(253); // next header: experimental
    b.push((hdr_len / 4) as u8);
    b.extend_from_slice(&8u16.to_be_bytes());
    b.push(path_type);
    b.push(0x00); // DT/DL/ST/SL: IPv4, 4 bytes
    b.extend_from_slice(&[0, 0]);
    b.extend_from_slice(&0x0001_ff00_0000_0220u64.to_be_bytes());
    b.extend_from_slice(&0x0001_ff00_0000_0110u64.to_be_bytes());
    b.extend_from_slice(&[10, 0, 0, 2]);
    b.extend_from_slice(&[10, 0, 0, 1]);
    b.extend_from_slice(path);
    b.extend_from_slice(&[0xde, 0xad, 0xbe, 0xef, 1, 2, 3, 4]);
    b
}

/// Reverse the path of a packet in place through ScionHeaderView::path_mut().
/// Returns Some(ok) and the packet after, or None if the packet view refused the buffer.
fn packet_reverse(pkt: &[u8]) -> Option<Result<(bool, Vec<u8>), String>> {
    if pkt.len() > 36 + 984 + 8 || ScionRawPacketView::try_from_slice(pkt).is_err() {
        return None;
    }
    let mut p1 = pkt.to_vec();
    Some(catch(|| {
        let (v, _) = ScionRawPacketView::try_from_mut_slice(&mut p1).unwrap();
        v.header_mut().path_mut().try_reverse().is_ok()
    })
    .map(|ok| (ok, p1)))
}

fn packet_monitors(path0: &[u8], path1: &[u8], rv_ok: Option<bool>, path_type: u8, cls: &str, pvs: &mut Vec<Value>) {
    let pkt0 = packet_with_path(path0, path_type);
    match packet_reverse(&pkt0) {
        None => {}
        Some(Err(msg)) => pvs.push(pv(format!("Panic:packet.path_mut.try_reverse:{cls}"), format!("{msg} on packet with path {}", hex(&path0[..4.min(path0.len())])))),
        Some(Ok((ok, p1))) => {
            if !ok && p1 != pkt0 {
                pvs.push(pv(format!("ErrNotAtomic:packet.path_mut.try_reverse:{cls}"), format!("reversing the path inside a packet returned Err but the packet changed (path meta {} -> {})", hex(&pkt0[36..40]), hex(&p1[36..40]))));
            }
            if ok {
                let outside_same = p1[..36] == pkt0[..36] && p1[36 + path0.len()..] == pkt0[36 + path0.len()..];
                if !outside_same {
                    pvs.push(pv("Disagree:packet.path_mut.try_reverse:outside-bytes", "reversing the path changed packet bytes outside the path"));
                }
                if rv_ok == Some(true) && p1[36..36 + path0.len()] != *path1 {
                    pvs.push(pv("Disagree:packet.path_mut.try_reverse:path", "path reversed inside a packet differs from the stand-alone reversal"));
                }
            }
            if Some(ok) != rv_ok && rv_ok.is_some() {
                pvs.push(pv("Disagree:packet.path_mut.try_reverse:result", "Ok/Err differs between in-packet and stand-alone reversal"));
            }
        }
    }
}

fn ia(x: u64) -> IsdAsn {
    IsdAsn(x)
}

#[allow(clippy::too_many_arguments)]
fn wrappers(b0: &[u8], b1: &[u8], rv_ok: Option<bool>, m0: &StandardPath, m1: &StandardPath, rm_ok: Option<bool>, wf: bool, cls: &str, pvs: &mut Vec<Value>) {
    let boxed = |b: &[u8]| StandardPathView::try_from_slice(b).unwrap().0.to_boxed();
    // the same path inside a packet (ScionHeaderView::path_mut)
    packet_monitors(b0, b1, rv_ok, 1, cls, pvs);
    // ScionDpPathView::try_reverse / try_into_reversed
    let dv0 = ScionDpPathView::Standard(boxed(b0));
    let mut dv1 = dv0.clone();
    match catch(|| dv1.try_reverse().is_ok()) {
        Ok(ok) => {
            if !ok && dv1 != dv0 {
                pvs.push(pv(format!("ErrNotAtomic:ScionDpPathView.try_reverse:{cls}"), format!("Err but bytes changed: {} -> {}", hex(&b0[..4]), hex(&dv1.as_slice()[..4]))));
            }
            if Some(ok) != rv_ok || (ok && dv1.as_slice() != b1) {
                pvs.push(pv("Disagree:ScionDpPathView.try_reverse", "wrapper and StandardPathView::try_reverse differ"));
            }
        }
        Err(msg) => pvs.push(pv(format!("Panic:ScionDpPathView.try_reverse:{cls}"), msg)),
    }
    match catch(|| dv0.clone().try_into_reversed()) {
        Ok(Ok(r)) => {
            if r.as_slice() != b1 {
                pvs.push(pv("Disagree:ScionDpPathView.try_into_reversed", "differs from in-place reversal"));
            }
        }
        Ok(Err((orig, _))) => {
            if orig != dv0 {
                pvs.push(pv(format!("ErrNotAtomic:ScionDpPathView.try_into_reversed:{cls}"), format!("the operand handed back with the error differs from the original: {} -> {}", hex(&b0[..4]), hex(&orig.as_slice()[..4]))));
            }
        }
        Err(msg) => pvs.push(pv(format!("Panic:ScionDpPathView.try_into_reversed:{cls}"), msg)),
    }
    // DpPath
    let dm0 = DpPath::Standard(m0.clone());
    let mut dm1 = dm0.clone();
    match catch(|| dm1.try_reverse().is_ok()) {
        Ok(ok) => {
            if !ok && dm1 != dm0 {
                pvs.push(pv(format!("ErrNotAtomic:DpPath.try_reverse:{cls}"), "Err but model changed"));
            }
            if Some(ok) != rm_ok || (ok && dm1 != DpPath::Standard(m1.clone())) {
                pvs.push(pv("Disagree:DpPath.try_reverse", "wrapper and StandardPath::try_reverse differ"));
            }
        }
        Err(msg) => pvs.push(pv(format!("Panic:DpPath.try_reverse:{cls}"), msg)),
    }
    if let Ok(Err((orig, _))) = catch(|| dm0.clone().try_into_reversed()) {
        if orig != dm0 {
            pvs.push(pv(format!("ErrNotAtomic:DpPath.try_into_reversed:{cls}"), "operand handed back with the error differs"));
        }
    }
    // conversions between the wrappers
    match catch(|| DpPath::from_view(&dv0.as_ref())) {
        Ok(d) => {
            if d != dm0 {
                pvs.push(pv("Disagree:conversion:DpPath.from_view", "DpPath::from_view != DpPath::Standard(to_model)"));
            }
            if wf {
                match catch(|| d.try_encode_to_owned_view()) {
                    Ok(Ok(v)) => {
                        if v != dv0 {
                            pvs.push(pv("Disagree:conversion:DpPath.try_encode_to_owned_view", format!("{} -> {}", hex(b0), hex(v.as_slice()))));
                        }
                    }
                    Ok(Err(_)) => pvs.push(pv("Disagree:conversion:encoder-refuses-model-of-wellformed-header", hex(b0))),
                    Err(msg) => pvs.push(pv("Panic:DpPath.try_encode_to_owned_view", msg)),
                }
            }
        }
        Err(msg) => pvs.push(pv(format!("Panic:DpPath.from_view:{cls}"), msg)),
    }
    // ScionPath: endpoints, metadata, fingerprints
    let src = ia(0x0001_ff00_0000_0110);
    let dst = ia(0x0002_ff00_0000_0220);
    let ifs: Vec<PathInterface> = (0..4u16).map(|i| PathInterface { isd_asn: ia(0x0001_ff00_0000_0100 + i as u64), id: 10 + i }).collect();
    let mut meta = PathMetadata::new_minimal(1_900_000_000, 1400, ifs);
    meta.notes = Some(vec!["a".into(), "b".into(), "c".into()]);
    let mk = |dp: ScionDpPathView, s: IsdAsn, d: IsdAsn, m: Option<PathMetadata>, nh| ScionPath::new(s, d, dp, m, nh);
    let nh: Option<std::net::SocketAddr> = Some("10.0.0.1:30041".parse().unwrap());
    let sp0 = match catch(|| mk(dv0.clone(), src, dst, Some(meta.clone()), nh)) {
        Ok(p) => p,
        Err(msg) => {
            pvs.push(pv(format!("Panic:ScionPath.new:{cls}"), msg));
            return;
        }
    };
    let mut sp1 = sp0.clone();
    match catch(|| sp1.try_reverse().is_ok()) {
        Ok(false) => {
            if sp1 != sp0 {
                pvs.push(pv(format!("ErrNotAtomic:ScionPath.try_reverse:{cls}"), format!("Err but the path changed (dp bytes {} -> {})", hex(&b0[..4]), hex(&sp1.dp_path().as_slice()[..4]))));
            }
            if rv_ok == Some(true) {
                pvs.push(pv("Disagree:ScionPath.try_reverse", "ScionPath refuses what the view reverses"));
            }
        }
        Ok(true) => {
            if rv_ok != Some(true) || sp1.dp_path().as_slice() != b1 {
                pvs.push(pv("Disagree:ScionPath.try_reverse", "data-plane part differs from StandardPathView::try_reverse"));
            }
            let mut rmeta = meta.clone();
            rmeta.reverse();
            let fresh = mk(ScionDpPathView::Standard(boxed(b1)), dst, src, Some(rmeta), None);
            // (the next hop is not part of the property: compared with it cleared on both sides)
            let mut sp1n = sp1.clone();
            sp1n.set_next_hop(None);
            if wf && sp1n != fresh {
                pvs.push(pv(
                    "Disagree:ScionPath.try_reverse:vs-fresh",
                    format!(
                        "reversed ScionPath differs from one built from the reversed parts (src/dst {} fingerprint {} cp_fingerprint {} metadata {} expiration {})",
                        sp1.src_ia() == fresh.src_ia() && sp1.dst_ia() == fresh.dst_ia(),
                        sp1.fingerprint() == fresh.fingerprint(),
                        sp1.cp_fingerprint() == fresh.cp_fingerprint(),
                        sp1.metadata() == fresh.metadata(),
                        sp1.expiration() == fresh.expiration()
                    ),
                ));
            }
            if wf {
                let mut sp2 = sp1.clone();
                let r = catch(|| sp2.try_reverse().is_ok());
                let mut want = sp0.clone();
                want.set_next_hop(None);
                sp2.set_next_hop(None);
                if r != Ok(true) || sp2 != want {
                    pvs.push(pv("NotInvolution:ScionPath.try_reverse", "reversing twice does not give back the path (next hop aside)"));
                }
                if sp1.first_egress_interface().map(|i| i.id) != sp0.last_ingress_interface().map(|i| i.id)
                    || sp1.last_ingress_interface().map(|i| i.id) != sp0.first_egress_interface().map(|i| i.id)
                {
                    pvs.push(pv("Disagree:ScionPath.try_reverse:endpoints", "first egress / last ingress interfaces are not exchanged by reversal"));
                }
            }
        }
        Err(msg) => pvs.push(pv(format!("Panic:ScionPath.try_reverse:{cls}"), msg)),
    }
    if let Ok(Err((orig, _))) = catch(|| sp0.clone().try_into_reversed()) {
        if orig != sp0 {
            pvs.push(pv(format!("ErrNotAtomic:ScionPath.try_into_reversed:{cls}"), "operand handed back with the error differs"));
        }
    }
}

// ------------------------------------------------------------------------------------------------
// one-hop paths
// ------------------------------------------------------------------------------------------------
pub fn onehop_bytes(cd: bool, peer: bool, segid: u16, ts: u32, h1: &HopC, h2: &HopC) -> Vec<u8> {
    let mut b = Vec::new();
    b.push((cd as u8) | ((peer as u8) << 1));
    b.push(0);
    b.extend_from_slice(&segid.to_be_bytes());
    b.extend_from_slice(&ts.to_be_bytes());
    for h in [h1, h2] {
        b.push(h.flags);
        b.push(h.exp);
        b.extend_from_slice(&h.cin.to_be_bytes());
        b.extend_from_slice(&h.ceg.to_be_bytes());
        b.extend_from_slice(&h.mac);
    }
    b
}

/// Apply the C12 operations to one one-hop path (32 bytes).
pub fn check_onehop(b0: &[u8]) -> Obs {
    let mut pvs = Vec::new();
    let second_set = u16::from_be_bytes([b0[22], b0[23]]) != 0;
    let cls = if second_set { "second-hop-set" } else { "second-hop-unset" };
    let mut obs = json!({"class": cls});
    let Ok((v0, rest)) = OneHopPathView::try_from_slice(b0) else {
        obs["accepted"] = json!(false);
        return Obs { pv: pvs, obs };
    };
    obs["accepted"] = json!(rest.is_empty());
    let vexp = match catch(|| v0.expiration()) {
        Ok(x) => Some(x),
        Err(msg) => {
            pvs.push(pv("Panic:OneHopPathView.expiration", format!("{msg} on one-hop path {}", hex(b0))));
            None
        }
    };
    obs["exp"] = match vexp {
        Some(x) => json!({"ok": true, "v": time_to_model(x)}),
        None => json!({"ok": false, "v": 0}),
    };
    let m0: OneHopPath = v0.to_model();
    match m0.try_encode_to_vec() {
        Ok(e) if e == b0 => {}
        Ok(e) => {
            // reserved bits are not preserved by the model; only report if the non-reserved part differs
            if e[0] != b0[0] || e[2..] != b0[2..] {
                pvs.push(pv("Disagree:conversion:onehop", format!("{} re-encodes as {}", hex(b0), hex(&e))));
            }
        }
        Err(_) => pvs.push(pv("Disagree:conversion:onehop-encoder-refuses", hex(b0))),
    }
    // in-place reversal: view vs model
    let mut b1 = b0.to_vec();
    let rv = catch(|| OneHopPathView::try_from_mut_slice(&mut b1).unwrap().0.try_reverse().is_ok());
    let mut m1 = m0.clone();
    let rm = catch(|| m1.try_reverse().is_ok());
    match (&rv, &rm) {
        (Ok(a), Ok(b)) => {
            if !*a && b1 != b0 {
                pvs.push(pv(format!("ErrNotAtomic:OneHopPathView.try_reverse:{cls}"), format!("{} -> {}", hex(b0), hex(&b1))));
            }
            if !*b && m1 != m0 {
                pvs.push(pv(format!("ErrNotAtomic:OneHopPath.try_reverse:{cls}"), "model changed"));
            }
            if a != b {
                pvs.push(pv("Disagree:onehop.try_reverse:result", format!("view Ok={a} model Ok={b}")));
            } else if *a {
                if m1.try_encode_to_vec().ok().as_deref() != Some(&b1[..]) {
                    pvs.push(pv("Disagree:onehop.try_reverse:bytes", format!("view {} model {:?}", hex(&b1), m1.try_encode_to_vec().ok().map(|x| hex(&x)))));
                }
            }
        }
        (Err(m), _) | (_, Err(m)) => pvs.push(pv(format!("Panic:onehop.try_reverse:{cls}"), m.clone())),
    }
    obs["rev"] = json!({"ok": rv.clone().ok(), "cd": b1[0] & 1 != 0, "first": u16::from_be_bytes([b1[12], b1[13]]) as i64 - 200});
    // set_second_hop: offered on the view and on the model
    let key2 = [0x22u8; 16];
    for adv in [false, true] {
        let mut bv = b0.to_vec();
        let r1 = catch(|| OneHopPathView::try_from_mut_slice(&mut bv).unwrap().0.set_second_hop(7, key2, adv));
        let mut mm = m0.clone();
        let r2 = catch(|| mm.set_second_hop(7, key2, adv));
        if let (Err(m), _) | (_, Err(m)) = (&r1, &r2) {
            pvs.push(pv("Panic:onehop.set_second_hop", format!("{m} on {}", hex(b0))));
            continue;
        }
        let enc = mm.try_encode_to_vec().unwrap_or_default();
        if enc.len() == bv.len() && (enc[0] != bv[0] || enc[2..] != bv[2..]) {
            let field = if enc[21] != bv[21] { "exp_time" } else if enc[26..32] != bv[26..32] { "mac" } else if enc[20] != bv[20] { "flags" } else { "other" };
            pvs.push(pv(
                format!("Disagree:onehop.set_second_hop:{field}"),
                format!("set_second_hop(7, key, advanced={adv}): view second hop {} model second hop {}", hex(&bv[20..32]), hex(&enc[20..32])),
            ));
        }
        if !adv {
            obs["ssh"] = json!({"exp": bv[21], "in": u16::from_be_bytes([bv[22], bv[23]]), "eg": u16::from_be_bytes([bv[24], bv[25]]), "alerts": bv[20] & 3 != 0});
        }
        // the MAC of the second hop: AES-CMAC under the accumulator after the first hop
        let segid = u16::from_be_bytes([b0[2], b0[3]]);
        let beta = if adv { segid } else { segid ^ u16::from_be_bytes([b0[14], b0[15]]) };
        let ts = u32::from_be_bytes([b0[4], b0[5], b0[6], b0[7]]);
        let want = crate::c11::hop_mac(&key2, beta, ts, bv[21], 7, 0);
        obs[if adv { "ssh_mac_adv" } else { "ssh_mac" }] = json!(bv[26..32] == want);
    }
    // wrappers: the view keeps a one-hop path, the model turns it into a standard path (documented);
    // the answers must agree on Ok/Err and on the info/hop contents
    let dv0 = ScionDpPathView::OneHop(v0.clone());
    let mut dv1 = dv0.clone();
    let rdv = catch(|| dv1.try_reverse().is_ok());
    let dm0 = DpPath::OneHop(m0.clone());
    let mut dm1 = dm0.clone();
    let rdm = catch(|| dm1.try_reverse().is_ok());
    match (&rdv, &rdm) {
        (Ok(a), Ok(b)) => {
            if !*a && dv1 != dv0 {
                pvs.push(pv(format!("ErrNotAtomic:ScionDpPathView.try_reverse:onehop:{cls}"), "bytes changed"));
            }
            if !*b && dm1 != dm0 {
                pvs.push(pv(format!("ErrNotAtomic:DpPath.try_reverse:onehop:{cls}"), "model changed"));
            }
            if a != b {
                pvs.push(pv("Disagree:DpPath.try_reverse:onehop:result", format!("view Ok={a} model Ok={b}")));
            } else if *a {
                // compare contents: info field and the two hop fields in order
                let vb = dv1.as_slice().to_vec();
                let mb = match &dm1 {
                    DpPath::Standard(s) => s.try_encode_to_vec().ok().map(|e| e[4..].to_vec()),
                    DpPath::OneHop(o) => o.try_encode_to_vec().ok(),
                    _ => None,
                };
                if mb.as_deref() != Some(&vb[..]) {
                    pvs.push(pv("Disagree:DpPath.try_reverse:onehop:contents", format!("view {} model {:?}", hex(&vb), mb.map(|x| hex(&x)))));
                }
            }
        }
        (Err(m), _) | (_, Err(m)) => pvs.push(pv(format!("Panic:DpPath.try_reverse:onehop:{cls}"), m.clone())),
    }
    packet_monitors(b0, &b1, rv.clone().ok(), 2, cls, &mut pvs);
    let dref = ScionDpPathViewRef::OneHop(v0);
    let qs = catch(|| (dref.first_egress_interface(), dref.last_ingress_interface(), dref.current_egress_interface(), dref.current_ingress_interface(), dref.expiration()));
    match qs {
        Ok((fe, li, _, _, e)) => {
            obs["fe"] = json!(opt_if(fe));
            obs["li"] = json!(opt_if(li));
            if let Some(x) = vexp {
                if e != Some(x) {
                    pvs.push(pv("Disagree:expiration:dp-view", "one-hop"));
                }
            }
        }
        Err(msg) => pvs.push(pv("Panic:ScionDpPathView.queries:onehop", format!("{msg} on {}", hex(b0)))),
    }
    // ScionPath on a one-hop path
    let src = ia(0x0001_ff00_0000_0110);
    let dst = ia(0x0001_ff00_0000_0111);
    match catch(|| {
        let sp0 = ScionPath::new(src, dst, dv0.clone(), None, None);
        let mut sp1 = sp0.clone();
        let ok = sp1.try_reverse().is_ok();
        (ok, sp0 == sp1)
    }) {
        Ok((ok, same)) => {
            if !ok && !same {
                pvs.push(pv(format!("ErrNotAtomic:ScionPath.try_reverse:onehop:{cls}"), "path changed"));
            }
        }
        Err(msg) => pvs.push(pv("Panic:ScionPath:onehop", format!("{msg} on {}", hex(b0)))),
    }
    Obs { pv: pvs, obs }
}

/// Compare the observation of a standard cell with what the specification printed.
pub fn conformance(cell: &Value, obs: &Value) -> Vec<Value> {
    let mut mis = Vec::new();
    let mut cmp = |name: &str, spec: &Value, real: &Value| {
        if spec != real {
            mis.push(json!({"field": name, "spec": spec, "real": real}));
        }
    };
    cmp("wf", &cell["wf"], &obs["wf"]);
    cmp("rev.ok", &cell["rev"]["ok"], &obs["rev"]["ok"]);
    cmp("rev.after", &cell["rev"]["after"], &obs["rev"]["after"]);
    cmp("model", &cell["model"], &obs["model"]);
    cmp("mvalid", &cell["mvalid"], &obs["mvalid"]);
    cmp("mrev.ok", &cell["mrev"]["ok"], &obs["mrev"]["ok"]);
    cmp("mrev.after", &cell["mrev"]["after"], &obs["mrev"]["after"]);
    cmp("vexp", &cell["vexp"], &obs["vexp"]);
    cmp("mexp", &cell["mexp"], &obs["mexp"]);
    cmp("nseg", &cell["nseg"], &obs["nseg"]);
    for k in ["fe", "li", "ce", "cin"] {
        cmp(k, &cell[k], &obs[k]);
    }
    mis
}

/// Build the concrete header of a TLC cell (small labelling).
pub fn cell_header(cell: &Value) -> HdrC {
    let sl = jarr_u(&cell["sl"]);
    let cd = jarr_b(&cell["cd"]);
    let ts = jarr_u(&cell["ts"]);
    let exp = jarr_u(&cell["exp"]);
    let tot: u64 = sl.iter().sum();
    HdrC {
        ci: cell["ci"].as_u64().unwrap() as u8,
        ch: cell["ch"].as_u64().unwrap() as u8,
        rsv: 0,
        sl: [sl[0] as u8, sl[1] as u8, sl[2] as u8],
        inf: (0..cd.len()).map(|j| small_inf(j as u32 + 1, cd[j], ts[j] as u32, &[])).collect(),
        hop: (0..tot as usize).map(|k| small_hop(k as u32 + 1, exp[k] as u8, false, false)).collect(),
    }
}

/// Build the bytes of a TLC one-hop cell and compare the observation with the expectation.
pub fn onehop_cell(cell: &Value) -> (Vec<u8>, Obs, Vec<Value>) {
    let g = |k: &str| cell[k].as_u64().unwrap_or(0);
    let mut h1 = small_hop(1, g("e1") as u8, false, false);
    h1.cin = g("in1") as u16;
    let fl2 = cell["fl2"].as_bool().unwrap_or(false);
    let mut h2 = small_hop(2, g("e2") as u8, fl2, fl2);
    h2.cin = g("in2") as u16;
    let b = onehop_bytes(cell["cd"].as_bool().unwrap_or(false), false, 0x1000, TS_BASE + g("ts") as u32, &h1, &h2);
    let o = check_onehop(&b);
    let mut mis = Vec::new();
    for (name, spec, real) in [
        ("rev", &cell["rev"], &o.obs["rev"]),
        ("exp", &cell["exp"], &o.obs["exp"]),
        ("ssh", &cell["ssh"], &o.obs["ssh"]),
        ("ssh_mac", &json!(true), &o.obs["ssh_mac"]),
        ("ssh_mac_adv", &json!(true), &o.obs["ssh_mac_adv"]),
        ("fe", &cell["fe"], &o.obs["fe"]),
        ("li", &cell["li"], &o.obs["li"]),
    ] {
        // an expiry the specification marks as overflowing has no expected value
        if name == "exp" && spec["ok"] == false && real["ok"] == false {
            continue;
        }
        if spec != real {
            mis.push(json!({"field": name, "spec": spec, "real": real}));
        }
    }
    (b, o, mis)
}

/// A TLC model cell (MC_PathModel): the owned StandardPath is built directly (it may have
/// segments without hop fields or a current_hop_field that does not fit CurrHF).
pub fn model_cell(cell: &Value) -> (Obs, Vec<Value>) {
    use sciparse::reexport::tinyvec::{ArrayVec, TinyVec};
    let mut pvs = Vec::new();
    let mj = &cell["model"];
    let mut segments: ArrayVec<[Segment; 3]> = ArrayVec::new();
    for sg in mj["segs"].as_array().cloned().unwrap_or_default() {
        let j = sg["inf"].as_u64().unwrap_or(0) as u32;
        let i = small_inf(j, sg["cd"].as_bool().unwrap_or(false), 1000 * j, &[]);
        let mut hops: TinyVec<[HopField; 12]> = TinyVec::new();
        for g in jarr_u(&sg["hop"]) {
            let h = small_hop(g as u32, 10 + g as u8, false, false);
            hops.push(HopField { flags: HopFieldFlags::empty(), expiration_units: h.exp, cons_ingress: h.cin, cons_egress: h.ceg, mac: HopFieldMac(h.mac) });
        }
        segments.push(Segment { info_field: InfoField { flags: InfoFieldFlags::from_bits_retain(i.flags), segment_id: i.segid, timestamp: i.ts }, hop_fields: hops });
    }
    let m0 = StandardPath { current_info_field: mj["ci"].as_u64().unwrap_or(0) as u8, current_hop_field: mj["ch"].as_u64().unwrap_or(0) as u8, segments };
    let idh = |cin: u16| cin as i64 - 100;
    let idi = |sid: u16| (sid >> 12) as i64;
    let mut obs = json!({"class": "model-cell"});
    let mvalid = catch(|| m0.wire_valid().is_ok());
    obs["mvalid"] = json!(mvalid.clone().ok());
    let mut m1 = m0.clone();
    match catch(|| m1.try_reverse().is_ok()) {
        Ok(ok) => {
            if !ok && m1 != m0 {
                pvs.push(pv("ErrNotAtomic:StandardPath.try_reverse:model-cell", format!("Err but the model changed: {}", mj)));
            }
            obs["mrev"] = json!({"ok": ok, "after": model_json(&m1, &idh, &idi)});
        }
        Err(msg) => pvs.push(pv("Panic:StandardPath.try_reverse:model-cell", format!("{msg} on model {}", mj))),
    }
    match catch(|| m0.expiration()) {
        Ok(x) => obs["mexp"] = json!(time_to_model(x)),
        Err(msg) => pvs.push(pv("Panic:StandardPath.expiration:model-cell", format!("{msg} on model {}", mj))),
    }
    let dm0 = DpPath::Standard(m0.clone());
    let mut dm1 = dm0.clone();
    match catch(|| dm1.try_reverse().is_ok()) {
        Ok(ok) => {
            if !ok && dm1 != dm0 {
                pvs.push(pv("ErrNotAtomic:DpPath.try_reverse:model-cell", "Err but the model changed"));
            }
        }
        Err(msg) => pvs.push(pv("Panic:DpPath.try_reverse:model-cell", msg)),
    }
    // an accepted model: its encoding must decode to the same model, and everything that holds
    // for well-formed headers must hold for the encoding
    match catch(|| m0.try_encode_to_vec()) {
        Ok(Ok(enc)) => {
            match StandardPathView::try_from_slice(&enc) {
                Ok((v, rest)) if rest.is_empty() => {
                    if let Ok(back) = catch(|| v.to_model()) {
                        if back != m0 {
                            pvs.push(pv(
                                "Disagree:conversion:from_view(encode(m))!=m",
                                format!("model (ci {}, ch {}, lens {:?}) decodes as (ci {}, ch {}, lens {:?})", m0.current_info_field, m0.current_hop_field, m0.segment_sizes(), back.current_info_field, back.current_hop_field, back.segment_sizes()),
                            ));
                        }
                    }
                    if let Some(h) = HdrC::parse(&enc) {
                        let o = check_std(&h);
                        pvs.extend(o.pv);
                    }
                }
                _ => pvs.push(pv("Disagree:conversion:view-refuses-encoding", format!("the view constructor refuses the encoding of accepted model {}", mj))),
            }
        }
        Ok(Err(_)) => {}
        Err(msg) => pvs.push(pv("Panic:StandardPath.try_encode:model-cell", format!("{msg} on model {}", mj))),
    }
    let mut mis = Vec::new();
    for (name, spec, real) in [("mvalid", &cell["mvalid"], &obs["mvalid"]), ("mrev", &cell["mrev"], &obs["mrev"]), ("mexp", &cell["mexp"], &obs["mexp"])] {
        if spec != real {
            mis.push(json!({"field": name, "spec": spec, "real": real}));
        }
    }
    (Obs { pv: pvs, obs }, mis)
}

// ------------------------------------------------------------------------------------------------
// ScionPath level (MC_ScionPath.tla)
// ------------------------------------------------------------------------------------------------
fn sp_ia(x: u64) -> IsdAsn {
    IsdAsn(0x0001_ff00_0000_0100 + x)
}
fn sp_ia_back(i: IsdAsn) -> i64 {
    i.0 as i64 - 0x0001_ff00_0000_0100
}
fn sp_project(p: &ScionPath) -> Value {
    let m = p.metadata();
    let dp = HdrC::parse_or_meta(p.dp_path().as_slice());
    json!({
        "src": sp_ia_back(p.src_ia()), "dst": sp_ia_back(p.dst_ia()),
        "nh": p.next_hop().is_some(),
        "cpfp": p.cp_fingerprint().is_some(),
        "meta": {
            "present": m.is_some(),
            "hasifs": m.map(|m| m.interfaces.is_some()).unwrap_or(false),
            "ifs": m.and_then(|m| m.interfaces.as_ref()).map(|v| v.iter().map(|i| i.interface.id as i64).collect::<Vec<_>>()).unwrap_or_default(),
            "hasnotes": m.map(|m| m.notes.is_some()).unwrap_or(false),
            "notes": m.and_then(|m| m.notes.as_ref()).map(|v| v.iter().map(|s| s.parse::<i64>().unwrap_or(-1)).collect::<Vec<_>>()).unwrap_or_default(),
            "epic": m.map(|m| m.epic_auth.is_some()).unwrap_or(false),
        },
        "dp": small_project(&dp),
    })
}

/// One cell of MC_ScionPath: build the ScionPath from its parts, reverse it once and twice.
pub fn scionpath_cell(cell: &Value) -> (Obs, Vec<Value>) {
    let b = &cell["before"];
    let mut pvs = Vec::new();
    let dpj = &b["dp"];
    let sl = jarr_u(&dpj["sl"]);
    let cd = jarr_b(&dpj["cd"]);
    let tot: u64 = sl.iter().sum();
    let h = HdrC {
        ci: dpj["ci"].as_u64().unwrap_or(0) as u8,
        ch: dpj["ch"].as_u64().unwrap_or(0) as u8,
        rsv: 0,
        sl: [sl[0] as u8, sl[1] as u8, sl[2] as u8],
        inf: (0..cd.len()).map(|j| small_inf(j as u32 + 1, cd[j], 1000 * (j as u32 + 1), &[])).collect(),
        hop: (0..tot as usize).map(|k| small_hop(k as u32 + 1, 10 + k as u8 + 1, false, false)).collect(),
    };
    let bytes = h.bytes();
    let wf = well_formed(&h);
    let mj = &b["meta"];
    let meta = if mj["present"].as_bool().unwrap_or(false) {
        Some(PathMetadata {
            expiration: 1_900_000_000,
            mtu: 1400,
            interfaces: if mj["hasifs"].as_bool().unwrap_or(false) {
                Some(jarr_u(&mj["ifs"]).iter().map(|i| InterfaceMetadata::new_without_metadata(PathInterface { isd_asn: sp_ia(*i), id: *i as u16 })).collect())
            } else {
                None
            },
            epic_auth: if mj["epic"].as_bool().unwrap_or(false) { Some(EpicAuths::new(vec![1, 2, 3], vec![4, 5, 6])) } else { None },
            notes: if mj["hasnotes"].as_bool().unwrap_or(false) { Some(jarr_u(&mj["notes"]).iter().map(|n| n.to_string()).collect()) } else { None },
        })
    } else {
        None
    };
    let nh: Option<std::net::SocketAddr> = if b["nh"].as_bool().unwrap_or(false) { Some("10.0.0.1:30041".parse().unwrap()) } else { None };
    let Ok((v, _)) = StandardPathView::try_from_slice(&bytes) else {
        return (Obs { pv: pvs, obs: json!({"accepted": false}) }, vec![json!({"field": "constructor", "spec": "accepts", "real": "rejects"})]);
    };
    let mk = |src: IsdAsn, dst: IsdAsn, dp: ScionDpPathView, m: Option<PathMetadata>, nh| ScionPath::new(src, dst, dp, m, nh);
    let sp0 = mk(sp_ia(b["src"].as_u64().unwrap_or(1)), sp_ia(b["dst"].as_u64().unwrap_or(2)), ScionDpPathView::Standard(v.to_boxed()), meta, nh);
    let mut obs = json!({"before": sp_project(&sp0), "wf": wf});
    let mut sp1 = sp0.clone();
    match catch(|| sp1.try_reverse().is_ok()) {
        Err(msg) => pvs.push(pv("Panic:ScionPath.try_reverse:cell", msg)),
        Ok(ok1) => {
            if !ok1 && sp1 != sp0 {
                pvs.push(pv("ErrNotAtomic:ScionPath.try_reverse:cell", format!("Err but the path changed ({})", hex(&bytes[..4]))));
            }
            obs["rev"] = json!({"ok": ok1, "after": sp_project(&sp1), "fp_changed": sp1.fingerprint() != sp0.fingerprint(), "cpfp_changed": sp1.cp_fingerprint() != sp0.cp_fingerprint()});
            if ok1 && wf {
                // the cached values of the reversed path are those of a path built from the reversed parts
                let fresh = mk(sp1.src_ia(), sp1.dst_ia(), sp1.dp_path().clone(), sp1.metadata().cloned(), sp1.next_hop());
                if fresh != sp1 {
                    pvs.push(pv(
                        "Disagree:ScionPath.try_reverse:vs-fresh",
                        format!("reversed ScionPath differs from one built from its own parts (fingerprint {} cp_fingerprint {} expiration {})", fresh.fingerprint() == sp1.fingerprint(), fresh.cp_fingerprint() == sp1.cp_fingerprint(), fresh.expiration() == sp1.expiration()),
                    ));
                }
                // "reversal also swaps ... metadata": the interface and note lists of the reversed path are
                // the original lists in reverse order
                let rev_ifs = |p: &ScionPath| p.metadata().and_then(|m| m.interfaces.as_ref()).map(|v| v.iter().map(|i| i.interface).collect::<Vec<_>>());
                let rev_notes = |p: &ScionPath| p.metadata().and_then(|m| m.notes.clone());
                let want_ifs = rev_ifs(&sp0).map(|mut v| {
                    v.reverse();
                    v
                });
                let want_notes = rev_notes(&sp0).map(|mut v| {
                    v.reverse();
                    v
                });
                if rev_ifs(&sp1) != want_ifs || rev_notes(&sp1) != want_notes {
                    pvs.push(pv("Disagree:ScionPath.try_reverse:metadata-lists-not-reversed", "the interface / note lists of the reversed path are not the original lists in reverse order"));
                }
                if sp1.src_ia() != sp0.dst_ia() || sp1.dst_ia() != sp0.src_ia() {
                    pvs.push(pv("Disagree:ScionPath.try_reverse:endpoints-not-exchanged", "source and destination ISD-AS are not exchanged by reversal"));
                }
            }
            let mut sp2 = sp1.clone();
            match catch(|| sp2.try_reverse().is_ok()) {
                Err(msg) => pvs.push(pv("Panic:ScionPath.try_reverse:cell", msg)),
                Ok(ok2) => {
                    obs["twice"] = json!({"ok": ok2, "fp_same": sp2.fingerprint() == sp0.fingerprint(), "cp_same_dummy": false});
                    obs["twice"] = json!({"ok": ok2, "fp_same": sp2.fingerprint() == sp0.fingerprint(), "cpfp_same": sp2.cp_fingerprint() == sp0.cp_fingerprint()});
                    if wf && ok1 {
                        if !ok2 {
                            pvs.push(pv("NotInvolution:ScionPath.try_reverse", "the reversed path cannot be reversed back"));
                        } else {
                            if sp2.fingerprint() != sp0.fingerprint() || sp2.cp_fingerprint() != sp0.cp_fingerprint() {
                                pvs.push(pv("FingerprintUnstable:ScionPath.try_reverse", "a fingerprint differs after reversing twice"));
                            }
                            // everything except what is documented as lost (next hop, EPIC authenticators)
                            let same = sp2.src_ia() == sp0.src_ia()
                                && sp2.dst_ia() == sp0.dst_ia()
                                && sp2.dp_path() == sp0.dp_path()
                                && sp2.expiration() == sp0.expiration()
                                && sp2.metadata().map(|m| (&m.interfaces, &m.notes, m.mtu, m.expiration)) == sp0.metadata().map(|m| (&m.interfaces, &m.notes, m.mtu, m.expiration));
                            if !same {
                                pvs.push(pv("NotInvolution:ScionPath.try_reverse", "reversing twice does not give back end points / data-plane path / metadata lists"));
                            }
                        }
                    }
                }
            }
        }
    }
    let mut mis = Vec::new();
    for (name, spec, real) in [
        ("before", &cell["before"], &obs["before"]),
        ("wf", &cell["wf"], &obs["wf"]),
        ("rev", &cell["rev"], &obs["rev"]),
        ("twice", &cell["twice"], &obs["twice"]),
    ] {
        if spec != real {
            mis.push(json!({"field": name, "spec": spec, "real": real}));
        }
    }
    (Obs { pv: pvs, obs }, mis)
}
