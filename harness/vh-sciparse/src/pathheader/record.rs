//! impl -> spec: seeded call sequences on large standard paths (segment lengths up to 63, every
//! pointer value, hostile segment tables), recorded as events for Trace_PathHeader.tla, with the
//! P-monitors of C11/C12 evaluated on the real bytes of every call.
use std::collections::BTreeMap;

use sciparse::{core::view::View, dataplane_path::{standard::view::StandardPathView, view::{ScionDpPathViewExt, ScionDpPathViewRef}}};
use serde_json::{Value, json};
use vh_core::{NdjsonWriter, Rng, catch};

use crate::{adv::*, c11, c12, common::*};

fn big_hop(k: usize, rng: &mut Rng) -> HopC {
    let m = rng.bytes(6);
    HopC {
        flags: (rng.below(4) as u8) | if rng.chance(1, 8) { 0x40 } else { 0 },
        exp: *rng.pick(&[0u8, 1, 5, 63, 200, 255]),
        cin: 1000 + k as u16,
        ceg: 2000 + k as u16,
        mac: [m[0], m[1], m[2], m[3], m[4], m[5]],
    }
}
fn hop_id(h: &HopC) -> i64 {
    h.cin as i64 - 1000
}

fn seg_of(sl: &[u8; 3], ch: usize) -> usize {
    let mut a = 0;
    for (j, l) in sl.iter().enumerate() {
        if ch < a + *l as usize {
            return j;
        }
        a += *l as usize;
    }
    3
}

/// shape classes; returns (class name, sl, ci, ch)
fn gen_shape(rng: &mut Rng, force: Option<u64>) -> (&'static str, [u8; 3], u8, u8) {
    let cls = force.unwrap_or_else(|| rng.below(8));
    let nseg = rng.range(1, 3) as usize;
    let mut sl = [0u8; 3];
    match cls {
        0 | 1 => {
            // well-formed, walkable, at most 64 hop fields
            loop {
                for s in sl.iter_mut().take(nseg) {
                    *s = if rng.chance(2, 3) { rng.range(2, 6) } else { rng.range(2, 40) } as u8;
                }
                if sl.iter().map(|x| *x as usize).sum::<usize>() <= 64 {
                    break;
                }
            }
            if cls == 0 {
                ("wf-start", sl, 0, 0)
            } else {
                let tot: usize = sl.iter().map(|x| *x as usize).sum();
                let ch = rng.below(tot as u64) as usize;
                ("wf-anywhere", sl, seg_of(&sl, ch) as u8, ch as u8)
            }
        }
        2 => {
            // encoder-accepted, single-hop segments, CurrINF not tied to CurrHF
            for s in sl.iter_mut().take(nseg) {
                *s = if rng.chance(1, 2) { 1 } else { rng.range(1, 5) as u8 };
            }
            let tot: usize = sl.iter().map(|x| *x as usize).sum();
            ("wf-single-hop-segs", sl, rng.below(nseg as u64) as u8, rng.below(tot as u64) as u8)
        }
        3 => {
            // more hop fields than CurrHF can address, still within the 984-byte header bound
            let tot = rng.range(65, 79) as usize;
            let a = rng.range(2, 40) as usize;
            let b = rng.range(2, (tot - a - 2).min(60) as u64) as usize;
            let c = tot - a - b;
            let sl = if c <= 63 && c >= 1 { [a as u8, b as u8, c as u8] } else { [40, 30, (tot - 70) as u8] };
            let ch = if rng.chance(1, 3) { *rng.pick(&[0usize, 1, 62, 63]) } else { rng.below(64) as usize };
            ("wf-gt64-hops", sl, seg_of(&sl, ch).min(2) as u8, ch as u8)
        }
        4 => {
            // around the CurrHF field boundary
            let tot = *rng.pick(&[63usize, 64, 65, 66, 100, 126, 189]);
            let a = (tot / 3).clamp(1, 63);
            let b = ((tot - a) / 2).clamp(1, 63);
            let c = (tot - a - b).min(63);
            let sl = [a as u8, b as u8, c as u8];
            let ch = *rng.pick(&[61usize, 62, 63]);
            ("boundary", sl, seg_of(&sl, ch).min(3) as u8, ch as u8)
        }
        _ => {
            // hostile: any lengths (zero-length first/middle segments), any pointers
            for s in sl.iter_mut() {
                *s = match rng.below(4) {
                    0 => 0,
                    1 => 1,
                    2 => rng.range(2, 6) as u8,
                    _ => rng.range(0, 63) as u8,
                };
            }
            let tot: usize = sl.iter().map(|x| *x as usize).sum();
            let ch = if rng.chance(1, 2) && tot > 0 { rng.below(tot.min(64) as u64) as u8 } else { rng.below(64) as u8 };
            let ci = if rng.chance(1, 2) { seg_of(&sl, ch as usize).min(3) as u8 } else { rng.below(4) as u8 };
            ("hostile", sl, ci, ch)
        }
    }
}

fn query_event(b: &[u8], ts_of: &dyn Fn(u32) -> i64) -> Result<Value, String> {
    catch(|| {
        let (v, _) = StandardPathView::try_from_slice(b).unwrap();
        let d = ScionDpPathViewRef::Standard(v);
        let e = v.expiration();
        let f = |x: Option<u16>| x.map(|y| y as i64).unwrap_or(-1);
        json!({"ev": "q", "vexp": if e == 0 { 0 } else { ts_of(e) }, "nseg": v.segments().count(),
               "fe": f(d.first_egress_interface()), "li": f(d.last_ingress_interface()),
               "ce": f(d.current_egress_interface()), "cin": f(d.current_ingress_interface())})
    })
}

struct Acc {
    pvs: Vec<Value>,
    counts: BTreeMap<String, u64>,
    nev: u64,
    locals: u64,
}

/// A large authentic journey (real AES-CMAC, per-AS keys), optionally with one or two flipped
/// authenticated bits, walked forward with sciparse's HopMacValidator, reversed and walked back.
fn authentic_run(run: usize, rng: &mut Rng, w: &mut NdjsonWriter, acc: &mut Acc) {
    let npieces = rng.range(1, 3) as usize;
    let mut pieces = Vec::new();
    loop {
        pieces.clear();
        for _ in 0..npieces {
            pieces.push(c11::Piece { n: if rng.chance(1, 2) { rng.range(2, 5) } else { rng.range(2, 24) } as usize, cd: rng.chance(1, 2), peer: false });
        }
        if pieces.iter().map(|p| p.n).sum::<usize>() <= 64 {
            break;
        }
    }
    // one authentic run in six is a peering path (two segments joined by a peering link)
    let peering = rng.chance(1, 6);
    if peering {
        pieces.clear();
        pieces.push(c11::Piece { n: rng.range(1, 12) as usize, cd: false, peer: true });
        pieces.push(c11::Piece { n: rng.range(1, 12) as usize, cd: true, peer: true });
    }
    let npieces = pieces.len();
    let salt = 1000 + run as u64;
    let mut j = c11::build_authentic(&pieces, salt, rng, false, TS_BASE);
    for h in j.hdr.hop.iter_mut() {
        h.flags = rng.below(4) as u8; // router alerts are not authenticated
    }
    // tamper: 0, 1 or 2 flipped bits in authenticated fields
    let nflips = match rng.below(4) {
        0 | 1 => 0,
        2 => 1,
        _ => 2,
    };
    let mut bytes = j.hdr.bytes();
    let mut owner = 0usize;
    let mut what = Vec::new();
    let mut flipped: Vec<(usize, u8)> = Vec::new();
    for _ in 0..nflips {
        let (f, at, own) = if rng.chance(1, 4) {
            let k = rng.range(1, npieces as u64) as usize;
            let first_hop: usize = pieces[..k - 1].iter().map(|p| p.n).sum();
            (*rng.pick(&["sid", "ts"]), k, j.as_of_hop[first_hop])
        } else {
            let g = rng.range(1, j.hdr.hop.len() as u64) as usize;
            (*rng.pick(&["in", "eg", "exp", "mac"]), g, j.as_of_hop[g - 1])
        };
        let bits = c11::field_bits(&j.hdr, f, at);
        let (o, b) = *rng.pick(&bits);
        if flipped.contains(&(o, b)) {
            // the same bit twice would restore the authentic path: this run flips one bit only
            continue;
        }
        flipped.push((o, b));
        bytes[o] ^= 1 << b;
        owner = owner.max(own);
        what.push(format!("{f}@{at} byte {o} bit {b}"));
    }
    let nflips = flipped.len();
    let h0 = HdrC::parse_or_meta(&bytes);
    let reference = h0.clone();
    let hop_id = move |h: &HopC| -> i64 { reference.hop.iter().position(|x| x.mac == h.mac && x.cin == h.cin && x.ceg == h.ceg).map(|p| p as i64 + 1).unwrap_or(-1) };
    let ref2 = h0.clone();
    let inf_id = move |i: &InfC| -> i64 { ref2.inf.iter().position(|x| x.ts == i.ts).map(|p| p as i64 + 1).unwrap_or(-1) };
    w.write(&json!({
        "ev": "reset", "run": run, "cls": "authentic", "tamper": what, "sl": h0.sl, "ci": h0.ci, "ch": h0.ch,
        "inf": h0.inf.iter().enumerate().map(|(k, i)| json!({"id": k + 1, "cd": i.flags & 1 != 0, "peer": i.flags & FLAG_PEER != 0, "ts": i.ts.wrapping_sub(TS_BASE) % 1_000_000_000, "sid": i.segid})).collect::<Vec<_>>(),
        "hop": h0.hop.iter().enumerate().map(|(g, h)| json!({"id": g + 1, "exp": h.exp, "in": h.cin, "eg": h.ceg,
                "mac": u16::from_be_bytes([h.mac[0], h.mac[1]]), "ai": h.flags & HF_INGRESS_ALERT != 0, "ae": h.flags & HF_EGRESS_ALERT != 0})).collect::<Vec<_>>(),
    }));
    acc.nev += 1;
    let mut buf = bytes;
    let desc = format!("{}pieces {:?} flips {:?}", if peering { "peering " } else { "" }, pieces.iter().map(|p| format!("{}{}", if p.cd { 'c' } else { 'r' }, p.n)).collect::<Vec<_>>(), what);
    let mut failed_at = 0usize;
    let mut delivered = [false, false];
    for dir in 0..2 {
        let order: Vec<usize> = if dir == 0 { (1..=j.nas).collect() } else { (1..=j.nas).rev().collect() };
        'walk: for (i, a) in order.iter().enumerate() {
            for op in [if i == 0 { Op::IngInt } else { Op::IngExt }, Op::Egr] {
                let before = buf.clone();
                let hb = HdrC::parse_or_meta(&before);
                let (out, script, agree) = apply_mac(op, &mut buf, c11::as_key(*a, salt));
                *acc.counts.entry(format!("{}:{}", op.name(), out.k)).or_default() += 1;
                for mut p in call_monitors(op, &before, &buf, &out) {
                    p["run"] = json!(run);
                    acc.pvs.push(p);
                }
                if !agree {
                    acc.pvs.push(pv("AuthenticRejected:HopMacValidator-disagrees-with-CMAC", format!("HopMacValidator and an independent AES-CMAC over the authenticated fields disagree at AS {a} ({desc})")));
                }
                if out.k == "panic" {
                    failed_at = *a;
                    break 'walk;
                }
                let ha = HdrC::parse_or_meta(&buf);
                w.write(&json!({
                    "ev": "op", "op": op.name(), "v": script.json(),
                    "res": {"k": out.k, "act": out.act, "eif": out.eif, "iif": out.iif, "alert": out.alert, "cls": out.cls},
                    "unchanged": before == buf, "calls": out.calls,
                    "after": after_json(op, &hb, &ha, &hop_id, &inf_id),
                }));
                acc.nev += 1;
                if out.k != "ok" {
                    failed_at = *a;
                    break 'walk;
                }
                if out.act == "local" {
                    delivered[dir] = true;
                    acc.locals += 1;
                    break 'walk;
                }
            }
        }
        if dir == 0 {
            if nflips == 0 && !delivered[0] && peering {
                acc.pvs.push(pv("AuthenticRejected:peering:advance-ignores-PEERING-flag", format!("authentic PEERING path rejected at AS {failed_at} going forward ({desc}): advance_ingress/advance_egress ignore the PEERING flag")));
            } else if nflips == 0 && !delivered[0] {
                acc.pvs.push(pv("AuthenticRejected:forward:large", format!("authentic path rejected at AS {failed_at} going forward ({desc})")));
            }
            if nflips > 0 {
                if delivered[0] {
                    acc.pvs.push(pv(format!("TamperUndetected:{}flip", nflips), format!("tampered path delivered ({desc})")));
                } else if failed_at > owner {
                    acc.pvs.push(pv(format!("TamperDetectedLate:{}flip", nflips), format!("first failure at AS {failed_at}, owner AS {owner} ({desc})")));
                }
            }
            if !delivered[0] || nflips > 0 {
                return;
            }
            // turn around
            let before = buf.clone();
            let hb = HdrC::parse_or_meta(&before);
            let out = apply(Op::Rev, &mut buf, Script::ACCEPT);
            let ha = HdrC::parse_or_meta(&buf);
            *acc.counts.entry(format!("rev:{}", out.k)).or_default() += 1;
            w.write(&json!({
                "ev": "op", "op": "rev", "v": Script::ACCEPT.json(),
                "res": {"k": out.k, "act": out.act, "eif": 0, "iif": 0, "alert": false, "cls": out.cls},
                "unchanged": before == buf, "calls": [],
                "after": after_json(Op::Rev, &hb, &ha, &hop_id, &inf_id),
            }));
            acc.nev += 1;
            if out.k != "ok" {
                acc.pvs.push(pv("AuthenticRejected:reverse:large", format!("try_reverse failed on a delivered authentic path ({desc})")));
                return;
            }
        } else if !delivered[1] {
            acc.pvs.push(pv("AuthenticRejected:backward:large", format!("reversed authentic path rejected at AS {failed_at} ({desc})")));
        }
    }
}

pub fn record(events: &str, results: &str, mode: &str) {
    let mut rng = Rng::from_env();
    let thorough = vh_core::tier_is_thorough();
    let runs: usize = std::env::var("VERIF_RUNS").ok().and_then(|s| s.parse().ok()).unwrap_or(if thorough { 1200 } else { 300 });
    let mut w = NdjsonWriter::create(events);
    w.write(&json!({"ev": "meta", "spec": "PathHeader", "seed": vh_core::seed_from_env(), "mode": mode, "runs": runs}));
    let mut pvs: Vec<Value> = Vec::new();
    let mut counts: BTreeMap<String, u64> = BTreeMap::new();
    let mut classes: BTreeMap<String, u64> = BTreeMap::new();
    let mut nev = 0u64;
    let mut nontrivial = 0u64;
    let mut locals = 0u64;
    for run in 0..runs {
        let r = catch(|| {
        // the first runs cycle through the shape classes so that none is missed for any seed
        let pick = if run < 18 { (run % 9) as u64 } else { rng.below(if mode == "c11" { 12 } else { 9 }) };
        if pick >= 8 {
            *classes.entry("authentic".to_string()).or_default() += 1;
            let mut acc = Acc { pvs: vec![], counts: BTreeMap::new(), nev: 0, locals: 0 };
            authentic_run(run, &mut rng, &mut w, &mut acc);
            pvs.extend(acc.pvs);
            for (k, v) in acc.counts {
                *counts.entry(k).or_default() += v;
            }
            nev += acc.nev;
            locals += acc.locals;
            nontrivial += 1;
            return;
        }
        let (cls, sl, ci, ch) = gen_shape(&mut rng, Some(pick));
        *classes.entry(cls.to_string()).or_default() += 1;
        let tot: usize = sl.iter().map(|x| *x as usize).sum();
        let ninf = sl.iter().filter(|x| **x > 0).count();
        // distinct model-time timestamps identify the info fields
        let mut tss: Vec<u32> = Vec::new();
        while tss.len() < ninf {
            let t = if rng.chance(1, 4) { U32CAP - rng.below(3000) as u32 } else { rng.below(90_000) as u32 };
            if !tss.contains(&t) {
                tss.push(t);
            }
        }
        let h0 = HdrC {
            ci,
            ch,
            rsv: 0,
            sl,
            inf: (0..ninf).map(|j| InfC { flags: (rng.below(2) as u8) | if rng.chance(1, 8) { 2 } else { 0 }, rsv: 0, segid: rng.below(65536) as u16, ts: TS_BASE + tss[j] }).collect(),
            hop: (0..tot).map(|k| big_hop(k + 1, &mut rng)).collect(),
        };
        let tss2 = tss.clone();
        let inf_id = move |i: &InfC| -> i64 { tss2.iter().position(|t| TS_BASE + *t == i.ts).map(|p| p as i64 + 1).unwrap_or(-1) };
        let ts_of = |r: u32| r as i64 - TS_BASE as i64;
        w.write(&json!({
            "ev": "reset", "run": run, "cls": cls, "sl": h0.sl, "ci": h0.ci, "ch": h0.ch,
            "inf": h0.inf.iter().enumerate().map(|(j, i)| json!({"id": j + 1, "cd": i.flags & 1 != 0, "ts": tss[j], "sid": i.segid})).collect::<Vec<_>>(),
            "hop": h0.hop.iter().map(|h| json!({"id": hop_id(h), "exp": h.exp, "in": h.cin, "eg": h.ceg,
                    "mac": u16::from_be_bytes([h.mac[0], h.mac[1]]), "ai": h.flags & HF_INGRESS_ALERT != 0, "ae": h.flags & HF_EGRESS_ALERT != 0})).collect::<Vec<_>>(),
        }));
        nev += 1;
        let mut buf = h0.bytes();
        if StandardPathView::try_from_slice(&buf).is_err() {
            pvs.push(pv("Drift:constructor-rejected", format!("view constructor rejected a buffer of the right size for seg lens {:?}", h0.sl)));
            return;
        }
        // C12 monitors (view/model agreement, atomicity of every wrapper) on the initial header
        let o = c12::check_std(&h0);
        for mut p in o.pv {
            p["run"] = json!(run);
            pvs.push(p);
        }
        match query_event(&buf, &ts_of) {
            Ok(e) => {
                w.write(&e);
                nev += 1;
            }
            Err(msg) => pvs.push(pv("Panic:queries", format!("{msg} on run {run} {:?}", h0.sl))),
        }
        // call sequence: a walk with perturbations
        let nops = rng.range(6, if mode == "c12" { 14 } else { 40 });
        let mut first = true;
        let mut want_egress = false;
        let mut interesting = cls != "wf-start";
        for _ in 0..nops {
            let natural = if want_egress { Op::Egr } else if first { Op::IngInt } else { Op::IngExt };
            let op = if rng.chance(if mode == "c12" { 30 } else { 8 }, 100) {
                Op::Rev
            } else if rng.chance(12, 100) {
                *rng.pick(&[Op::IngInt, Op::IngExt, Op::Egr, Op::Rev])
            } else {
                natural
            };
            if op != natural {
                interesting = true;
            }
            let script = if rng.chance(1, 10) {
                interesting = true;
                Script { cur: rng.chance(1, 2), seg: rng.chance(1, 2), nxt: rng.chance(1, 2) }
            } else {
                Script::ACCEPT
            };
            let before = buf.clone();
            let hb = HdrC::parse_or_meta(&before);
            let out = apply(op, &mut buf, script);
            *counts.entry(format!("{}:{}", op.name(), out.k)).or_default() += 1;
            for mut p in call_monitors(op, &before, &buf, &out) {
                p["run"] = json!(run);
                pvs.push(p);
            }
            if out.k == "panic" {
                break;
            }
            // the validator-less entry points behave like an all-accepting validator
            if script.cur && script.seg && script.nxt && op != Op::Rev {
                let mut b2 = before.clone();
                let k2 = apply_plain(op, &mut b2);
                if b2 != buf || (k2 == "ok") != (out.k == "ok") {
                    pvs.push(pv("Drift:plain-vs-validator", format!("{} without validator differs from the all-accepting validator on run {run}", op.api())));
                }
            }
            let ha = HdrC::parse_or_meta(&buf);
            w.write(&json!({
                "ev": "op", "op": op.name(), "v": script.json(),
                "res": {"k": out.k, "act": out.act, "eif": out.eif, "iif": out.iif, "alert": out.alert, "cls": out.cls},
                "unchanged": before == buf, "calls": out.calls,
                "after": after_json(op, &hb, &ha, &hop_id, &inf_id),
            }));
            nev += 1;
            if out.k != "err" {
                match op {
                    Op::IngInt | Op::IngExt => {
                        first = false;
                        want_egress = out.act == "egress";
                        if out.act == "local" {
                            locals += 1;
                        }
                    }
                    Op::Egr => want_egress = false,
                    Op::Rev => {
                        first = true;
                        want_egress = false;
                        if let Ok(e) = query_event(&buf, &ts_of) {
                            w.write(&e);
                            nev += 1;
                        }
                    }
                }
            }
        }
        if interesting {
            nontrivial += 1;
        }
    
        });
        if let Err(msg) = r {
            pvs.push(pv("Drift:harness-could-not-interpret", format!("run {run}: {msg}")));
        }
    }
    w.finish();
    // deduplicate P-violations by key, keep the first description and a count
    let mut by_key: BTreeMap<String, (Value, u64)> = BTreeMap::new();
    for p in pvs {
        let k = p["key"].as_str().unwrap_or("?").to_string();
        by_key.entry(k).and_modify(|e| e.1 += 1).or_insert((p, 1));
    }
    let pv_out: Vec<Value> = by_key.into_iter().map(|(_, (mut p, n))| {
        p["count"] = json!(n);
        p
    }).collect();
    let res = json!({"runs": runs, "events": nev, "ops": counts, "classes": classes, "nontrivial_runs": nontrivial, "delivered_local": locals, "pv": pv_out});
    std::fs::write(results, serde_json::to_string_pretty(&res).unwrap()).expect("write results");
}
