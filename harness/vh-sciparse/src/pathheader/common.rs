//! Concrete <-> abstract mapping for the standard-path header (spec/PathHeader/PathHeader.tla).
//!
//! The bytes are written and read here *independently of sciparse* (raw layout of the SCION
//! standard path: 4-byte meta header, 8-byte info fields, 12-byte hop fields), so that states the
//! sciparse encoder refuses (zero-length middle segment, pointers out of range, ...) can be
//! materialised and so that the projection of a result does not go through the code under test.
#![allow(dead_code)]
use serde_json::{Value, json};

/// u32 origin shift: model time t is the real timestamp TS_BASE + t, so that the model's
/// saturation bound U32CAP (= 100000) is u32::MAX.
pub const U32CAP: u32 = 100_000;
pub const TS_BASE: u32 = u32::MAX - U32CAP;

#[derive(Clone, Debug, PartialEq, Eq)]
pub struct HopC {
    pub flags: u8,
    pub exp: u8,
    pub cin: u16,
    pub ceg: u16,
    pub mac: [u8; 6],
}
#[derive(Clone, Debug, PartialEq, Eq)]
pub struct InfC {
    pub flags: u8,
    pub rsv: u8,
    pub segid: u16,
    pub ts: u32,
}
#[derive(Clone, Debug, PartialEq, Eq)]
pub struct HdrC {
    pub ci: u8,
    pub ch: u8,
    pub rsv: u8,
    pub sl: [u8; 3],
    pub inf: Vec<InfC>,
    pub hop: Vec<HopC>,
}

pub const FLAG_CONS_DIR: u8 = 1;
pub const FLAG_PEER: u8 = 2;
pub const HF_EGRESS_ALERT: u8 = 1; // ConsEgress router alert
pub const HF_INGRESS_ALERT: u8 = 2; // ConsIngress router alert

impl HdrC {
    pub fn total(&self) -> usize {
        self.sl.iter().map(|x| *x as usize).sum()
    }
    pub fn ninf(&self) -> usize {
        self.sl.iter().filter(|x| **x > 0).count()
    }
    /// Raw encoding. `inf.len()` must be the number of non-zero lengths and `hop.len()` their sum.
    pub fn bytes(&self) -> Vec<u8> {
        assert_eq!(self.inf.len(), self.ninf());
        assert_eq!(self.hop.len(), self.total());
        let meta: u32 = ((self.ci as u32 & 3) << 30)
            | ((self.ch as u32 & 63) << 24)
            | ((self.rsv as u32 & 63) << 18)
            | ((self.sl[0] as u32 & 63) << 12)
            | ((self.sl[1] as u32 & 63) << 6)
            | (self.sl[2] as u32 & 63);
        let mut b = Vec::with_capacity(4 + 8 * self.inf.len() + 12 * self.hop.len());
        b.extend_from_slice(&meta.to_be_bytes());
        for i in &self.inf {
            b.push(i.flags);
            b.push(i.rsv);
            b.extend_from_slice(&i.segid.to_be_bytes());
            b.extend_from_slice(&i.ts.to_be_bytes());
        }
        for h in &self.hop {
            b.push(h.flags);
            b.push(h.exp);
            b.extend_from_slice(&h.cin.to_be_bytes());
            b.extend_from_slice(&h.ceg.to_be_bytes());
            b.extend_from_slice(&h.mac);
        }
        b
    }
    /// Decoding that never fails: if the buffer does not have the size its own segment lengths
    /// announce (only code under test that corrupts the meta header can cause that), only the
    /// meta header is decoded and the field lists are empty.
    pub fn parse_or_meta(b: &[u8]) -> HdrC {
        if let Some(h) = HdrC::parse(b) {
            return h;
        }
        let meta = if b.len() >= 4 { u32::from_be_bytes([b[0], b[1], b[2], b[3]]) } else { 0 };
        HdrC {
            ci: (meta >> 30) as u8,
            ch: ((meta >> 24) & 63) as u8,
            rsv: ((meta >> 18) & 63) as u8,
            sl: [((meta >> 12) & 63) as u8, ((meta >> 6) & 63) as u8, (meta & 63) as u8],
            inf: vec![],
            hop: vec![],
        }
    }
    /// Raw decoding of a buffer that holds exactly one standard path.
    pub fn parse(b: &[u8]) -> Option<HdrC> {
        if b.len() < 4 {
            return None;
        }
        let meta = u32::from_be_bytes([b[0], b[1], b[2], b[3]]);
        let sl = [((meta >> 12) & 63) as u8, ((meta >> 6) & 63) as u8, (meta & 63) as u8];
        let ninf = sl.iter().filter(|x| **x > 0).count();
        let tot: usize = sl.iter().map(|x| *x as usize).sum();
        if b.len() != 4 + 8 * ninf + 12 * tot {
            return None;
        }
        let mut inf = Vec::new();
        let mut o = 4;
        for _ in 0..ninf {
            inf.push(InfC {
                flags: b[o],
                rsv: b[o + 1],
                segid: u16::from_be_bytes([b[o + 2], b[o + 3]]),
                ts: u32::from_be_bytes([b[o + 4], b[o + 5], b[o + 6], b[o + 7]]),
            });
            o += 8;
        }
        let mut hop = Vec::new();
        for _ in 0..tot {
            hop.push(HopC {
                flags: b[o],
                exp: b[o + 1],
                cin: u16::from_be_bytes([b[o + 2], b[o + 3]]),
                ceg: u16::from_be_bytes([b[o + 4], b[o + 5]]),
                mac: [b[o + 6], b[o + 7], b[o + 8], b[o + 9], b[o + 10], b[o + 11]],
            });
            o += 12;
        }
        Some(HdrC { ci: (meta >> 30) as u8, ch: ((meta >> 24) & 63) as u8, rsv: ((meta >> 18) & 63) as u8, sl, inf, hop })
    }
}

// ---------------------------------------------------------------------------------------------
// Labelling used for the small (TLC-enumerated) cells: hop id k (1-based, k <= 16) and info id j.
//   hop k : cons_ingress = 100 + k, cons_egress = 200 + k, MAC = [prefix(k), 0xA0, k, 0x5A, !k],
//           prefix(k) = 1 << (k-1)  (linearly independent 16-bit prefixes = the symbolic XOR algebra)
//   info j: SegID = j << 12 XOR (prefixes of the hop ids accumulated), timestamp = TS_BASE + t
// ---------------------------------------------------------------------------------------------
pub fn small_hop(k: u32, exp: u8, ai: bool, ae: bool) -> HopC {
    assert!((1..=16).contains(&k));
    let pfx: u16 = 1 << (k - 1);
    HopC {
        flags: (if ai { HF_INGRESS_ALERT } else { 0 }) | (if ae { HF_EGRESS_ALERT } else { 0 }),
        exp,
        cin: 100 + k as u16,
        ceg: 200 + k as u16,
        mac: [(pfx >> 8) as u8, pfx as u8, 0xA0, k as u8, 0x5A, !(k as u8)],
    }
}
pub fn small_inf(j: u32, cd: bool, t: u32, acc: &[u32]) -> InfC {
    let mut segid: u16 = (j as u16) << 12;
    for k in acc {
        segid ^= 1 << (k - 1);
    }
    InfC { flags: if cd { FLAG_CONS_DIR } else { 0 }, rsv: 0, segid, ts: TS_BASE + t }
}
pub fn small_hop_id(h: &HopC) -> i64 {
    h.cin as i64 - 100
}
pub fn small_inf_id(i: &InfC) -> i64 {
    (i.segid >> 12) as i64
}
/// hop ids accumulated into the SegID of a small-labelled info field (sorted), or None if bits
/// outside the label space are set
pub fn small_inf_acc(i: &InfC) -> Option<Vec<i64>> {
    let x = i.segid & 0x0fff;
    Some((1..=12).filter(|k| x & (1 << (k - 1)) != 0).collect())
}

/// abstract JSON form of a header with the small labelling (same shape as HdrJ in MC_PathOps.tla)
pub fn small_project(h: &HdrC) -> Value {
    json!({
        "sl": h.sl, "ci": h.ci, "ch": h.ch,
        "inf": h.inf.iter().map(small_inf_id).collect::<Vec<_>>(),
        "cd": h.inf.iter().map(|i| i.flags & FLAG_CONS_DIR != 0).collect::<Vec<_>>(),
        "hop": h.hop.iter().map(small_hop_id).collect::<Vec<_>>(),
    })
}

pub fn hex(b: &[u8]) -> String {
    b.iter().map(|x| format!("{x:02x}")).collect()
}

pub fn jarr_u(v: &Value) -> Vec<u64> {
    v.as_array().map(|a| a.iter().map(|x| x.as_u64().unwrap_or(0)).collect()).unwrap_or_default()
}
pub fn jarr_b(v: &Value) -> Vec<bool> {
    v.as_array().map(|a| a.iter().map(|x| x.as_bool().unwrap_or(false)).collect()).unwrap_or_default()
}

/// A P-monitor verdict: `key` is the canonical class, `what` the human-readable description.
pub fn pv(key: impl Into<String>, what: impl Into<String>) -> Value {
    json!({"key": key.into(), "what": what.into()})
}
