//! One call of the advance/reverse API on real bytes, with a scripted validator that records what
//! it is shown, and the per-call P-monitors of C11 (evaluated on the real bytes before/after).
#![allow(dead_code)]
use std::cell::RefCell;

use sciparse::{
    core::view::View,
    dataplane_path::standard::{
        routing::{AdvanceError, AdvanceValidator, EgressValidateResult, HopMacValidator, IngressAdvanceAction, IngressValidateResult},
        view::{HopFieldView, InfoFieldView, StandardPathView},
    },
};
use serde_json::{Value, json};
use vh_core::catch;

use crate::common::*;

#[derive(Clone, Copy, Debug, PartialEq, Eq)]
pub enum Op {
    Rev,
    IngInt,
    IngExt,
    Egr,
}
impl Op {
    pub fn name(self) -> &'static str {
        match self {
            Op::Rev => "rev",
            Op::IngInt => "ing_int",
            Op::IngExt => "ing_ext",
            Op::Egr => "egr",
        }
    }
    pub fn parse(s: &str) -> Option<Op> {
        Some(match s {
            "rev" => Op::Rev,
            "ing_int" => Op::IngInt,
            "ing_ext" => Op::IngExt,
            "egr" => Op::Egr,
            _ => return None,
        })
    }
    pub fn api(self) -> &'static str {
        match self {
            Op::Rev => "try_reverse",
            Op::IngInt | Op::IngExt => "advance_ingress",
            Op::Egr => "advance_egress",
        }
    }
}

#[derive(Clone, Copy, Debug)]
pub struct Script {
    pub cur: bool,
    pub seg: bool,
    pub nxt: bool,
}
impl Script {
    pub const ACCEPT: Script = Script { cur: true, seg: true, nxt: true };
    pub fn json(&self) -> Value {
        json!({"cur": self.cur, "seg": self.seg, "nxt": self.nxt})
    }
}

/// Validator with scripted verdicts; records every call (what the validator is shown).
pub struct Scripted {
    pub script: Script,
    pub cur_idx: usize,
    pub calls: RefCell<Vec<Value>>,
}
impl AdvanceValidator for &Scripted {
    type Error = String;
    fn validate_hop(&self, hop_index: usize, _hop: &HopFieldView, info: &InfoFieldView, start: bool, end: bool) -> Result<(), String> {
        self.calls.borrow_mut().push(json!({"f": "hop", "idx": hop_index, "sid": info.segment_id(), "start": start, "end": end}));
        let ok = if hop_index == self.cur_idx { self.script.cur } else { self.script.nxt };
        if ok { Ok(()) } else { Err("scripted rejection".into()) }
    }
    fn validate_segment_change(&self, hop_index: usize, _ch: &HopFieldView, ci: &InfoFieldView, _nh: &HopFieldView, _ni: &InfoFieldView) -> Result<(), String> {
        self.calls.borrow_mut().push(json!({"f": "seg", "idx": hop_index, "sid": ci.segment_id(), "start": false, "end": false}));
        if self.script.seg { Ok(()) } else { Err("scripted rejection".into()) }
    }
}

pub struct CallOut {
    /// "ok" | "vfail" | "err" | "panic"
    pub k: String,
    pub cls: String,
    pub act: String,
    pub eif: u16,
    pub iif: u16,
    pub alert: bool,
    pub calls: Vec<Value>,
    pub msg: String,
}

fn err_cls(e: &AdvanceError) -> &'static str {
    match e {
        AdvanceError::HopOutOfBounds(_) => "hop_oob",
        AdvanceError::InfoOutOfBounds(_) => "info_oob",
        AdvanceError::InvalidSegmentIndex { .. } => "segment_mismatch",
        AdvanceError::InvalidPathState(_) => "invalid_state",
    }
}

/// Apply one call to the path in `buf` (a buffer holding exactly one standard path).
pub fn apply(op: Op, buf: &mut [u8], script: Script) -> CallOut {
    let cur_idx = ((buf[0] & 0x3f) as usize).min(255);
    let sc = Scripted { script, cur_idx, calls: RefCell::new(Vec::new()) };
    let mut out = CallOut { k: "err".into(), cls: String::new(), act: "none".into(), eif: 0, iif: 0, alert: false, calls: vec![], msg: String::new() };
    let r = catch(|| {
        let (v, _) = StandardPathView::try_from_mut_slice(buf).expect("constructor accepted this buffer before");
        match op {
            Op::Rev => match v.try_reverse() {
                Ok(()) => ("ok".to_string(), "ok".to_string(), "none".to_string(), 0u16, 0u16, false),
                Err(e) => ("err".to_string(), e.reason.to_string(), "none".to_string(), 0, 0, false),
            },
            Op::IngInt | Op::IngExt => match v.advance_ingress_with_validator(&sc, op == Op::IngInt) {
                Err(e) => ("err".to_string(), err_cls(&e).to_string(), "none".to_string(), 0, 0, false),
                Ok(res) => {
                    let (k, o) = match res {
                        IngressValidateResult::Ok(o) => ("ok", o),
                        IngressValidateResult::ValidationFailed(o, _) => ("vfail", o),
                    };
                    let (act, eif) = match o.action {
                        IngressAdvanceAction::ContinueEgress { egress_if } => ("egress", egress_if),
                        IngressAdvanceAction::ForwardLocal => ("local", 0),
                    };
                    (k.to_string(), "ok".to_string(), act.to_string(), eif, o.ingress_interface, o.scmp_alert)
                }
            },
            Op::Egr => match v.advance_egress_with_validator(&sc) {
                Err(e) => ("err".to_string(), err_cls(&e).to_string(), "none".to_string(), 0, 0, false),
                Ok(res) => {
                    let (k, o) = match res {
                        EgressValidateResult::Ok(o) => ("ok", o),
                        EgressValidateResult::ValidationFailed(o, _) => ("vfail", o),
                    };
                    (k.to_string(), "ok".to_string(), "egress".to_string(), o.egress_interface, 0, o.scmp_alert)
                }
            },
        }
    });
    match r {
        Ok((k, cls, act, eif, iif, alert)) => {
            out.k = k;
            out.cls = cls;
            out.act = act;
            out.eif = eif;
            out.iif = iif;
            out.alert = alert;
        }
        Err(msg) => {
            out.k = "panic".into();
            out.msg = msg;
        }
    }
    out.calls = sc.calls.into_inner();
    out
}

/// HopMacValidator with the key of one AS, wrapped so that every verdict is also computed
/// independently (AES-CMAC via the aes/cmac crates over the bytes the validator is shown).
pub struct MacCheck {
    pub key: [u8; 16],
    pub cur_idx: usize,
    pub calls: RefCell<Vec<Value>>,
    /// (hop index, independent verdict, sciparse verdict)
    pub verdicts: RefCell<Vec<(usize, bool, bool)>>,
}
impl AdvanceValidator for &MacCheck {
    type Error = String;
    fn validate_hop(&self, hop_index: usize, hop: &HopFieldView, info: &InfoFieldView, start: bool, end: bool) -> Result<(), String> {
        self.calls.borrow_mut().push(json!({"f": "hop", "idx": hop_index, "sid": info.segment_id(), "start": start, "end": end}));
        let real = HopMacValidator { key: self.key }.validate_hop(hop_index, hop, info, start, end).is_ok();
        let indep = crate::c11::hop_mac(&self.key, info.segment_id(), info.timestamp(), hop.exp_time(), hop.cons_ingress(), hop.cons_egress()) == hop.mac().0;
        self.verdicts.borrow_mut().push((hop_index, indep, real));
        if real { Ok(()) } else { Err("mac".into()) }
    }
    fn validate_segment_change(&self, hop_index: usize, ch: &HopFieldView, ci: &InfoFieldView, nh: &HopFieldView, ni: &InfoFieldView) -> Result<(), String> {
        self.calls.borrow_mut().push(json!({"f": "seg", "idx": hop_index, "sid": ci.segment_id(), "start": false, "end": false}));
        HopMacValidator { key: self.key }.validate_segment_change(hop_index, ch, ci, nh, ni).map_err(|e| format!("{e:?}"))
    }
}

/// One advance call with the real HopMacValidator of the AS owning `key`.
/// Returns the call result, the independent verdicts as a script, and whether sciparse's verdicts
/// all equal the independent ones.
pub fn apply_mac(op: Op, buf: &mut [u8], key: [u8; 16]) -> (CallOut, Script, bool) {
    let cur_idx = (buf[0] & 0x3f) as usize;
    let mc = MacCheck { key, cur_idx, calls: RefCell::new(vec![]), verdicts: RefCell::new(vec![]) };
    let mut out = CallOut { k: "err".into(), cls: String::new(), act: "none".into(), eif: 0, iif: 0, alert: false, calls: vec![], msg: String::new() };
    let r = catch(|| {
        let (v, _) = StandardPathView::try_from_mut_slice(buf).expect("constructor accepted this buffer before");
        match op {
            Op::Rev => unreachable!("apply_mac is for advance calls"),
            Op::IngInt | Op::IngExt => match v.advance_ingress_with_validator(&mc, op == Op::IngInt) {
                Err(e) => ("err".to_string(), err_cls(&e).to_string(), "none".to_string(), 0u16, 0u16, false),
                Ok(res) => {
                    let (k, o) = match res {
                        IngressValidateResult::Ok(o) => ("ok", o),
                        IngressValidateResult::ValidationFailed(o, _) => ("vfail", o),
                    };
                    let (act, eif) = match o.action {
                        IngressAdvanceAction::ContinueEgress { egress_if } => ("egress", egress_if),
                        IngressAdvanceAction::ForwardLocal => ("local", 0),
                    };
                    (k.to_string(), "ok".to_string(), act.to_string(), eif, o.ingress_interface, o.scmp_alert)
                }
            },
            Op::Egr => match v.advance_egress_with_validator(&mc) {
                Err(e) => ("err".to_string(), err_cls(&e).to_string(), "none".to_string(), 0, 0, false),
                Ok(res) => {
                    let (k, o) = match res {
                        EgressValidateResult::Ok(o) => ("ok", o),
                        EgressValidateResult::ValidationFailed(o, _) => ("vfail", o),
                    };
                    (k.to_string(), "ok".to_string(), "egress".to_string(), o.egress_interface, 0, o.scmp_alert)
                }
            },
        }
    });
    match r {
        Ok((k, cls, act, eif, iif, alert)) => {
            out.k = k;
            out.cls = cls;
            out.act = act;
            out.eif = eif;
            out.iif = iif;
            out.alert = alert;
        }
        Err(msg) => {
            out.k = "panic".into();
            out.msg = msg;
        }
    }
    let mut script = Script::ACCEPT;
    let mut agree = true;
    for (idx, indep, real) in mc.verdicts.borrow().iter() {
        if *idx == cur_idx {
            script.cur = *indep;
        } else {
            script.nxt = *indep;
        }
        agree &= indep == real;
    }
    out.calls = mc.calls.into_inner();
    (out, script, agree)
}

/// The same call through the validator-less entry points (advance_ingress / advance_egress).
/// Returns (class, bytes after).
pub fn apply_plain(op: Op, buf: &mut [u8]) -> String {
    let r = catch(|| {
        let (v, _) = StandardPathView::try_from_mut_slice(buf).unwrap();
        match op {
            Op::Rev => if v.try_reverse().is_ok() { "ok" } else { "err" }.to_string(),
            Op::IngInt | Op::IngExt => match v.advance_ingress(op == Op::IngInt) {
                Ok(_) => "ok".to_string(),
                Err(_) => "err".to_string(),
            },
            Op::Egr => match v.advance_egress() {
                Ok(_) => "ok".to_string(),
                Err(_) => "err".to_string(),
            },
        }
    });
    r.unwrap_or_else(|_| "panic".into())
}

fn shape_class(h: &HdrC) -> String {
    let tot = h.total();
    let prefix = h.sl[0] > 0 && (h.sl[1] > 0 || h.sl[2] == 0);
    let mut s = String::new();
    s += if tot > 64 { "gt64hops" } else { "le64hops" };
    if !prefix {
        s += "+gap";
    }
    if (h.ch as usize) >= tot {
        s += "+hf-oob";
    }
    s
}

/// Per-call P-monitors of C11/C12 on the real bytes before/after one call.
pub fn call_monitors(op: Op, before: &[u8], after: &[u8], out: &CallOut) -> Vec<Value> {
    let mut pvs = Vec::new();
    let hb = HdrC::parse_or_meta(before);
    let cls = shape_class(&hb);
    let desc = || format!("seg lens {:?} ci {} ch {} (meta {})", hb.sl, hb.ci, hb.ch, hex(&before[..4]));
    if out.k == "panic" {
        pvs.push(pv(format!("Panic:{}:{}", op.api(), cls), format!("{} panicked ({}) on {}", op.api(), out.msg, desc())));
        return pvs;
    }
    if out.k == "err" {
        if before != after {
            pvs.push(pv(
                format!("ErrNotAtomic:{}:{}:{}", op.api(), out.cls.replace(' ', "_"), cls),
                format!("{} returned Err ({}) but changed the path bytes: {}: meta after {}", op.api(), out.cls, desc(), hex(&after[..4])),
            ));
        }
        return pvs;
    }
    let Some(ha) = HdrC::parse(after) else {
        pvs.push(pv(format!("Monotone:{}:layout-changed:{}", op.api(), cls), format!("{} changed the segment lengths inconsistently: {}", op.api(), desc())));
        return pvs;
    };
    if op == Op::Rev {
        return pvs;
    }
    // C11 Monotone: pointers never move backwards, CurrHF moves by at most one, CurrINF follows
    let (c0, h0, c1, h1) = (hb.ci as i32, hb.ch as i32, ha.ci as i32, ha.ch as i32);
    if ha.sl != hb.sl {
        pvs.push(pv(format!("Monotone:{}:seglens-changed:{}", op.api(), cls), format!("{} changed the segment lengths: {}", op.api(), desc())));
    }
    if h1 < h0 || c1 < c0 {
        pvs.push(pv(
            format!("Monotone:{}:pointer-moved-backwards:{}", op.api(), cls),
            format!("{} returned {} and moved (ci {}, ch {}) to (ci {}, ch {}): {}", op.api(), out.k, c0, h0, c1, h1, desc()),
        ));
    }
    if out.k != "ok" {
        // ValidationFailed: a rejection after processing; only "not backwards" is required (S3)
        return pvs;
    }
    if h1 < h0 || c1 < c0 {
    } else if h1 > h0 + 1 || c1 > c0 + 1 || (c1 == c0 + 1 && h1 != h0 + 1) {
        pvs.push(pv(
            format!("Monotone:{}:pointer-jump:{}", op.api(), cls),
            format!("{} moved (ci {}, ch {}) to (ci {}, ch {}): {}", op.api(), c0, h0, c1, h1, desc()),
        ));
    }
    // CurrINF follows exactly when CurrHF crosses into another segment of the segment table
    if h1 == h0 + 1 && (h1 as usize) < hb.total() {
        let seg = |x: usize| -> usize {
            let mut a = 0;
            for (j, l) in hb.sl.iter().enumerate() {
                if x < a + *l as usize {
                    return j;
                }
                a += *l as usize;
            }
            3
        };
        let crossed = seg(h1 as usize) != seg(h0 as usize);
        if crossed != (c1 == c0 + 1) && c1 >= c0 {
            pvs.push(pv(
                format!("Monotone:{}:curr_inf-not-following:{}", op.api(), cls),
                format!("{} moved CurrHF {} -> {} ({}) but CurrINF {} -> {}: {}", op.api(), h0, h1, if crossed { "into the next segment" } else { "inside the segment" }, c0, c1, desc()),
            ));
        }
    }
    if op == Op::Egr && h1 != h0 + 1 && h1 >= h0 {
        pvs.push(pv(format!("Monotone:advance_egress:not-forward:{}", cls), format!("advance_egress returned {} without moving CurrHF forward: {}", out.k, desc())));
    }
    pvs
}

/// Abstract after-state for trace events (ids by the caller-provided decoders).
pub fn after_json(op: Op, before: &HdrC, after: &HdrC, hop_id: &dyn Fn(&HopC) -> i64, inf_id: &dyn Fn(&InfC) -> i64) -> Value {
    let mut v = json!({
        "sl": after.sl, "ci": after.ci, "ch": after.ch,
        "inf": after.inf.iter().map(|i| json!({"id": inf_id(i), "cd": i.flags & FLAG_CONS_DIR != 0, "sid": i.segid})).collect::<Vec<_>>(),
    });
    if op == Op::Rev {
        v["hop"] = json!(after.hop.iter().map(hop_id).collect::<Vec<_>>());
    } else {
        // every hop field except (possibly) the alert flags of the current one must be untouched
        let cur = before.ch as usize;
        let mut same = after.hop.len() == before.hop.len();
        if same {
            for k in 0..after.hop.len() {
                let (a, b) = (&after.hop[k], &before.hop[k]);
                if k == cur {
                    same &= a.exp == b.exp && a.cin == b.cin && a.ceg == b.ceg && a.mac == b.mac && (a.flags & !3) == (b.flags & !3);
                } else {
                    same &= a == b;
                }
            }
        }
        // info fields: only SegID may change (checked through "inf"), flags/ts must not
        for (a, b) in after.inf.iter().zip(before.inf.iter()) {
            same &= a.flags == b.flags && a.ts == b.ts && a.rsv == b.rsv;
        }
        v["hopsame"] = json!(same);
        if cur < after.hop.len() {
            v["curai"] = json!(after.hop[cur].flags & HF_INGRESS_ALERT != 0);
            v["curae"] = json!(after.hop[cur].flags & HF_EGRESS_ALERT != 0);
        } else {
            v["curai"] = json!(false);
            v["curae"] = json!(false);
        }
    }
    v
}
