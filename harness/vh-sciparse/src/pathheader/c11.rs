//! C11: hop-field authentication and per-AS advance.
//!
//!  * `replay_cell`: one TLC cell of MC_PathAdvance (header state) x {advance_ingress(internal),
//!    advance_ingress(external), advance_egress} x 4 validator scripts on the real StandardPathView.
//!  * `replay_walk`: one TLC journey of PathWalk: an authentic path is built with REAL AES-CMAC and
//!    per-AS keys exactly as the specification's beaconing rule says (the CMAC here is computed
//!    with the aes/cmac crates directly, not through sciparse), walked AS by AS with
//!    sciparse's HopMacValidator, reversed, walked back; for a tampered journey EVERY single-bit
//!    flip of the tampered field is tried.
#![allow(dead_code)]
use aes::Aes128;
use cmac::{Cmac, Mac};
use sciparse::{
    core::{convert::ToModel, encode::WireEncode, view::View},
    dataplane_path::{model::DpPath, onehop::{model::OneHopPath, view::OneHopPathView}},
    dataplane_path::standard::{
        routing::{EgressValidateResult, HopMacValidator, IngressAdvanceAction, IngressValidateResult},
        view::StandardPathView,
    },
};
use serde_json::{Value, json};
use vh_core::{Rng, catch};

use crate::{adv::*, common::*};

// ------------------------------------------------------------------------------------------------
// independent hop MAC (SCION: AES-CMAC over 0,0|beta|ts|0|exp|in|eg|0,0, first 6 bytes)
// ------------------------------------------------------------------------------------------------
pub fn hop_mac(key: &[u8; 16], beta: u16, ts: u32, exp: u8, cin: u16, ceg: u16) -> [u8; 6] {
    let mut d = [0u8; 16];
    d[2..4].copy_from_slice(&beta.to_be_bytes());
    d[4..8].copy_from_slice(&ts.to_be_bytes());
    d[9] = exp;
    d[10..12].copy_from_slice(&cin.to_be_bytes());
    d[12..14].copy_from_slice(&ceg.to_be_bytes());
    let mut m = <Cmac<Aes128> as Mac>::new_from_slice(key).expect("key size");
    m.update(&d);
    let out = m.finalize().into_bytes();
    [out[0], out[1], out[2], out[3], out[4], out[5]]
}
pub fn as_key(a: usize, salt: u64) -> [u8; 16] {
    let mut r = Rng::new(0xA5A5_0000 + a as u64 * 7919 + salt);
    let b = r.bytes(16);
    b.try_into().unwrap()
}

// ------------------------------------------------------------------------------------------------
// API cells
// ------------------------------------------------------------------------------------------------
const SCRIPTS: [Script; 4] = [
    Script { cur: true, seg: true, nxt: true },
    Script { cur: false, seg: true, nxt: true },
    Script { cur: true, seg: false, nxt: true },
    Script { cur: true, seg: true, nxt: false },
];

fn spec_err_class(c: &str) -> &str {
    match c {
        "hop_oob" | "final_hop" => "hop_oob",
        "single_hop_segment" | "segment_end" => "invalid_state",
        x => x,
    }
}

fn sorted(v: &Value) -> Vec<i64> {
    let mut x: Vec<i64> = v.as_array().map(|a| a.iter().map(|y| y.as_i64().unwrap_or(-1)).collect()).unwrap_or_default();
    x.sort();
    x
}

pub fn cell_header(cell: &Value) -> HdrC {
    let sl = jarr_u(&cell["sl"]);
    let cd = jarr_b(&cell["cd"]);
    let al = cell["al"].as_bool().unwrap_or(false);
    let tot: u64 = sl.iter().sum();
    HdrC {
        ci: cell["ci"].as_u64().unwrap() as u8,
        ch: cell["ch"].as_u64().unwrap() as u8,
        rsv: 0,
        sl: [sl[0] as u8, sl[1] as u8, sl[2] as u8],
        inf: (0..cd.len())
            .map(|j| {
                let mut i = small_inf(j as u32 + 1, cd[j], 1000 * (j as u32 + 1), &[]);
                if cell["pf"].as_bool().unwrap_or(false) {
                    i.flags |= FLAG_PEER;
                }
                i
            })
            .collect(),
        hop: (0..tot as usize).map(|k| small_hop(k as u32 + 1, 10 + k as u8 + 1, al, al)).collect(),
    }
}

pub fn replay_cell(cell: &Value) -> Value {
    let h = cell_header(cell);
    let b0 = h.bytes();
    let mut pvs: Vec<Value> = Vec::new();
    let mut mis: Vec<Value> = Vec::new();
    let mut outcomes = serde_json::Map::new();
    if StandardPathView::try_from_slice(&b0).is_err() {
        return json!({"conf": false, "mis": [{"field": "constructor", "spec": "accepts", "real": "rejects"}], "pv": [], "outcomes": {}});
    }
    for op in [Op::IngInt, Op::IngExt, Op::Egr] {
        let spec = &cell[op.name()];
        for (si, script) in SCRIPTS.iter().enumerate() {
            let mut b = b0.clone();
            let out = apply(op, &mut b, *script);
            pvs.extend(call_monitors(op, &b0, &b, &out));
            if out.k == "panic" {
                continue;
            }
            let mut cmp = |name: String, s: Value, r: Value| {
                if s != r {
                    mis.push(json!({"field": format!("{}[{}].{}", op.name(), si, name), "spec": s, "real": r}));
                }
            };
            if spec["k"] == "err" {
                cmp("k".into(), json!("err"), json!(out.k));
                if si == 0 && out.k == "err" {
                    cmp("cls".into(), json!(spec_err_class(spec["cls"].as_str().unwrap_or(""))), json!(out.cls));
                }
                continue;
            }
            let ss = &spec["scripts"][si];
            cmp("k".into(), ss["k"].clone(), json!(out.k));
            cmp("ncalls".into(), ss["ncalls"].clone(), json!(out.calls.len()));
            if si == 0 {
                outcomes.insert(op.name().into(), json!(format!("{}:{}", out.k, out.act)));
                cmp("act".into(), spec["act"].clone(), json!(out.act));
                cmp("eif".into(), spec["eif"].clone(), json!(out.eif));
                if op != Op::Egr {
                    cmp("iif".into(), spec["iif"].clone(), json!(out.iif));
                }
                cmp("alert".into(), spec["alert"].clone(), json!(out.alert));
                if let Some(a) = HdrC::parse(&b) {
                    cmp("ci".into(), spec["ci"].clone(), json!(a.ci));
                    cmp("ch".into(), spec["ch"].clone(), json!(a.ch));
                    let real_sid: Vec<Value> = a.inf.iter().map(|i| json!(small_inf_acc(i))).collect();
                    let spec_sid: Vec<Value> = spec["sid"].as_array().map(|x| x.iter().map(|s| json!(sorted(s))).collect()).unwrap_or_default();
                    cmp("sid".into(), json!(spec_sid), json!(real_sid));
                    cmp("ai".into(), spec["ai"].clone(), json!(a.hop.iter().map(|x| x.flags & HF_INGRESS_ALERT != 0).collect::<Vec<_>>()));
                    cmp("ae".into(), spec["ae"].clone(), json!(a.hop.iter().map(|x| x.flags & HF_EGRESS_ALERT != 0).collect::<Vec<_>>()));
                    // nothing else may change: same labels everywhere
                    let mut rest_same = a.sl == h.sl && a.inf.len() == h.inf.len() && a.hop.len() == h.hop.len();
                    if rest_same {
                        for (x, y) in a.inf.iter().zip(h.inf.iter()) {
                            rest_same &= x.flags == y.flags && x.ts == y.ts && small_inf_id(x) == small_inf_id(y);
                        }
                        for (x, y) in a.hop.iter().zip(h.hop.iter()) {
                            rest_same &= x.exp == y.exp && x.cin == y.cin && x.ceg == y.ceg && x.mac == y.mac;
                        }
                    }
                    cmp("rest_unchanged".into(), json!(true), json!(rest_same));
                }
                // what the validator was shown
                let real_calls: Vec<Value> = out
                    .calls
                    .iter()
                    .map(|c| {
                        let sid = c["sid"].as_u64().unwrap_or(0) as u16;
                        json!({"f": c["f"], "idx": c["idx"], "start": c["start"], "end": c["end"],
                               "sid": small_inf_acc(&InfC{flags:0,rsv:0,segid:sid,ts:0})})
                    })
                    .collect();
                let spec_calls: Vec<Value> = spec["calls"]
                    .as_array()
                    .map(|x| x.iter().map(|c| json!({"f": c["f"], "idx": c["idx"], "start": c["start"], "end": c["end"], "sid": sorted(&c["sid"])})).collect())
                    .unwrap_or_default();
                cmp("calls".into(), json!(spec_calls), json!(real_calls));
            }
        }
        if spec["k"] == "err" {
            outcomes.insert(op.name().into(), json!(format!("err:{}", spec["cls"].as_str().unwrap_or(""))));
        }
    }
    json!({"conf": mis.is_empty(), "mis": mis, "pv": pvs, "outcomes": outcomes, "hdr": hex(&b0[..4])})
}

// ------------------------------------------------------------------------------------------------
// authentic journeys
// ------------------------------------------------------------------------------------------------
#[derive(Clone, Debug)]
pub struct Piece {
    pub n: usize,
    pub cd: bool,
    /// peering segment: its junction-side hop field is a peer hop field (construction position 1)
    pub peer: bool,
}
pub fn pieces_of(v: &Value) -> Vec<Piece> {
    v.as_array()
        .map(|a| a.iter().map(|p| Piece { n: p["n"].as_u64().unwrap_or(0) as usize, cd: p["cd"].as_bool().unwrap_or(false), peer: p["peer"].as_bool().unwrap_or(false) }).collect())
        .unwrap_or_default()
}
pub fn is_peering(pieces: &[Piece]) -> bool {
    pieces.len() == 2 && pieces[0].peer
}
pub struct Journey {
    pub hdr: HdrC,
    /// AS index (1-based along the journey) owning each hop field (travel order)
    pub as_of_hop: Vec<usize>,
    pub nas: usize,
    pub salt: u64,
}

/// Beacon the pieces per the specification's chain rule and assemble the header.
/// `ifbase`: interface numbering as in PathWalk.tla when `spec_labels`, else random.
pub fn build_authentic(pieces: &[Piece], salt: u64, rng: &mut Rng, spec_labels: bool, ts0: u32) -> Journey {
    let total: usize = pieces.iter().map(|p| p.n).sum();
    let mut as_of_hop = Vec::with_capacity(total);
    let mut off = 0usize;
    // on a peering path the two peer hop fields belong to different ASes: no shared crossover AS
    let peering = is_peering(pieces);
    for (k, p) in pieces.iter().enumerate() {
        for t in 1..=p.n {
            as_of_hop.push(off - if peering { 0 } else { k } + t);
        }
        off += p.n;
    }
    let nas = total - if peering { 0 } else { pieces.len() - 1 };
    let mut inf = Vec::new();
    let mut hop: Vec<HopC> = Vec::new();
    let mut g0 = 0usize;
    for (k, p) in pieces.iter().enumerate() {
        let ts: u32 = ts0 + 1000 * (k as u32 + 1);
        let segid0: u16 = rng.below(65536) as u16;
        // construction order c = 1..n ; travel position t = c (cd) or n+1-c
        let mut beta = segid0;
        let mut betas = Vec::new();
        let mut entries: Vec<HopC> = Vec::new();
        let peer_if: u16 = if spec_labels { 900 + k as u16 + 1 } else { rng.range(1, 65535) as u16 };
        for c in 1..=p.n {
            let t = if p.cd { c } else { p.n + 1 - c };
            let a = as_of_hop[g0 + t - 1];
            let (cin, ceg, exp) = if spec_labels {
                ((10 * (k + 1) + c) as u16, (100 + 10 * (k + 1) + c) as u16, (60 + c) as u8)
            } else {
                (if c == 1 { 0 } else { rng.range(1, 65535) as u16 }, if c == p.n { 0 } else { rng.range(1, 65535) as u16 }, rng.below(256) as u8)
            };
            // the regular hop MAC always feeds the chain; a peer entry (construction position 1 of a
            // peering segment) is MACed under the accumulator AFTER the AS's regular hop field
            let mac = hop_mac(&as_key(a, salt), beta, ts, exp, cin, ceg);
            betas.push(beta);
            let next_beta = beta ^ u16::from_be_bytes([mac[0], mac[1]]);
            if p.peer && c == 1 {
                let pexp = if spec_labels { 61 } else { exp };
                let pmac = hop_mac(&as_key(a, salt), next_beta, ts, pexp, peer_if, ceg);
                entries.push(HopC { flags: 0, exp: pexp, cin: peer_if, ceg, mac: pmac });
            } else {
                entries.push(HopC { flags: 0, exp, cin, ceg, mac });
            }
            beta = next_beta;
        }
        betas.push(beta);
        let segid = if p.peer {
            if p.cd || p.n == 1 { betas[1] } else { betas[p.n - 1] }
        } else if p.cd {
            betas[0]
        } else {
            betas[p.n - 1]
        };
        inf.push(InfC { flags: (if p.cd { FLAG_CONS_DIR } else { 0 }) | (if p.peer { FLAG_PEER } else { 0 }), rsv: 0, segid, ts });
        if p.cd {
            hop.extend(entries);
        } else {
            hop.extend(entries.into_iter().rev());
        }
        g0 += p.n;
    }
    let mut sl = [0u8; 3];
    for (k, p) in pieces.iter().enumerate() {
        sl[k] = p.n as u8;
    }
    Journey { hdr: HdrC { ci: 0, ch: 0, rsv: 0, sl, inf, hop }, as_of_hop, nas, salt }
}

pub struct WalkStep {
    pub a: usize,
    pub op: &'static str,
    pub k: String,
    pub act: String,
    pub ci: u8,
    pub ch: u8,
}
pub struct WalkResult {
    pub steps: Vec<WalkStep>,
    /// "delivered" | "failed" | "panic" | "runaway"
    pub outcome: String,
    pub failed_at: usize,
    pub pv: Vec<Value>,
}

/// Walk the path in `buf` AS by AS with sciparse's HopMacValidator and the key of each AS.
/// `order`: the AS indices in travel order.
pub fn walk(buf: &mut Vec<u8>, order: &[usize], salt: u64) -> WalkResult {
    let mut res = WalkResult { steps: vec![], outcome: "runaway".into(), failed_at: 0, pv: vec![] };
    let total = HdrC::parse(buf).map(|h| h.total()).unwrap_or(0);
    let mut forwarded = 0usize;
    for (i, a) in order.iter().enumerate() {
        let key = as_key(*a, salt);
        let before = buf.clone();
        let ch_as0 = before[0] & 0x3f;
        // ingress
        let r = catch(|| {
            let (v, _) = StandardPathView::try_from_mut_slice(buf).unwrap();
            match v.advance_ingress_with_validator(HopMacValidator { key }, i == 0) {
                Err(_) => ("err".to_string(), "none".to_string()),
                Ok(res) => {
                    let (k, o) = match res {
                        IngressValidateResult::Ok(o) => ("ok", o),
                        IngressValidateResult::ValidationFailed(o, _) => ("vfail", o),
                    };
                    (k.to_string(), match o.action {
                        IngressAdvanceAction::ForwardLocal => "local".to_string(),
                        IngressAdvanceAction::ContinueEgress { .. } => "egress".to_string(),
                    })
                }
            }
        });
        let opn = if i == 0 { "ing_int" } else { "ing_ext" };
        let (k, act) = match r {
            Ok(x) => x,
            Err(msg) => {
                res.pv.push(pv("Panic:advance_ingress:walk", format!("{msg} at AS {a}")));
                res.outcome = "panic".into();
                res.failed_at = *a;
                return res;
            }
        };
        let co = CallOut { k: k.clone(), cls: String::new(), act: act.clone(), eif: 0, iif: 0, alert: false, calls: vec![], msg: String::new() };
        res.pv.extend(call_monitors(if i == 0 { Op::IngInt } else { Op::IngExt }, &before, buf, &co));
        let hp = HdrC::parse_or_meta(buf);
        res.steps.push(WalkStep { a: *a, op: opn, k: k.clone(), act: act.clone(), ci: hp.ci, ch: hp.ch });
        if k != "ok" {
            res.outcome = "failed".into();
            res.failed_at = *a;
            return res;
        }
        if act == "local" {
            res.outcome = "delivered".into();
            return res;
        }
        // egress
        let before = buf.clone();
        let r = catch(|| {
            let (v, _) = StandardPathView::try_from_mut_slice(buf).unwrap();
            match v.advance_egress_with_validator(HopMacValidator { key }) {
                Err(_) => "err".to_string(),
                Ok(EgressValidateResult::Ok(_)) => "ok".to_string(),
                Ok(EgressValidateResult::ValidationFailed(..)) => "vfail".to_string(),
            }
        });
        let k = match r {
            Ok(x) => x,
            Err(msg) => {
                res.pv.push(pv("Panic:advance_egress:walk", format!("{msg} at AS {a}")));
                res.outcome = "panic".into();
                res.failed_at = *a;
                return res;
            }
        };
        let co = CallOut { k: k.clone(), cls: String::new(), act: "egress".into(), eif: 0, iif: 0, alert: false, calls: vec![], msg: String::new() };
        res.pv.extend(call_monitors(Op::Egr, &before, buf, &co));
        let hp = HdrC::parse_or_meta(buf);
        res.steps.push(WalkStep { a: *a, op: "egr", k: k.clone(), act: "egress".into(), ci: hp.ci, ch: hp.ch });
        if k != "ok" {
            res.outcome = "failed".into();
            res.failed_at = *a;
            return res;
        }
        // C11 Monotone at the AS level: a forwarded AS step strictly increases CurrHF
        if hp.ch <= ch_as0 {
            res.pv.push(pv("Monotone:walk:AS-step-without-progress", format!("AS {a} forwarded the packet but CurrHF went from {ch_as0} to {}", hp.ch)));
            return res;
        }
        forwarded += 1;
        if forwarded > total {
            res.pv.push(pv("Monotone:walk:more-AS-steps-than-hop-fields", format!("{forwarded} forwarded AS steps on a path with {total} hop fields")));
            return res;
        }
    }
    res
}

fn steps_json(s: &[WalkStep]) -> Vec<Value> {
    s.iter().map(|x| json!({"as": x.a, "op": x.op, "k": x.k, "act": x.act, "ci": x.ci, "ch": x.ch})).collect()
}

fn cd_class(pieces: &[Piece]) -> String {
    let s: String = pieces.iter().map(|p| if p.cd { 'c' } else { 'r' }).collect();
    if is_peering(pieces) { format!("peering-{s}") } else { s }
}

/// bit positions (byte offset in the raw header, bit) of an authenticated field
pub fn field_bits(h: &HdrC, f: &str, at: usize) -> Vec<(usize, u8)> {
    let ninf = h.ninf();
    let hop_off = |g: usize| 4 + 8 * ninf + 12 * (g - 1);
    let inf_off = |k: usize| 4 + 8 * (k - 1);
    let (start, len) = match f {
        "exp" => (hop_off(at) + 1, 1),
        "in" => (hop_off(at) + 2, 2),
        "eg" => (hop_off(at) + 4, 2),
        "mac" => (hop_off(at) + 6, 6),
        "sid" => (inf_off(at) + 2, 2),
        "ts" => (inf_off(at) + 4, 4),
        _ => (0, 0),
    };
    let mut v = Vec::new();
    for o in start..start + len {
        for b in 0..8 {
            v.push((o, b));
        }
    }
    v
}

pub fn replay_walk(case: &Value) -> Value {
    let pieces: Vec<Piece> = pieces_of(&case["pieces"]);
    let tf = case["tamper"]["f"].as_str().unwrap_or("none").to_string();
    let at = case["tamper"]["at"].as_u64().unwrap_or(0) as usize;
    let owner = case["owner"].as_u64().unwrap_or(0) as usize;
    let mut rng = Rng::new(vh_core::seed_from_env() ^ 0x77);
    let salt = 1;
    let j = build_authentic(&pieces, salt, &mut rng, true, 1_700_000_000);
    let fwd: Vec<usize> = (1..=j.nas).collect();
    let back: Vec<usize> = (1..=j.nas).rev().collect();
    let mut pvs = Vec::new();
    let mut mis = Vec::new();
    let cls = cd_class(&pieces);
    let spec_walk = case["walk"].as_array().cloned().unwrap_or_default();
    let mut flips = 0u64;
    if tf == "none" {
        let mut buf = j.hdr.bytes();
        let w1 = walk(&mut buf, &fwd, salt);
        pvs.extend(w1.pv.iter().cloned());
        let mut real = steps_json(&w1.steps);
        if w1.outcome != "delivered" && is_peering(&pieces) {
            // narrowly keyed: the advance API has no peering support (PEERING flag ignored)
            pvs.push(pv("AuthenticRejected:peering:advance-ignores-PEERING-flag", format!("authentic PEERING path (pieces {:?}) was rejected at AS {} going forward ({}): advance_ingress/advance_egress ignore the PEERING flag (peer hop field MACed under beta_i+1, no SegID update, segment change at egress)", pieces, w1.failed_at, w1.outcome)));
        } else if w1.outcome != "delivered" {
            pvs.push(pv(format!("AuthenticRejected:forward:{cls}"), format!("authentic path (pieces {:?}) was rejected at AS {} going forward ({})", pieces, w1.failed_at, w1.outcome)));
        } else {
            let rv = catch(|| StandardPathView::try_from_mut_slice(&mut buf).unwrap().0.try_reverse().is_ok());
            let hp = HdrC::parse_or_meta(&buf);
            real.push(json!({"as": j.nas, "op": "rev", "k": if rv == Ok(true) { "ok" } else { "err" }, "act": "none", "ci": hp.ci, "ch": hp.ch}));
            if rv != Ok(true) {
                pvs.push(pv(format!("AuthenticRejected:reverse:{cls}"), "try_reverse failed on a delivered authentic path"));
            } else {
                let w2 = walk(&mut buf, &back, salt);
                pvs.extend(w2.pv.iter().cloned());
                real.extend(steps_json(&w2.steps));
                if w2.outcome != "delivered" {
                    pvs.push(pv(format!("AuthenticRejected:backward:{cls}"), format!("reversed authentic path (pieces {:?}) was rejected at AS {} ({})", pieces, w2.failed_at, w2.outcome)));
                }
            }
        }
        if json!(real) != json!(spec_walk) {
            let i = real.iter().zip(spec_walk.iter()).position(|(a, b)| a != b).unwrap_or(real.len().min(spec_walk.len()));
            mis.push(json!({"field": format!("walk[{i}]"), "spec": spec_walk.get(i), "real": real.get(i)}));
        }
    } else {
        let spec_fail = case["failed_at"].as_u64().unwrap_or(0) as usize;
        for (o, b) in field_bits(&j.hdr, &tf, at) {
            let mut buf = j.hdr.bytes();
            buf[o] ^= 1 << b;
            flips += 1;
            let w = walk(&mut buf, &fwd, salt);
            pvs.extend(w.pv.iter().cloned());
            if w.outcome == "delivered" {
                pvs.push(pv(format!("TamperUndetected:{tf}"), format!("bit {b} of byte {o} ({tf} of {} {at}) flipped on authentic path {:?}: delivered at the destination", if tf == "ts" || tf == "sid" { "segment" } else { "hop field" }, pieces)));
            } else if w.failed_at > owner {
                pvs.push(pv(format!("TamperDetectedLate:{tf}"), format!("bit {b} of byte {o} ({tf} at {at}) flipped on authentic path {:?}: first failure at AS {} but the owner is AS {owner}", pieces, w.failed_at)));
            }
            if w.failed_at != spec_fail || w.outcome != "failed" {
                if mis.len() < 3 {
                    mis.push(json!({"field": format!("failed_at(bit {o}.{b})"), "spec": spec_fail, "real": w.failed_at}));
                }
            }
        }
    }
    json!({"conf": mis.is_empty(), "mis": mis, "pv": pvs, "flips": flips, "cls": cls})
}

/// Every PAIR of authenticated bits of one small authentic path flipped together
/// (C11: "all single- and double-bit corruptions").  P: detected no later than at the later owner.
pub fn replay_double(case: &Value) -> Value {
    let pieces: Vec<Piece> = pieces_of(&case["pieces"]);
    let mut rng = Rng::new(vh_core::seed_from_env() ^ 0x99);
    let salt = 2;
    let j = build_authentic(&pieces, salt, &mut rng, true, 1_700_000_000);
    let fwd: Vec<usize> = (1..=j.nas).collect();
    let mut bits: Vec<(usize, u8, usize)> = Vec::new();
    for g in 1..=j.hdr.hop.len() {
        for f in ["exp", "in", "eg", "mac"] {
            for (o, b) in field_bits(&j.hdr, f, g) {
                bits.push((o, b, j.as_of_hop[g - 1]));
            }
        }
    }
    let mut first = 0usize;
    for (k, p) in pieces.iter().enumerate() {
        for f in ["sid", "ts"] {
            for (o, b) in field_bits(&j.hdr, f, k + 1) {
                bits.push((o, b, j.as_of_hop[first]));
            }
        }
        first += p.n;
    }
    let base = j.hdr.bytes();
    let mut pvs = Vec::new();
    let mut mis = Vec::new();
    let mut pairs = 0u64;
    let mut early = 0u64;
    for a in 0..bits.len() {
        for b in a + 1..bits.len() {
            let mut buf = base.clone();
            buf[bits[a].0] ^= 1 << bits[a].1;
            buf[bits[b].0] ^= 1 << bits[b].1;
            pairs += 1;
            let w = walk(&mut buf, &fwd, salt);
            if pvs.len() < 8 {
                pvs.extend(w.pv.iter().cloned());
            }
            let later = bits[a].2.max(bits[b].2);
            let earlier = bits[a].2.min(bits[b].2);
            if w.outcome == "delivered" {
                pvs.push(pv("TamperUndetected:double-flip", format!("bits {}.{} and {}.{} flipped on authentic path {:?}: delivered", bits[a].0, bits[a].1, bits[b].0, bits[b].1, pieces)));
            } else if w.failed_at > later {
                pvs.push(pv("TamperDetectedLate:double-flip", format!("bits {}.{} and {}.{} flipped on {:?}: first failure at AS {}, owners {} and {}", bits[a].0, bits[a].1, bits[b].0, bits[b].1, pieces, w.failed_at, bits[a].2, bits[b].2)));
            } else if w.failed_at != earlier {
                early += 1;
                if mis.len() < 2 {
                    mis.push(json!({"field": format!("failed_at(bits {}.{} + {}.{})", bits[a].0, bits[a].1, bits[b].0, bits[b].1), "spec": earlier, "real": w.failed_at}));
                }
            }
            if pvs.len() > 50 {
                break;
            }
        }
    }
    json!({"conf": mis.is_empty(), "mis": mis, "pv": pvs, "flips": pairs, "not_at_earlier_owner": early, "cls": cd_class(&pieces)})
}

/// One-hop journey (PathWalk!OneHopVerifies): AS 1 originates a one-hop path, the SegID is
/// advanced at its egress, AS 2 fills the second hop field, the reply travels over the reversed
/// standard path and must verify at AS 2 and AS 1 with their keys.
pub fn replay_onehop_journey(case: &Value) -> Value {
    let salt = 3;
    let (k1, k2) = (as_key(1, salt), as_key(2, salt));
    let segid = case["segid"].as_u64().unwrap_or(0x1234) as u16;
    let ts: u32 = 1_700_000_000;
    let exp = case["exp"].as_u64().unwrap_or(63) as u8;
    let (eg, ing) = (11u16, 22u16);
    let mut pvs = Vec::new();
    let mut mis = Vec::new();
    let r = catch(|| {
        let m = OneHopPath::new(eg, segid, ts, k1, exp);
        let mut bytes = m.try_encode_to_vec().unwrap_or_default();
        // the originator's hop field must carry the MAC the specification prescribes
        let want1 = hop_mac(&k1, segid, ts, exp, 0, eg);
        let mac1_ok = bytes.len() == 32 && bytes[14..20] == want1;
        // AS 1 egress: SegID advanced (construction direction)
        if bytes.len() == 32 {
            let b2 = segid ^ u16::from_be_bytes([bytes[14], bytes[15]]);
            bytes[2..4].copy_from_slice(&b2.to_be_bytes());
        }
        let (v, _) = OneHopPathView::try_from_mut_slice(&mut bytes).unwrap();
        v.set_second_hop(ing, k2, true);
        let mut dp = DpPath::OneHop(v.to_model());
        let rev_ok = dp.try_reverse().is_ok();
        let std_bytes = match &dp {
            DpPath::Standard(sp) => sp.try_encode_to_vec().ok(),
            _ => None,
        };
        (mac1_ok, rev_ok, std_bytes)
    });
    match r {
        Err(msg) => pvs.push(pv("Panic:onehop-journey", msg)),
        Ok((mac1_ok, rev_ok, std_bytes)) => {
            if !mac1_ok {
                pvs.push(pv("AuthenticRejected:onehop:first-hop-mac", "OneHopPath::new does not MAC the first hop field over (SegID, timestamp, exp, 0, egress) with the given key"));
            }
            match (rev_ok, std_bytes) {
                (true, Some(mut b)) => {
                    let w = walk(&mut b, &[2, 1], salt);
                    pvs.extend(w.pv.iter().cloned());
                    if w.outcome != "delivered" {
                        pvs.push(pv("AuthenticRejected:onehop:reply", format!("the reversed one-hop path was rejected at AS {} ({})", w.failed_at, w.outcome)));
                    }
                    let real: Vec<String> = w.steps.iter().map(|x| format!("{}:{}:{}", x.a, x.op, x.k)).collect();
                    let spec = vec!["2:ing_int:ok".to_string(), "2:egr:ok".to_string(), "1:ing_ext:ok".to_string()];
                    if real != spec {
                        mis.push(json!({"field": "walk", "spec": spec, "real": real}));
                    }
                }
                _ => pvs.push(pv("AuthenticRejected:onehop:reverse", "DpPath::try_reverse failed on a completed one-hop path")),
            }
        }
    }
    json!({"conf": mis.is_empty(), "mis": mis, "pv": pvs, "flips": 0, "cls": "onehop"})
}
