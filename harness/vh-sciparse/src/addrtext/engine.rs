//! Shared engine of the C15 (AddrText) harness binaries.
//!
//! * `lex` / `Facts`: the fixed lexer and leaf-fact table of spec/AddrText/AddrText.tla.  Leaf facts
//!   are decided by Rust std (`u16/u64::from_str`, `u16::from_str_radix`, `Ipv4Addr/Ipv6Addr::from_str`)
//!   and by this file's own service-name table; the STRUCTURE is decided by the TLA+ specification.
//! * `replay`: TLC-enumerated token strings (classes) are concretised with several literals per
//!   class, given to the real parsers, and compared with the expected verdict/value printed by TLC.
//!   Every disagreement (and a sample of agreements) is written as a trace line so that TLC decides
//!   the verdict again from the facts of the concrete string (Trace_AddrText).
//! * `record`: displayed forms of boundary + seeded random values, all single-character edits of them,
//!   all short strings; real outcomes are written as trace lines for Trace_AddrText.
//!
//! A panic of the code under test is data (`Out::Panic`).
#![allow(dead_code)]
use std::collections::{BTreeMap, BTreeSet};
use std::net::{Ipv4Addr, Ipv6Addr};
use std::str::FromStr;

use serde_json::{Value, json};
use vh_core::{NdjsonWriter, Rng};

// ------------------------------------------------------------------------------------------
// values
// ------------------------------------------------------------------------------------------
#[derive(Clone, Debug, PartialEq, Eq)]
pub enum HostV {
    V4(u32),
    V6(u128),
    Svc(u16),
    /// interface part of a hop predicate (policy language): none, `#a`, `#a,b`
    IfAny,
    If1(u16),
    If2(u16, u16),
}

#[derive(Clone, Debug, PartialEq, Eq, Default)]
pub struct Val {
    pub isd: Option<u16>,
    pub asn: Option<u64>,
    pub host: Option<HostV>,
    pub port: Option<u16>,
    pub list: Vec<Val>,
}

fn groups16(mut x: u128, n: usize) -> Vec<u64> {
    let mut v = vec![0u64; n];
    for i in (0..n).rev() {
        v[i] = (x & 0xffff) as u64;
        x >>= 16;
    }
    v
}

impl Val {
    /// numeric form compared by Trace_AddrText (all numbers are 16-bit groups)
    pub fn to_json(&self) -> Value {
        let (hk, hg): (&str, Vec<u64>) = match &self.host {
            None => ("", vec![]),
            Some(HostV::V4(a)) => ("v4", groups16(*a as u128, 2)),
            Some(HostV::V6(a)) => ("v6", groups16(*a, 8)),
            Some(HostV::Svc(a)) => ("svc", vec![*a as u64]),
            Some(HostV::IfAny) => ("ifany", vec![]),
            Some(HostV::If1(a)) => ("if1", vec![*a as u64]),
            Some(HostV::If2(a, b)) => ("if2", vec![*a as u64, *b as u64]),
        };
        json!({
            "isd": self.isd.map(|x| vec![x as u64]).unwrap_or_default(),
            "as": self.asn.map(|x| groups16(x as u128, 3)).unwrap_or_default(),
            "hk": hk, "hg": hg,
            "port": self.port.map(|x| vec![x as u64]).unwrap_or_default(),
            "list": self.list.iter().map(|v| v.to_json()).collect::<Vec<_>>(),
        })
    }
}

#[derive(Clone, Debug, PartialEq, Eq)]
pub enum Out {
    Acc(Val),
    Rej,
    Panic(String),
}
impl Out {
    pub fn o(&self) -> &'static str {
        match self {
            Out::Acc(_) => "acc",
            Out::Rej => "rej",
            Out::Panic(_) => "panic",
        }
    }
    pub fn to_json(&self) -> Value {
        match self {
            Out::Acc(v) => json!({"o": "acc", "v": v.to_json()}),
            Out::Rej => json!({"o": "rej", "v": Val::default().to_json()}),
            Out::Panic(m) => json!({"o": "panic", "v": Val::default().to_json(), "msg": m}),
        }
    }
}

/// The code under test, per target type name of the specification.
pub trait Target {
    fn types(&self) -> Vec<&'static str>;
    /// all string entry points of the type (FromStr, serde string form, ...): (entry name, outcome)
    fn parse(&self, ty: &str, s: &str) -> Vec<(&'static str, Out)>;
    /// displayed forms of boundary + random values: (class tag, displayed text, value)
    fn shown(&self, ty: &str, rng: &mut Rng, nrand: usize) -> Vec<(String, String, Val)>;
}

// ------------------------------------------------------------------------------------------
// lexer and leaf facts
// ------------------------------------------------------------------------------------------
#[derive(Clone, Debug, PartialEq, Eq)]
pub struct Tok {
    pub k: &'static str,
    pub text: String,
}

pub fn lex(s: &str) -> Vec<Tok> {
    let mut out = Vec::new();
    let mut cur = String::new();
    for ch in s.chars() {
        let k = match ch {
            '[' => "lb",
            ']' => "rb",
            ',' => "cm",
            '-' => "ds",
            ':' => "cl",
            ';' => "sc",
            '#' => "hs",
            c if c.is_whitespace() => "ws",
            _ => "",
        };
        if k.is_empty() {
            cur.push(ch);
        } else {
            if !cur.is_empty() {
                out.push(Tok { k: "a", text: std::mem::take(&mut cur) });
            }
            out.push(Tok { k, text: ch.to_string() });
        }
    }
    if !cur.is_empty() {
        out.push(Tok { k: "a", text: cur });
    }
    out
}

#[derive(Clone, Debug, Default, PartialEq, Eq)]
pub struct Facts {
    pub d16: Option<u16>,
    pub d64: Option<u64>,
    pub h16: Option<u16>,
    pub h4: bool,
    pub v4: Option<u32>,
    pub svc: Option<u16>,
    pub pfx: bool,
}

/// the harness's own table of service names (documented: DS CS Wildcard, suffix _A anycast / _M multicast)
fn svc_fact(a: &str) -> Option<u16> {
    let (name, suffix) = match a.find('_') {
        Some(p) => (&a[..p], &a[p..]),
        None => (a, ""),
    };
    let base = match name {
        "DS" => 0x0001u16,
        "CS" => 0x0002,
        "Wildcard" => 0x0010,
        _ => return None,
    };
    match suffix {
        "" | "_A" => Some(base),
        "_M" => Some(base | 0x8000),
        _ => None,
    }
}

pub fn facts(a: &str) -> Facts {
    Facts {
        d16: u16::from_str(a).ok(),
        d64: u64::from_str(a).ok(),
        h16: u16::from_str_radix(a, 16).ok(),
        h4: (1..=4).contains(&a.len()) && a.bytes().all(|b| b.is_ascii_hexdigit()),
        v4: Ipv4Addr::from_str(a).ok().map(|x| x.to_bits()),
        svc: svc_fact(a),
        pfx: a == "scion=v1",
    }
}
impl Facts {
    pub fn d32(&self) -> Option<u32> {
        self.d64.and_then(|x| u32::try_from(x).ok())
    }
    /// presence vector in the order d16 d32 d64 h16 h4 v4 svc pfx
    pub fn vector(&self) -> [bool; 8] {
        [self.d16.is_some(), self.d32().is_some(), self.d64.is_some(), self.h16.is_some(), self.h4, self.v4.is_some(), self.svc.is_some(), self.pfx]
    }
}

pub struct Lexed {
    pub toks: Vec<Tok>,
    pub facts: Vec<Option<Facts>>,
    /// (i, j, value) 1-based inclusive token ranges whose text is an IPv6 literal for std
    pub v6: Vec<(usize, usize, u128)>,
}

pub fn analyse(s: &str) -> Lexed {
    let toks = lex(s);
    let facts: Vec<Option<Facts>> = toks.iter().map(|t| if t.k == "a" { Some(facts(&t.text)) } else { None }).collect();
    let mut v6 = Vec::new();
    let n = toks.len();
    for i in 0..n {
        if !(toks[i].k == "a" || toks[i].k == "cl") {
            continue;
        }
        let mut text = String::new();
        for j in i..n {
            if !(toks[j].k == "a" || toks[j].k == "cl") {
                break;
            }
            text.push_str(&toks[j].text);
            if j > i {
                if let Ok(a) = Ipv6Addr::from_str(&text) {
                    v6.push((i + 1, j + 1, a.to_bits()));
                }
            } else if Ipv6Addr::from_str(&text).is_ok() {
                // a single token can never be an IPv6 literal (it needs two colons): lexer assumption
                eprintln!("lexer assumption violated: single token {text:?} is an IPv6 literal");
                std::process::exit(2);
            }
        }
    }
    Lexed { toks, facts, v6 }
}

impl Lexed {
    pub fn toks_json(&self) -> Value {
        Value::Array(
            self.toks
                .iter()
                .zip(&self.facts)
                .map(|(t, f)| {
                    let mut m = serde_json::Map::new();
                    m.insert("k".into(), json!(t.k));
                    if let Some(f) = f {
                        if let Some(x) = f.d16 {
                            m.insert("d16".into(), json!(x));
                        }
                        if let Some(x) = f.d32() {
                            m.insert("d32".into(), json!([x >> 16, x & 0xffff]));
                        }
                        if f.d64.is_some() {
                            m.insert("d64".into(), json!(1));
                        }
                        if let Some(x) = f.h16 {
                            m.insert("h16".into(), json!(x));
                        }
                        if f.h4 {
                            m.insert("h4".into(), json!(1));
                        }
                        if let Some(x) = f.v4 {
                            m.insert("v4".into(), json!([x >> 16, x & 0xffff]));
                        }
                        if let Some(x) = f.svc {
                            m.insert("svc".into(), json!(x));
                        }
                        if f.pfx {
                            m.insert("pfx".into(), json!(1));
                        }
                    }
                    Value::Object(m)
                })
                .collect(),
        )
    }
    pub fn v6_json(&self) -> Value {
        Value::Array(self.v6.iter().map(|(i, j, a)| json!({"i": i, "j": j, "g": groups16(*a, 8)})).collect())
    }
    /// canonical signature: structural characters as themselves, atoms by fact class
    pub fn signature(&self) -> String {
        let mut s = String::new();
        for (t, f) in self.toks.iter().zip(&self.facts) {
            match t.k {
                "lb" => s.push('['),
                "rb" => s.push(']'),
                "cm" => s.push(','),
                "ds" => s.push('-'),
                "cl" => s.push(':'),
                "sc" => s.push(';'),
                "hs" => s.push('#'),
                "ws" => s.push('_'),
                _ => {
                    let f = f.as_ref().unwrap();
                    s.push(if f.d64.is_some() {
                        'n'
                    } else if f.h16.is_some() {
                        'h'
                    } else if f.v4.is_some() {
                        '4'
                    } else if f.svc.is_some() {
                        's'
                    } else if f.pfx {
                        'p'
                    } else {
                        'j'
                    })
                }
            }
        }
        if s.len() > 60 {
            s.truncate(60);
            s.push('~');
        }
        s
    }
}

// ------------------------------------------------------------------------------------------
// evaluation of the specification's value terms (positions) on a lexed string
// ------------------------------------------------------------------------------------------
fn pos_list(v: &Value, key: &str) -> Vec<usize> {
    v.get(key).and_then(|x| x.as_array()).map(|a| a.iter().filter_map(|x| x.as_u64()).map(|x| x as usize).collect()).unwrap_or_default()
}

/// Err = the term names a leaf that std does not accept at that position (prediction mismatch)
pub fn eval_term(term: &Value, lx: &Lexed) -> Result<Val, String> {
    let fact = |p: usize| -> Result<&Facts, String> { lx.facts.get(p.wrapping_sub(1)).and_then(|f| f.as_ref()).ok_or_else(|| format!("position {p} is not an atom")) };
    let mut v = Val::default();
    let isd = pos_list(term, "isd");
    if let Some(&p) = isd.first() {
        v.isd = Some(fact(p)?.d16.ok_or("isd leaf is not a u16")?);
    }
    let asd = pos_list(term, "asd");
    let ash = pos_list(term, "ash");
    if let Some(&p) = asd.first() {
        v.asn = Some(fact(p)?.d32().ok_or("as leaf is not a decimal below 2^32")? as u64);
    } else if ash.len() == 3 {
        let mut x = 0u64;
        for &p in &ash {
            x = (x << 16) | fact(p)?.h16.ok_or("as group is not hex16")? as u64;
        }
        v.asn = Some(x);
    }
    let hk = term.get("hk").and_then(|x| x.as_str()).unwrap_or("");
    let hp = pos_list(term, "hp");
    match hk {
        "v4" => v.host = Some(HostV::V4(fact(hp[0])?.v4.ok_or("host leaf is not IPv4")?)),
        "svc" => v.host = Some(HostV::Svc(fact(hp[0])?.svc.ok_or("host leaf is not a service")?)),
        "ifany" => v.host = Some(HostV::IfAny),
        "if1" => v.host = Some(HostV::If1(fact(hp[0])?.d16.ok_or("interface leaf is not a u16")?)),
        "if2" => v.host = Some(HostV::If2(fact(hp[0])?.d16.ok_or("interface leaf is not a u16")?, fact(hp[1])?.d16.ok_or("interface leaf is not a u16")?)),
        "v6" => {
            let r = lx.v6.iter().find(|(i, j, _)| *i == hp[0] && *j == hp[1]).ok_or("host range is not IPv6 for std")?;
            v.host = Some(HostV::V6(r.2));
        }
        _ => {}
    }
    if let Some(&p) = pos_list(term, "port").first() {
        v.port = Some(fact(p)?.d16.ok_or("port leaf is not a u16")?);
    }
    if let Some(l) = term.get("list").and_then(|x| x.as_array()) {
        for e in l {
            v.list.push(eval_term(e, lx)?);
        }
    }
    Ok(v)
}

// ------------------------------------------------------------------------------------------
// class alphabet of MC_AddrText: literals and expected fact vectors
// ------------------------------------------------------------------------------------------
pub fn literals(class: &str) -> &'static [&'static str] {
    match class {
        "LB" => &["["],
        "RB" => &["]"],
        "CM" => &[","],
        "DS" => &["-"],
        "CL" => &[":"],
        "SC" => &[";"],
        "HS" => &["#"],
        "WS" => &[" ", "\t", "\u{3000}", "\n", "\u{a0}"],
        "N1" => &["0", "9999", "110", "1", "42"],
        "NP" => &["+7", "00001", "+0", "00042"],
        "N2" => &["65535", "10000", "12345"],
        "N3" => &["65536", "4294967295", "100000"],
        "N4" => &["4294967296", "18446744073709551615"],
        "H1" => &["ff00", "FFFF", "a", "Ab", "fffe"],
        "V4" => &["10.0.0.1", "0.0.0.0", "255.255.255.255"],
        "SVC" => &["CS", "DS_M", "Wildcard", "CS_A", "Wildcard_M", "DS"],
        "PFX" => &["scion=v1"],
        "J" => &[
            "x", "18446744073709551616", "\u{e9}", "\u{1f600}", "0x0", "256.0.0.1", "1.2.3", "cs", "CS_", "scion=v2",
            "\u{663}", "fffff", "1g3", "Scion=v1", "%", "01.2.3.4", "CS_m", "<SVC", "0x0003>", "1.2.3.4.5",
            "99999999999999999999999999", "ffffg", "Wildcard_", "_M",
        ],
        "XN" => &["x1", "y65535", "[1"],
        "V4X" => &["10.0.0.1y", "0.0.0.0]", "1.2.3.4\u{e9}"],
        _ => &[],
    }
}
// note: "[1" and "0.0.0.0]" above can never be produced for an atom class by the lexer; they are
// listed only so that the table is total, and are filtered out by `atom_literals`.
fn atom_literals(class: &str) -> Vec<&'static str> {
    literals(class).iter().copied().filter(|l| lex(l).len() == 1).collect()
}

/// fact vector (d16 d32 d64 h16 h4 v4 svc pfx) of an atom class, as declared in MC_AddrText.tla
pub fn class_vector(class: &str) -> Option<[bool; 8]> {
    let v = |s: &str| -> [bool; 8] {
        let mut a = [false; 8];
        for (i, c) in s.chars().enumerate() {
            a[i] = c == '1';
        }
        a
    };
    Some(match class {
        "N1" => v("11111000"),
        "NP" => v("11110000"),
        "N2" => v("11100000"),
        "N3" => v("01100000"),
        "N4" => v("00100000"),
        "H1" => v("00011000"),
        "V4" => v("00000100"),
        "SVC" => v("00000010"),
        "PFX" => v("00000001"),
        "J" | "XN" | "V4X" => v("00000000"),
        _ => return None,
    })
}
fn class_kind(class: &str) -> &'static str {
    match class {
        "LB" => "lb",
        "RB" => "rb",
        "CM" => "cm",
        "DS" => "ds",
        "CL" => "cl",
        "SC" => "sc",
        "HS" => "hs",
        "WS" => "ws",
        _ => "a",
    }
}

/// self-check of the literal table against std (a wrong table would make replay vacuous)
pub fn check_literal_table() {
    for c in ["N1", "NP", "N2", "N3", "N4", "H1", "V4", "SVC", "PFX", "J", "XN", "V4X"] {
        let want = class_vector(c).unwrap();
        let lits = atom_literals(c);
        if lits.len() < 2 && c != "PFX" {
            eprintln!("class {c} has fewer than 2 usable literals");
            std::process::exit(2);
        }
        for l in lits {
            let got = facts(l).vector();
            if got != want {
                eprintln!("literal {l:?} of class {c} has facts {got:?}, class declares {want:?}");
                std::process::exit(2);
            }
        }
    }
}

// ------------------------------------------------------------------------------------------
// comparison of one real outcome with the specification's expectation
// ------------------------------------------------------------------------------------------
/// one trace event: (line for TLC: tokens + facts + real outcomes, sidecar line for reporting: text)
pub fn trace_line(s: &str, lx: &Lexed, src: &str, chk: &[(String, String, Out)]) -> (Value, Value) {
    let tl = json!({
        "ev": "parse", "src": src, "sig": lx.signature(),
        "toks": lx.toks_json(), "v6": lx.v6_json(),
        "chk": chk.iter().map(|(t, e, o)| { let mut j = o.to_json(); j.as_object_mut().unwrap().remove("msg"); j["T"] = json!(t); j["e"] = json!(e); j }).collect::<Vec<_>>(),
    });
    let side = json!({"text": s, "src": src,
        "msgs": chk.iter().filter_map(|(t, e, o)| if let Out::Panic(m) = o { Some(json!({"T": t, "e": e, "msg": m})) } else { None }).collect::<Vec<_>>()});
    (tl, side)
}

pub struct TraceOut {
    tlc: NdjsonWriter,
    side: NdjsonWriter,
    pub lines: u64,
}
impl TraceOut {
    pub fn create(path: &str) -> Self {
        let mut t = TraceOut { tlc: NdjsonWriter::create(path), side: NdjsonWriter::create(&format!("{path}.side")), lines: 0 };
        // line 1 of both files is a meta line, so that line numbers agree
        t.tlc.write(&json!({"ev": "meta", "spec": "AddrText"}));
        t.side.write(&json!({"ev": "meta"}));
        t
    }
    pub fn write(&mut self, l: (Value, Value)) {
        self.tlc.write(&l.0);
        self.side.write(&l.1);
        self.lines += 1;
    }
    pub fn finish(self) {
        self.tlc.finish();
        self.side.finish();
    }
}

// ------------------------------------------------------------------------------------------
// replay: TLC cases -> real parsers
// ------------------------------------------------------------------------------------------
pub fn replay(t: &dyn Target, cases_path: &str, out_path: &str, trace_path: &str) {
    check_literal_table();
    let seed = vh_core::seed_from_env();
    let lines = vh_core::read_ndjson(cases_path);
    let mut tw = TraceOut::create(trace_path);
    let types = t.types();
    let mut nvar = 3usize;
    let mut sample_every = 40u64;
    let (mut cases, mut strings, mut parses, mut agree, mut disagree, mut relex, mut traced) = (0u64, 0u64, 0u64, 0u64, 0u64, 0u64, 0u64);
    let mut acc_by_type: BTreeMap<String, u64> = BTreeMap::new();
    let mut panics = 0u64;
    let mut examples: Vec<Value> = Vec::new();
    let mut seen: BTreeSet<String> = BTreeSet::new();
    for (ci, line) in lines.iter().enumerate() {
        if line.get("ev").and_then(|x| x.as_str()) == Some("meta") {
            nvar = line.get("variants").and_then(|x| x.as_u64()).unwrap_or(3) as usize;
            sample_every = line.get("sample_every").and_then(|x| x.as_u64()).unwrap_or(40);
            continue;
        }
        cases += 1;
        let classes: Vec<&str> = line["s"].as_array().map(|a| a.iter().filter_map(|x| x.as_str()).collect()).unwrap_or_default();
        let g = &line["g"];
        let iexp = &line["i"];
        // short strings are concretised with EVERY literal of their richest class (near-miss junk such
        // as "CS_m", "01.2.3.4", "fffff" must meet every leaf position), longer ones with `nvar` variants
        let maxlits = classes.iter().map(|c| if class_kind(c) == "a" { atom_literals(c).len() } else { literals(c).len() }).max().unwrap_or(1);
        let nv = if classes.len() <= 6 { nvar.max(maxlits) } else { nvar };
        for var in 0..nv {
            // concretise
            let mut s = String::new();
            for (p, c) in classes.iter().enumerate() {
                let lits: Vec<&str> = if class_kind(c) == "a" { atom_literals(c) } else { literals(c).to_vec() };
                if lits.is_empty() {
                    eprintln!("unknown class {c}");
                    std::process::exit(2);
                }
                // stride 1 in `var`: over lits.len() variants every literal of the class occurs at this position
                let idx = (var as u64 + p as u64 * 3 + ci as u64 + seed) as usize % lits.len();
                s.push_str(lits[idx]);
            }
            if !seen.insert(s.clone()) {
                continue;
            }
            strings += 1;
            let lx = analyse(&s);
            // does the canonical abstraction of the concrete string equal the enumerated one?
            let mut same = lx.toks.len() == classes.len();
            if same {
                for (p, c) in classes.iter().enumerate() {
                    if lx.toks[p].k != class_kind(c) {
                        same = false;
                    } else if let Some(f) = &lx.facts[p] {
                        if Some(f.vector()) != class_vector(c) {
                            same = false;
                        }
                    }
                }
            }
            let mut bad = !same;
            if !same {
                relex += 1;
            }
            let mut chk: Vec<(String, String, Out)> = Vec::new();
            for ty in &types {
                let exp: Result<Out, String> = match g.get(*ty) {
                    Some(term) if term.is_object() => eval_term(term, &lx).map(Out::Acc),
                    _ => Ok(Out::Rej),
                };
                let iout = iexp.get(*ty).and_then(|x| x.as_str()).unwrap_or("rej");
                for (entry, real) in t.parse(ty, &s) {
                    parses += 1;
                    if let Out::Acc(_) = real {
                        *acc_by_type.entry(ty.to_string()).or_default() += 1;
                    }
                    if let Out::Panic(_) = real {
                        panics += 1;
                    }
                    let ok = match &exp {
                        Ok(e) => *e == real,
                        Err(_) => false,
                    } && iout == real.o();
                    if ok {
                        agree += 1;
                    } else {
                        disagree += 1;
                        bad = true;
                        if examples.len() < 10 {
                            examples.push(json!({"text": s, "T": ty, "entry": entry, "real": real.to_json(), "expected": match &exp { Ok(e) => e.to_json(), Err(m) => json!({"term_error": m}) }, "i": iout}));
                        }
                    }
                    if real != Out::Rej || !ok {
                        chk.push((ty.to_string(), entry.to_string(), real));
                    }
                }
            }
            if bad || (strings % sample_every == 0) {
                if chk.is_empty() {
                    // nothing accepted anywhere: still let TLC confirm the rejection of one type
                    if let Some(ty) = types.first() {
                        for (entry, real) in t.parse(ty, &s) {
                            chk.push((ty.to_string(), entry.to_string(), real));
                        }
                    }
                }
                tw.write(trace_line(&s, &lx, if bad { "replay-mismatch" } else { "replay-sample" }, &chk));
                traced += 1;
            }
        }
    }
    tw.finish();
    let out = json!({"cases": cases, "strings": strings, "parses": parses, "agree": agree, "disagree": disagree,
        "relex_mismatch": relex, "traced": traced, "accepted_by_type": acc_by_type, "panics": panics, "examples": examples});
    std::fs::write(out_path, serde_json::to_string_pretty(&out).unwrap()).expect("write result");
}

// ------------------------------------------------------------------------------------------
// record: displayed forms, single-character edits, short strings -> trace lines
// ------------------------------------------------------------------------------------------
pub const EDIT_CHARS: &[char] = &[
    '[', ']', ',', '-', ':', ';', '#', ' ', '0', '1', '9', 'a', 'f', 'F', 'g', 'x', '.', '_', '+', '\u{e9}', '\u{1f600}', '\u{3000}', 'C', 'S', 'M', 'A', '=', '<', '\t', 'm', 's',
];

fn single_edits(s: &str) -> Vec<String> {
    let chars: Vec<char> = s.chars().collect();
    let mut out = Vec::new();
    for p in 0..chars.len() {
        let mut d: Vec<char> = chars.clone();
        d.remove(p);
        out.push(d.iter().collect());
        for &c in EDIT_CHARS {
            if c != chars[p] {
                let mut r = chars.clone();
                r[p] = c;
                out.push(r.iter().collect());
            }
        }
    }
    for p in 0..=chars.len() {
        for &c in EDIT_CHARS {
            let mut r = chars.clone();
            r.insert(p, c);
            out.push(r.iter().collect());
        }
    }
    out
}

/// S6 self-test: a mutant of the ADAPTER (not of /repo) that silently drops surrounding white space
struct TrimMutant<'a>(&'a dyn Target);
impl Target for TrimMutant<'_> {
    fn types(&self) -> Vec<&'static str> {
        self.0.types()
    }
    fn parse(&self, ty: &str, s: &str) -> Vec<(&'static str, Out)> {
        self.0.parse(ty, s.trim())
    }
    fn shown(&self, ty: &str, rng: &mut Rng, nrand: usize) -> Vec<(String, String, Val)> {
        self.0.shown(ty, rng, nrand)
    }
}

pub fn record(t0: &dyn Target, trace_path: &str, out_path: &str) {
    let mutant = TrimMutant(t0);
    let t: &dyn Target = if std::env::var("VERIF_MUTANT").map(|m| m == "trim").unwrap_or(false) { &mutant } else { t0 };
    let thorough = vh_core::tier_is_thorough();
    if let Ok(only) = std::env::var("VERIF_ONLY") {
        // --replay of one stored string: every type, every entry point
        let mut tw = TraceOut::create(trace_path);
        let lx = analyse(&only);
        let mut chk = Vec::new();
        for ty in t.types() {
            for (entry, real) in t.parse(ty, &only) {
                chk.push((ty.to_string(), entry.to_string(), real));
            }
        }
        tw.write(trace_line(&only, &lx, "only", &chk));
        tw.finish();
        std::fs::write(out_path, "{}").expect("write result");
        return;
    }
    let mut rng = Rng::from_env();
    let mut tw = TraceOut::create(trace_path);
    let types = t.types();
    let budget_edits: usize = std::env::var("VERIF_EDITS").ok().and_then(|x| x.parse().ok()).unwrap_or(if thorough { 400_000 } else { 24_000 });
    let nrand = if thorough { 12 } else { 3 };
    let (mut lines, mut shown_n, mut edits_n, mut short_n, mut accepted, mut panics) = (0u64, 0u64, 0u64, 0u64, 0u64, 0u64);
    let mut pv: Vec<Value> = Vec::new();
    let mut seen: BTreeSet<(String, String)> = BTreeSet::new();
    // 1. displayed forms: parse(show(v)) == v   (P-monitor evaluated here on the real output)
    let mut forms: Vec<(String, String)> = Vec::new(); // (type, text)
    for ty in &types {
        for (class, text, val) in t.shown(ty, &mut rng, nrand) {
            shown_n += 1;
            let lx = analyse(&text);
            let mut chk = Vec::new();
            for (entry, real) in t.parse(ty, &text) {
                match &real {
                    Out::Acc(v) if *v == val => {}
                    other => {
                        pv.push(json!({"key": format!("RoundTrip:{ty}:{class}"), "what": format!("{ty} value displayed as {text:?} does not parse back to the same value via {entry}: {}", other.to_json()), "text": text, "T": ty, "entry": entry}));
                    }
                }
                chk.push((ty.to_string(), entry.to_string(), real));
            }
            let mut l = trace_line(&text, &lx, "shown", &chk);
            l.0["ev"] = json!("show");
            l.0["T"] = json!(ty);
            l.0["v"] = val.to_json();
            l.1["class"] = json!(class);
            tw.write(l);
            lines += 1;
            forms.push((ty.to_string(), text));
        }
    }
    // 2. single-character edits of displayed forms (all in thorough, seeded subset in quick)
    let mut all_edits: Vec<(String, String)> = Vec::new();
    for (ty, text) in &forms {
        for e in single_edits(text) {
            all_edits.push((ty.clone(), e));
        }
    }
    let total_edits = all_edits.len();
    if all_edits.len() > budget_edits {
        rng.shuffle(&mut all_edits);
        all_edits.truncate(budget_edits);
    }
    // 3. every string of length <= 2 over the edit alphabet and a seeded sample of length 3
    let mut shorts: Vec<String> = vec![String::new()];
    for &a in EDIT_CHARS {
        shorts.push(a.to_string());
        for &b in EDIT_CHARS {
            shorts.push([a, b].iter().collect());
        }
    }
    let nshort: usize = std::env::var("VERIF_SHORTN").ok().and_then(|x| x.parse().ok()).unwrap_or(if thorough { 20_000 } else { 1_500 });
    for _ in 0..nshort {
        let n = 3 + rng.below(2) as usize;
        shorts.push((0..n).map(|_| *rng.pick(EDIT_CHARS)).collect());
    }
    if std::env::var("VERIF_SHORTS").map(|m| m == "0").unwrap_or(false) {
        shorts.clear();
    }
    let mut work: Vec<(String, String, &'static str)> = all_edits.into_iter().map(|(t, e)| (t, e, "edit")).collect();
    for s in shorts {
        work.push((String::new(), s, "short"));
    }
    let mut seen_src: BTreeSet<(String, String)> = BTreeSet::new();
    for (src_ty, s, kind) in work {
        if !seen_src.insert((src_ty.clone(), s.clone())) {
            continue;
        }
        let lx = analyse(&s);
        let mut chk: Vec<(String, String, Out)> = Vec::new();
        for ty in &types {
            let is_src = *ty == src_ty;
            if !is_src && !seen.insert((ty.to_string(), s.clone())) {
                continue;
            }
            for (entry, real) in t.parse(ty, &s) {
                match &real {
                    Out::Acc(_) => accepted += 1,
                    Out::Panic(_) => panics += 1,
                    Out::Rej => {}
                }
                if real != Out::Rej || is_src || (kind == "short" && *ty == types[0]) {
                    chk.push((ty.to_string(), entry.to_string(), real));
                }
            }
        }
        if chk.is_empty() {
            continue;
        }
        if kind == "edit" {
            edits_n += 1;
        } else {
            short_n += 1;
        }
        tw.write(trace_line(&s, &lx, kind, &chk));
        lines += 1;
    }
    tw.finish();
    let out = json!({"lines": lines, "shown": shown_n, "edits": edits_n, "edits_total": total_edits, "shorts": short_n, "accepted": accepted, "panics": panics, "pv": pv});
    std::fs::write(out_path, serde_json::to_string_pretty(&out).unwrap()).expect("write result");
}

/// VERIF_TYPES=T1,T2,...: restrict a harness binary to some target types (one binary serves two checks)
struct TypeFilter<'a>(&'a dyn Target, Vec<String>);
impl Target for TypeFilter<'_> {
    fn types(&self) -> Vec<&'static str> {
        self.0.types().into_iter().filter(|t| self.1.iter().any(|x| x == t)).collect()
    }
    fn parse(&self, ty: &str, s: &str) -> Vec<(&'static str, Out)> {
        self.0.parse(ty, s)
    }
    fn shown(&self, ty: &str, rng: &mut Rng, nrand: usize) -> Vec<(String, String, Val)> {
        self.0.shown(ty, rng, nrand)
    }
}

pub fn main_with(t0: &dyn Target) {
    vh_core::quiet_panics();
    let filtered;
    let t: &dyn Target = match std::env::var("VERIF_TYPES") {
        Ok(l) if !l.is_empty() => {
            filtered = TypeFilter(t0, l.split(',').map(|x| x.trim().to_string()).collect());
            &filtered
        }
        _ => t0,
    };
    let args: Vec<String> = std::env::args().collect();
    match args.get(1).map(|s| s.as_str()) {
        Some("replay") if args.len() >= 5 => replay(t, &args[2], &args[3], &args[4]),
        Some("record") if args.len() >= 4 => record(t, &args[2], &args[3]),
        Some("one") if args.len() >= 3 => {
            // debugging aid / --replay of a stored violation: parse one string with every type
            let lx = analyse(&args[2]);
            println!("{}", lx.toks_json());
            for ty in t.types() {
                for (entry, real) in t.parse(ty, &args[2]) {
                    println!("{ty} {entry}: {}", real.to_json());
                }
            }
        }
        _ => {
            eprintln!("usage: replay <cases.ndjson> <result.json> <trace.ndjson> | record <trace.ndjson> <result.json> | one <string>");
            std::process::exit(2);
        }
    }
}
