//! Shared by segsoup (vh-sciparse) and segfetch (vh-stack): real segments from soup descriptors and the
//! SelfConsistent P-monitor (a returned path re-parses and agrees with its own metadata).
use sciparse::{
    core::view::View,
    dataplane_path::{
        standard::{
            types::{HopFieldMac, InfoFieldFlags},
            view::StandardPathView,
        },
        view::ScionDpPathViewExt,
    },
    identifier::{asn::Asn, isd::Isd, isd_asn::IsdAsn},
    path::ScionPath,
    segment::{AsEntry, Entry, HopEntry, PathSegment, PeerEntry, SegmentHopField, UnsignedPathSegment},
};
use serde_json::Value;

pub const TS: u32 = 1_700_000_000;

pub fn ia(a: u64) -> IsdAsn {
    IsdAsn::new(Isd(1), Asn(0xff00_0000_0000 + a))
}
pub fn as_of(ia: IsdAsn) -> u64 {
    ia.asn().0 - 0xff00_0000_0000
}

// ------------------------------------------------------------------------------------ building segments

pub struct Soup {
    pub cores: Vec<UnsignedPathSegment>,
    pub ncs: Vec<UnsignedPathSegment>,
    pub good_cores: Vec<UnsignedPathSegment>,
    pub good_ncs: Vec<UnsignedPathSegment>,
    pub entries: u64,
}

pub fn build_segment(seg: &Value) -> UnsignedPathSegment {
    let es = seg["es"].as_array().cloned().unwrap_or_default();
    let mut s = UnsignedPathSegment::new(TS, 0x0707, vec![]);
    let n = es.len();
    for (i, e) in es.iter().enumerate() {
        let a = e["as"].as_u64().unwrap();
        let eg = e["eg"].as_u64().unwrap() as u16;
        let peers = e["peers"]
            .as_array()
            .map(|ps| {
                ps.iter()
                    .map(|p| PeerEntry {
                        peer: ia(p["pas"].as_u64().unwrap()),
                        peer_interface: p["pif"].as_u64().unwrap() as u16,
                        // every peering link has its own MTU (below the AS MTUs), a peer entry without
                        // remote interface a larger one: a path that takes its MTU from the wrong peer
                        // entry becomes visible
                        peer_mtu: (1000 + p["lif"].as_u64().unwrap() % 300 + if p["pif"].as_u64().unwrap() == 0 { 200 } else { 0 }) as u16,
                        hop_field: SegmentHopField {
                            expiration_units: 63,
                            cons_ingress: p["lif"].as_u64().unwrap() as u16,
                            cons_egress: eg,
                            mac: HopFieldMac([0; 6]),
                        },
                    })
                    .collect()
            })
            .unwrap_or_default();
        let entry = AsEntry {
            local: ia(a),
            next: if i + 1 < n { ia(es[i + 1]["as"].as_u64().unwrap()) } else { IsdAsn::from_u64(0) },
            mtu: e["mtu"].as_u64().unwrap_or(1400) as u32,
            hop_entry: HopEntry {
                ingress_mtu: if i == 0 { 0 } else { 1400 },
                hop_field: SegmentHopField {
                    expiration_units: e["exp"].as_u64().unwrap_or(63) as u8,
                    cons_ingress: e["in"].as_u64().unwrap() as u16,
                    cons_egress: eg,
                    mac: HopFieldMac([0; 6]),
                },
            },
            peer_entries: peers,
            extensions: vec![],
            unsigned_extensions: vec![],
        };
        s.add_unsigned_entry(entry, &[(a & 0xff) as u8; 16]);
    }
    s
}

pub fn build_soup(soup: &Value) -> Soup {
    let mut s = Soup { cores: vec![], ncs: vec![], good_cores: vec![], good_ncs: vec![], entries: 0 };
    for seg in soup.as_array().unwrap() {
        let real = build_segment(seg);
        // input size: AS entries and peer entries
        s.entries += real.len() as u64 + real.iter().map(|e| e.peer_entries.len() as u64).sum::<u64>();
        let good = seg["good"].as_bool().unwrap();
        if seg["kind"].as_str().unwrap() == "core" {
            if good {
                s.good_cores.push(real.clone());
            }
            s.cores.push(real);
        } else {
            if good {
                s.good_ncs.push(real.clone());
            }
            s.ncs.push(real);
        }
    }
    s
}

// ------------------------------------------------------------------------------------ P-monitor SelfConsistent

pub fn ifaces_of(p: &ScionPath) -> Vec<(u64, u16)> {
    p.metadata()
        .and_then(|m| m.interfaces.as_ref())
        .map(|v| v.iter().map(|i| (as_of(i.interface.isd_asn), i.interface.id)).collect())
        .unwrap_or_default()
}

pub fn path_id(ifs: &[(u64, u16)]) -> String {
    ifs.iter().map(|(a, i)| format!("{a}#{i}")).collect::<Vec<_>>().join(">")
}

/// Every returned path must encode, parse back and agree with its own metadata.
/// Returns the list of inconsistencies (canonical short names).
pub fn self_consistent(p: &ScionPath) -> Vec<String> {
    let mut bad = vec![];
    let bytes = p.dp_path().as_slice().to_vec();
    let view = match StandardPathView::try_from_slice(&bytes) {
        Ok((v, rest)) => {
            if !rest.is_empty() {
                bad.push("reparse-trailing-bytes".to_string());
            }
            v
        }
        Err(e) => {
            bad.push(format!("reparse-failed:{e}"));
            return bad;
        }
    };
    let Some(meta) = p.metadata() else {
        bad.push("no-metadata".into());
        return bad;
    };
    let Some(ifs) = meta.interfaces.as_ref() else {
        bad.push("no-interfaces".into());
        return bad;
    };
    // interfaces implied by the hop fields, in travel order: inside a segment the egress of a hop and
    // the ingress of the next; the first ingress / last egress of a segment are not traversed, except
    // across the peering link that joins two peering segments
    let segs: Vec<_> = view.segments().collect();
    let nseg = segs.len();
    let mut expect: Vec<u16> = vec![];
    let mut links = 0usize;
    let mut min_exp = u32::MAX;
    for (si, (info, hops)) in segs.iter().enumerate() {
        let peering = info.flags().contains(InfoFieldFlags::PEERING);
        for (hi, h) in hops.iter().enumerate() {
            let first = hi == 0;
            let last = hi + 1 == hops.len();
            let use_in = !first || (peering && si > 0);
            let use_out = !last || (peering && si + 1 < nseg);
            if use_in {
                expect.push(h.ingress_interface(info));
            }
            if use_out {
                expect.push(h.egress_interface(info));
            }
            let secs = ((h.exp_time() as u64 + 1) * 675) / 2;
            min_exp = min_exp.min(info.timestamp().saturating_add(secs as u32));
        }
        links += hops.len() - 1;
    }
    if segs.iter().any(|(i, _)| i.flags().contains(InfoFieldFlags::PEERING)) {
        links += 1;
    }
    if ifs.len() != 2 * links {
        bad.push("interface-count".into());
    }
    let got: Vec<u16> = ifs.iter().map(|i| i.interface.id).collect();
    if got != expect {
        bad.push("interface-ids".into());
    }
    if got.iter().any(|i| *i == 0) {
        bad.push("zero-interface".into());
    }
    match (ifs.first(), ifs.last()) {
        (Some(f), Some(l)) => {
            if f.interface.isd_asn != p.src_ia() {
                bad.push("src-vs-first-interface".into());
            }
            if l.interface.isd_asn != p.dst_ia() {
                bad.push("dst-vs-last-interface".into());
            }
            // consecutive pairs: (egress of X, ingress of Y), then the next egress belongs to Y
            for k in (1..ifs.len().saturating_sub(1)).step_by(2) {
                if ifs[k].interface.isd_asn != ifs[k + 1].interface.isd_asn {
                    bad.push("as-sequence".into());
                    break;
                }
            }
        }
        _ => bad.push("no-interfaces".into()),
    }
    if p.expiration() != Some(min_exp) {
        bad.push("expiry".into());
    }
    if meta.expiration != min_exp as u64 {
        bad.push("metadata-expiry".into());
    }
    bad.sort();
    bad.dedup();
    bad
}


/// A returned path must be backed by the input: every link it claims to cross is announced by some
/// segment (two consecutive AS entries, or a peer entry naming both interfaces), and its MTU does not
/// exceed the MTU announced for a peering link it crosses.  Returns canonical short names of what is wrong.
pub fn backed_by_input<E: Entry>(p: &ScionPath, segs: &[&PathSegment<E>]) -> Vec<String> {
    let mut bad = vec![];
    let (Some(meta), ifs) = (p.metadata(), ifaces_of(p)) else { return bad };
    for pair in ifs.chunks(2) {
        let [x, y] = pair else { continue };
        let mut consecutive = false;
        let mut peer_mtus: Vec<u16> = vec![];
        for s in segs {
            let es: Vec<&AsEntry> = s.iter().collect();
            for (i, a) in es.iter().enumerate() {
                let al = as_of(a.local);
                if i + 1 < es.len() {
                    let b = es[i + 1];
                    let (eg, inn, bl) = (a.hop_entry.hop_field.cons_egress, b.hop_entry.hop_field.cons_ingress, as_of(b.local));
                    if (al, eg, bl, inn) == (x.0, x.1, y.0, y.1) || (al, eg, bl, inn) == (y.0, y.1, x.0, x.1) {
                        consecutive = true;
                    }
                }
                for q in &a.peer_entries {
                    let (lif, pas, pif) = (q.hop_field.cons_ingress, as_of(q.peer), q.peer_interface);
                    if (al, lif, pas, pif) == (x.0, x.1, y.0, y.1) || (al, lif, pas, pif) == (y.0, y.1, x.0, x.1) {
                        peer_mtus.push(q.peer_mtu);
                    }
                }
            }
        }
        if !consecutive && peer_mtus.is_empty() {
            bad.push("unannounced-link".to_string());
        } else if !consecutive && meta.mtu > *peer_mtus.iter().max().unwrap() {
            bad.push("mtu-above-peering-link".to_string());
        }
    }
    bad.sort();
    bad.dedup();
    bad
}
