//! C02 harness: binds spec/Wire/WireLayout.tla to sciparse's views (memory safety of parsing).
//!
//! wirelayout replay <vectors.ndjson> <out.ndjson>
//!     spec -> impl: every line is {"v": vector, "o": expected outcome} printed by TLC
//!     (MC_WireLayout).  The byte string is built from the vector and handed to every view
//!     constructor and the accessor/mutator catalogue, in a CHILD PROCESS, on buffers placed flush
//!     against PROT_NONE guard pages.  Death by signal, panic, CPU-time hang, reported size > input
//!     and slices outside the view are the P-monitor observations.
//! wirelayout record <out-events.ndjson> <results.json>
//!     impl -> spec: seeded random byte strings and single-byte mutations of valid packets go
//!     through the same runner; an independent field extractor produces the descriptor that
//!     Trace_WireLayout judges.
//!
//! One output line per vector: {"i", "d": descriptor, "obs": {...}, "pv": [{key, what}], ...};
//! a vector that killed the child is reported by the parent as {"i", "crash": {...}}.
use std::io::Write;
use std::panic::{AssertUnwindSafe, catch_unwind};

use sciparse::core::convert::TryFromView;
use sciparse::core::view::View;
use sciparse::dataplane_path::onehop::view::OneHopPathView;
use sciparse::dataplane_path::standard::types::{HopFieldFlags, HopFieldMac, InfoFieldFlags};
use sciparse::dataplane_path::standard::view::{HopFieldView, InfoFieldView, StandardPathView};
use sciparse::dataplane_path::view::{
    ScionDpPathViewExt, ScionDpPathViewExtMut, ScionDpPathViewRef, ScionDpPathViewRefMut,
};
use sciparse::header::model::ScionPacketHeader;
use sciparse::header::view::ScionHeaderView;
use sciparse::identifier::asn::Asn;
use sciparse::identifier::isd::Isd;
use sciparse::identifier::isd_asn::IsdAsn;
use sciparse::packet::model::{ScionRawPacket, ScionScmpPacket, ScionUdpPacket};
use sciparse::packet::view::{ScionRawPacketView, ScionScmpPacketView, ScionUdpPacketView};
use sciparse::payload::ProtocolNumber;
use sciparse::payload::scmp::model::ScmpMessage;
use sciparse::payload::scmp::view::{ScmpMessageExt, ScmpMessageView, ScmpMessageViewMut, ScmpPayloadView};
use sciparse::payload::udp::model::UdpDatagram;
use sciparse::payload::udp::view::UdpDatagramView;
use serde_json::{Value, json};
use std::hint::black_box;

const PAGE: usize = 4096;

// ------------------------------------------------------------------------------------ guard-page arena

/// [PROT_NONE page][data pages][PROT_NONE page]
struct Arena {
    base: *mut u8,
    data: usize,
}
impl Arena {
    fn new(max_bytes: usize) -> Arena {
        let data = max_bytes.div_ceil(PAGE).max(1) * PAGE;
        unsafe {
            let p = libc::mmap(std::ptr::null_mut(), data + 2 * PAGE, libc::PROT_READ | libc::PROT_WRITE,
                               libc::MAP_PRIVATE | libc::MAP_ANONYMOUS, -1, 0);
            if p == libc::MAP_FAILED {
                eprintln!("mmap failed");
                std::process::exit(2);
            }
            let base = p as *mut u8;
            if libc::mprotect(base as *mut _, PAGE, libc::PROT_NONE) != 0
                || libc::mprotect(base.add(PAGE + data) as *mut _, PAGE, libc::PROT_NONE) != 0
            {
                eprintln!("mprotect failed");
                std::process::exit(2);
            }
            Arena { base, data }
        }
    }
    /// n bytes ending exactly at the tail guard page
    fn at_end(&self, n: usize) -> &'static mut [u8] {
        assert!(n <= self.data);
        unsafe { std::slice::from_raw_parts_mut(self.base.add(PAGE + self.data - n), n) }
    }
    /// n bytes starting exactly after the front guard page
    fn at_start(&self, n: usize) -> &'static mut [u8] {
        assert!(n <= self.data);
        unsafe { std::slice::from_raw_parts_mut(self.base.add(PAGE), n) }
    }
    fn place(&self, end: bool, bytes: &[u8]) -> &'static mut [u8] {
        let s = if end { self.at_end(bytes.len()) } else { self.at_start(bytes.len()) };
        s.copy_from_slice(bytes);
        s
    }
}

// ------------------------------------------------------------------------------------ progress page shared with the parent

#[repr(C)]
struct Progress {
    idx: u64,
    view: u32,  // index into VIEW_NAMES
    place: u32, // 0 = flush against the tail guard, 1 = flush after the front guard
    stage: u32, // 0 constructors, 1 catalogue
    m1: u32,    // first mutator (index + 1) or 0
    m2: u32,    // second mutator (index + 1) or 0
    acc: u32,   // accessor group being executed
    accname: [u8; 48],
    m1name: [u8; 64],
    m2name: [u8; 64],
}
fn set_name(dst: &mut [u8], s: &str) {
    let b = s.as_bytes();
    let n = b.len().min(dst.len() - 1);
    dst[..n].copy_from_slice(&b[..n]);
    dst[n] = 0;
}
fn get_name(src: &[u8]) -> String {
    let n = src.iter().position(|x| *x == 0).unwrap_or(src.len());
    String::from_utf8_lossy(&src[..n]).to_string()
}
static mut PROGRESS: *mut Progress = std::ptr::null_mut();
fn prog() -> &'static mut Progress {
    unsafe { &mut *PROGRESS }
}
const VIEW_NAMES: [&str; 10] = ["hdr", "raw", "udp", "scmp", "stdpath", "onehop", "info", "hop", "udpd", "scmpm"];

// ------------------------------------------------------------------------------------ per-vector violation sink

struct Ctx {
    pv: Vec<Value>,
    lo: usize, // address range of the bytes the view under test owns
    hi: usize,
    label: String,
    m1: String, // mutators applied before the accessors now running ("" = none)
    m2: String,
    /// (mutator, accessor) pairs that already misbehave with ONE mutator: a two-mutator sequence
    /// containing that mutator does not report the same accessor again
    seen: std::collections::HashSet<(String, String)>,
}
impl Ctx {
    fn add(&mut self, key: String, what: String) {
        if self.pv.len() < 40 && !self.pv.iter().any(|x| x["key"] == json!(key)) {
            self.pv.push(json!({"key": key, "what": what}));
        }
    }
    /// a misbehaving accessor, keyed by the accessor and the mutators applied before it
    fn bad(&mut self, class: &str, name: &str, what: String) {
        let (m1, m2) = (self.m1.clone(), self.m2.clone());
        if !m1.is_empty() && self.seen.contains(&(String::new(), name.to_string())) {
            return; // already misbehaves on the plain input: the mutator adds nothing
        }
        if m2.is_empty() {
            self.seen.insert((m1.clone(), name.to_string()));
        } else if self.seen.contains(&(String::new(), name.to_string()))
            || self.seen.contains(&(m1.clone(), name.to_string()))
            || self.seen.contains(&(m2.clone(), name.to_string()))
        {
            return;
        }
        let after = if m1.is_empty() { String::new() } else if m2.is_empty() { format!(":after:{m1}") } else { format!(":after:{m1}+{m2}") };
        let l = self.label.clone();
        self.add(format!("{class}:{name}{after}"), format!("[{l} view] {what}{}", if after.is_empty() { String::new() } else { format!(" (after safe mutator(s) {})", &after[7..]) }));
    }
    /// every slice an accessor returns must lie inside the bytes of the view
    fn inside(&mut self, name: &str, s: &[u8]) {
        let a = s.as_ptr() as usize;
        if !s.is_empty() && (a < self.lo || a + s.len() > self.hi) {
            let (lo, hi) = (self.lo, self.hi);
            self.bad("SliceOutside", name, format!("{name} returned a slice [{:#x}, {:#x}) outside the view's bytes [{:#x}, {:#x})", a, a + s.len(), lo, hi));
        }
        // touch first and last byte (a guard page turns an outside slice into a fault)
        if let (Some(f), Some(l)) = (s.first(), s.last()) {
            black_box(*f);
            black_box(*l);
        }
    }
    fn inside_mut(&mut self, name: &str, s: &mut [u8]) {
        self.inside(name, s);
        if let Some(f) = s.first_mut() {
            *f = black_box(*f);
        }
        if let Some(l) = s.last_mut() {
            *l = black_box(*l);
        }
    }
}

fn panic_msg(e: Box<dyn std::any::Any + Send>) -> String {
    if let Some(s) = e.downcast_ref::<&str>() {
        s.to_string()
    } else if let Some(s) = e.downcast_ref::<String>() {
        s.clone()
    } else {
        "panic".into()
    }
}

/// run one accessor group; a panic is data
fn acc(ctx: &mut Ctx, id: u32, name: &str, f: impl FnOnce(&mut Ctx)) {
    prog().acc = id;
    set_name(&mut prog().accname, name);
    if let Err(e) = catch_unwind(AssertUnwindSafe(|| f(ctx))) {
        let m = panic_msg(e);
        ctx.bad("Panic", name, format!("{name} panicked: {}", m.chars().take(200).collect::<String>()));
    }
}

// ------------------------------------------------------------------------------------ accessor catalogue (reads)

/// View::copy_to_slice into an exact-size, a too-small and a larger buffer
fn copy_check<V: View + ?Sized>(ctx: &mut Ctx, name: &str, v: &V) {
    let n = v.as_slice().len();
    let mut exact = vec![0u8; n];
    match v.copy_to_slice(&mut exact) {
        Ok((w, rest)) => {
            if w.as_slice() != v.as_slice() || !rest.is_empty() {
                ctx.bad("CopyDiffers", name, format!("{name}: copy_to_slice into an exact-size buffer is not an exact copy"));
            }
        }
        Err(_) => ctx.bad("CopyDiffers", name, format!("{name}: copy_to_slice into an exact-size buffer failed")),
    }
    if n > 0 {
        let mut small = vec![0u8; n - 1];
        if v.copy_to_slice(&mut small).is_ok() {
            ctx.bad("SizeExceedsInput", name, format!("{name}: copy_to_slice accepted a buffer one byte too small"));
        }
    }
    let mut big = vec![0xEEu8; n + 5];
    if let Ok((w, rest)) = v.copy_to_slice(&mut big) {
        black_box((w.as_slice().len(), rest.len()));
    }
}

fn read_info(ctx: &mut Ctx, i: &InfoFieldView) {
    black_box((i.flags(), i.segment_id(), i.timestamp()));
    black_box(format!("{:?}", i));
    ctx.inside("info.as_slice", i.as_slice());
}
fn read_hop(ctx: &mut Ctx, h: &HopFieldView, info: Option<&InfoFieldView>) {
    black_box((h.flags(), h.exp_time(), h.cons_ingress(), h.cons_egress(), h.mac()));
    if let Some(i) = info {
        black_box((h.ingress_interface(i), h.egress_interface(i), h.ingress_scmp_alert(i), h.egress_scmp_alert(i), h.expiry_timestamp(i)));
    }
    black_box(format!("{:?}", h));
    ctx.inside("hop.as_slice", h.as_slice());
}
fn read_std(ctx: &mut Ctx, p: &StandardPathView) {
    acc(ctx, 100, "std.meta", |_| {
        black_box((p.curr_info_field_idx(), p.curr_hop_field_idx(), p.seg0_len(), p.seg1_len(), p.seg2_len()));
        black_box((p.info_field_count(), p.hop_field_count()));
    });
    acc(ctx, 101, "std.as_slice", |c| c.inside("std.as_slice", p.as_slice()));
    acc(ctx, 102, "std.curr_fields", |c| {
        if let Some(i) = p.curr_info_field() {
            read_info(c, i);
        }
        if let Some(h) = p.curr_hop_field() {
            read_hop(c, h, p.curr_info_field());
        }
        black_box(p.curr_egress_interface());
    });
    acc(ctx, 103, "std.indexed_fields", |c| {
        for k in [0usize, 1, 2, 3, 62, 63, 64, 188, 189, 255, usize::MAX] {
            if let Some(i) = p.info_field(k) {
                read_info(c, i);
            }
            if let Some(h) = p.hop_field(k) {
                read_hop(c, h, p.info_field(0));
            }
            black_box(p.checked_hop_field_range(k));
            black_box(p.calculate_segment_index(k));
        }
    });
    acc(ctx, 104, "std.info_fields", |c| {
        for i in p.info_fields() {
            read_info(c, i);
        }
    });
    acc(ctx, 105, "std.hop_fields", |c| {
        let infos = p.info_fields();
        for h in p.hop_fields() {
            read_hop(c, h, infos.first());
        }
    });
    acc(ctx, 106, "std.segments", |c| {
        let it = p.segments();
        black_box((it.is_empty(), it.segment_count(), it.hop_field_count()));
        let mut n = 0;
        for (i, hs) in p.segments() {
            read_info(c, i);
            for h in hs {
                read_hop(c, h, Some(i));
            }
            n += 1;
            if n > 8 {
                c.add("Loop:std.segments".into(), "segment iterator yields more than 8 segments".into());
                break;
            }
        }
    });
    acc(ctx, 107, "std.expiration", |_| {
        black_box(p.expiration());
    });
    acc(ctx, 108, "std.fmt", |_| {
        black_box(format!("{:?}", p));
        black_box(format!("{}", p));
    });
    acc(ctx, 109, "std.to_model", |_| {
        use sciparse::core::convert::ToModel;
        black_box(p.to_model());
    });
    if ctx.m1.is_empty() {
        acc(ctx, 111, "std.copy_to_slice", |c| copy_check(c, "std.copy_to_slice", p));
    }
    acc(ctx, 110, "std.to_boxed", |c| {
        let b = p.to_boxed();
        black_box(b.as_slice().len());
        let cl = b.clone();
        black_box(cl.hop_fields().len());
        let raw = b.as_slice_boxed();
        black_box(raw.len());
        let _ = c;
    });
}
fn read_onehop(ctx: &mut Ctx, o: &OneHopPathView) {
    acc(ctx, 120, "onehop.fields", |c| {
        read_info(c, o.info_field());
        let [a, b] = o.hop_fields();
        read_hop(c, a, Some(o.info_field()));
        read_hop(c, b, Some(o.info_field()));
        c.inside("onehop.as_slice", o.as_slice());
    });
    acc(ctx, 121, "onehop.expiration", |_| {
        black_box(o.expiration());
    });
    acc(ctx, 122, "onehop.fmt", |_| {
        black_box(format!("{:?}", o));
        black_box(format!("{}", o));
    });
    acc(ctx, 123, "onehop.to_model", |_| {
        use sciparse::core::convert::ToModel;
        black_box(o.to_model());
        let b = o.to_boxed();
        black_box(b.as_slice_boxed().len());
    });
}
fn read_path(ctx: &mut Ctx, p: &ScionDpPathViewRef<'_>) {
    match p {
        ScionDpPathViewRef::Standard(s) => read_std(ctx, s),
        ScionDpPathViewRef::OneHop(o) => read_onehop(ctx, o),
        ScionDpPathViewRef::Unsupported { data, .. } => ctx.inside("path.unsupported.data", data),
        ScionDpPathViewRef::Empty => {}
    }
    acc(ctx, 130, "path.ext", |c| {
        c.inside("path.as_slice", ScionDpPathViewExt::as_slice(p));
        black_box((p.expiration(), p.first_egress_interface(), p.current_egress_interface(),
                   p.last_ingress_interface(), p.current_ingress_interface()));
        black_box(format!("{}", p));
        black_box(format!("{:?}", p));
        black_box(ScionDpPathViewExt::to_model(p));
        let owned = p.to_owned_view();
        black_box(format!("{}", owned));
        c.inside("path.owned.as_slice", &[]);
        let mut o2 = owned.clone();
        let _ = o2.try_reverse();
        black_box(ScionDpPathViewExt::as_slice(&o2).len());
        black_box(ScionDpPathViewExt::to_model(&o2));
        match owned.try_into_reversed() {
            Ok(r) => black_box(format!("{}", r).len()),
            Err((r, _)) => black_box(format!("{}", r).len()),
        };
    });
}
fn read_hdr(ctx: &mut Ctx, h: &ScionHeaderView) {
    acc(ctx, 1, "hdr.common", |_| {
        black_box((h.version(), h.traffic_class(), h.flow_id(), h.next_header(), h.payload_len(), h.header_len()));
        black_box((h.path_type(), h.path_type_range(), h.dst_addr_type(), h.src_addr_type()));
    });
    acc(ctx, 2, "hdr.address", |_| {
        black_box((h.dst_ia(), h.dst_isd(), h.dst_as(), h.src_ia(), h.src_isd(), h.src_as()));
        let _ = black_box(h.dst_host_addr());
        let _ = black_box(h.src_host_addr());
        black_box(h.src_host_addr_range());
    });
    acc(ctx, 3, "hdr.as_slice", |c| c.inside("hdr.as_slice", h.as_slice()));
    let mut pctx_done = false;
    acc(ctx, 4, "hdr.path", |c| {
        let p = h.path();
        read_path(c, &p);
        pctx_done = true;
    });
    let _ = pctx_done;
    acc(ctx, 5, "hdr.fmt", |_| {
        black_box(format!("{:?}", h));
    });
    acc(ctx, 6, "hdr.to_model", |_| {
        let _ = black_box(ScionPacketHeader::try_from_view(h));
    });
    if ctx.m1.is_empty() {
        acc(ctx, 9, "hdr.copy_to_slice", |c| copy_check(c, "hdr.copy_to_slice", h));
        // layout annotations rendered on the buffer (debug aid of sciparse::core::debug): once per view, not per mutator
        acc(ctx, 8, "hdr.annotations", |_| {
            use sciparse::header::layout::ScionHeaderLayout;
            if let Ok(l) = ScionHeaderLayout::try_from_slice(h.as_slice()) {
                let mut out = String::new();
                let _ = l.annotations().fmt_on_buffer(&mut out, h.as_slice(), 4);
                black_box(out.len());
            }
        });
    }
    acc(ctx, 7, "hdr.to_boxed", |_| {
        let b = h.to_boxed();
        black_box(b.clone().as_slice_boxed().len());
    });
}
fn read_udpd(ctx: &mut Ctx, u: &UdpDatagramView) {
    acc(ctx, 200, "udpd.fields", |c| {
        black_box((u.src_port(), u.dst_port(), u.length(), u.checksum()));
        c.inside("udpd.payload", u.payload());
        c.inside("udpd.as_slice", u.as_slice());
        black_box(format!("{:?}", u));
        black_box(UdpDatagram::from_view(u));
        black_box(u.to_boxed().as_slice_boxed().len());
    });
}
/// what receivers do with the quoted (offending) packet of an SCMP error: parse it as a SCION packet and look
/// at its header and upper-layer header
fn read_quote(ctx: &mut Ctx, q: &[u8]) {
    if let Ok((inner, _)) = ScionRawPacketView::try_from_slice(q) {
        ctx.inside("scmp.quote.as_slice", inner.as_slice());
        ctx.inside("scmp.quote.payload", inner.payload());
        let h = inner.header();
        black_box((h.next_header(), h.payload_len(), h.header_len(), h.path_type(), h.src_ia(), h.dst_ia()));
        let _ = black_box(h.src_host_addr());
        let _ = black_box(h.dst_host_addr());
        black_box(format!("{:?}", inner));
        let _ = black_box(inner.src_scion_addr());
        if let Ok(u) = inner.try_as_udp() {
            black_box((u.udp().src_port(), u.udp().dst_port(), u.udp().length()));
            let _ = black_box(u.src_socket_addr());
            let _ = black_box(u.dst_socket_addr());
            black_box(format!("{:?}", u));
        }
        if let Ok(sv) = inner.try_as_scmp() {
            black_box((sv.scmp().message_type(), sv.scmp().dst_port()));
            black_box(format!("{:?}", sv));
        }
        if let Ok(cl) = inner.try_classify() {
            black_box((cl.dst_port(), cl.dst_socket_addr()));
        }
        let _ = black_box(ScionRawPacket::try_from_view(inner).map(|p| p.try_classify().map(|c| (c.dst_socket_addr(), format!("{:?}", c).len()))));
    }
    if let Ok((u, _)) = UdpDatagramView::try_from_slice(q) {
        black_box(u.src_port());
    }
}
fn read_scmp_msg(ctx: &mut Ctx, m: &ScmpMessageView<'_>) {
    match m {
        ScmpMessageView::DestinationUnreachable(v) => read_quote(ctx, v.offending_packet()),
        ScmpMessageView::PacketTooBig(v) => read_quote(ctx, v.offending_packet()),
        ScmpMessageView::ParameterProblem(v) => read_quote(ctx, v.offending_packet()),
        ScmpMessageView::ExternalInterfaceDown(v) => read_quote(ctx, v.offending_packet()),
        ScmpMessageView::InternalConnectivityDown(v) => read_quote(ctx, v.offending_packet()),
        _ => {}
    }
    black_box(ScmpMessageExt::to_model(m).dst_port());
    match m {
        ScmpMessageView::DestinationUnreachable(v) => {
            black_box((v.message_type(), v.code(), v.checksum(), v.reserved()));
            ctx.inside("scmp.du.offending_packet", v.offending_packet());
            ctx.inside("scmp.du.as_slice", v.as_slice());
            black_box(format!("{:?}", v));
        }
        ScmpMessageView::PacketTooBig(v) => {
            black_box((v.message_type(), v.code(), v.checksum(), v.mtu()));
            ctx.inside("scmp.ptb.offending_packet", v.offending_packet());
            ctx.inside("scmp.ptb.as_slice", v.as_slice());
            black_box(format!("{:?}", v));
        }
        ScmpMessageView::ParameterProblem(v) => {
            black_box((v.message_type(), v.code(), v.checksum(), v.pointer()));
            ctx.inside("scmp.pp.offending_packet", v.offending_packet());
            ctx.inside("scmp.pp.as_slice", v.as_slice());
            black_box(format!("{:?}", v));
        }
        ScmpMessageView::ExternalInterfaceDown(v) => {
            black_box((v.message_type(), v.code(), v.checksum(), v.isd_asn(), v.interface_id()));
            ctx.inside("scmp.eid.offending_packet", v.offending_packet());
            ctx.inside("scmp.eid.as_slice", v.as_slice());
            black_box(format!("{:?}", v));
        }
        ScmpMessageView::InternalConnectivityDown(v) => {
            black_box((v.message_type(), v.code(), v.checksum(), v.isd_asn(), v.ingress_interface_id(), v.egress_interface_id()));
            ctx.inside("scmp.icd.offending_packet", v.offending_packet());
            ctx.inside("scmp.icd.as_slice", v.as_slice());
            black_box(format!("{:?}", v));
        }
        ScmpMessageView::EchoRequest(v) => {
            black_box((v.message_type(), v.code(), v.checksum(), v.identifier(), v.sequence_number()));
            ctx.inside("scmp.ereq.data", v.data());
            ctx.inside("scmp.ereq.as_slice", v.as_slice());
            black_box(format!("{:?}", v));
        }
        ScmpMessageView::EchoReply(v) => {
            black_box((v.message_type(), v.code(), v.checksum(), v.identifier(), v.sequence_number()));
            ctx.inside("scmp.erep.data", v.data());
            ctx.inside("scmp.erep.as_slice", v.as_slice());
            black_box(format!("{:?}", v));
        }
        ScmpMessageView::TracerouteRequest(v) => {
            black_box((v.message_type(), v.code(), v.checksum(), v.identifier(), v.sequence_number(), v.isd_asn(), v.interface_id()));
            ctx.inside("scmp.treq.as_slice", v.as_slice());
            black_box(format!("{:?}", v));
        }
        ScmpMessageView::TracerouteReply(v) => {
            black_box((v.message_type(), v.code(), v.checksum(), v.identifier(), v.sequence_number(), v.isd_asn(), v.interface_id()));
            ctx.inside("scmp.trep.as_slice", v.as_slice());
            black_box(format!("{:?}", v));
        }
        ScmpMessageView::Unknown(v) => {
            black_box((v.message_type(), v.code(), v.checksum()));
            ctx.inside("scmp.unk.message_specific_data", v.message_specific_data());
            ctx.inside("scmp.unk.as_slice", v.as_slice());
            black_box(format!("{:?}", v));
        }
    }
    black_box((m.is_error(), m.is_informational()));
    black_box(ScmpMessageExt::to_model(m));
    black_box(ScmpMessage::from_view(m));
}
fn read_scmpm(ctx: &mut Ctx, s: &ScmpPayloadView) {
    acc(ctx, 210, "scmpm.header", |c| {
        black_box((s.message_type(), s.code(), s.checksum()));
        c.inside("scmpm.as_slice", s.as_slice());
    });
    acc(ctx, 211, "scmpm.message", |c| {
        let m = s.message();
        read_scmp_msg(c, &m);
    });
    acc(ctx, 212, "scmpm.dst_port", |_| {
        black_box(s.dst_port());
    });
    if ctx.m1.is_empty() {
        acc(ctx, 214, "scmpm.copy_to_slice", |c| copy_check(c, "scmpm.copy_to_slice", s));
    }
    acc(ctx, 213, "scmpm.fmt", |_| {
        black_box(format!("{:?}", s));
        black_box(s.to_boxed().as_slice_boxed().len());
    });
}
fn read_udp_pkt(ctx: &mut Ctx, u: &ScionUdpPacketView) {
    acc(ctx, 20, "udp.packet", |c| {
        c.inside("udp.payload", u.payload());
        c.inside("udp.as_slice", u.as_slice());
        let _ = black_box(u.src_scion_addr());
        let _ = black_box(u.dst_scion_addr());
    });
    acc(ctx, 21, "udp.udp", |c| {
        let d = u.udp();
        read_udpd(c, d);
    });
    acc(ctx, 22, "udp.socket_addrs", |_| {
        let _ = black_box(u.src_socket_addr());
        let _ = black_box(u.dst_socket_addr());
    });
    acc(ctx, 23, "udp.fmt", |_| {
        black_box(format!("{:?}", u));
    });
    acc(ctx, 24, "udp.to_model", |_| {
        let _ = black_box(ScionUdpPacket::try_from_view(u));
    });
    acc(ctx, 25, "udp.as_raw", |c| {
        let r = u.as_raw();
        c.inside("udp.as_raw.payload", r.payload());
        let r2: &ScionRawPacketView = u.into();
        black_box(r2.as_slice().len());
        let b = u.to_boxed();
        let rb = b.into_raw();
        black_box(rb.as_slice().len());
    });
    read_hdr(ctx, u.header());
}
fn read_scmp_pkt(ctx: &mut Ctx, s: &ScionScmpPacketView) {
    acc(ctx, 30, "scmp.packet", |c| {
        c.inside("scmp.payload", s.payload());
        c.inside("scmp.as_slice", s.as_slice());
        let _ = black_box(s.src_scion_addr());
        let _ = black_box(s.dst_scion_addr());
    });
    let mut ok = false;
    acc(ctx, 31, "scmp.scmp", |c| {
        let m = s.scmp();
        c.inside("scmp.scmp.as_slice", m.as_slice());
        ok = true;
    });
    if ok {
        read_scmpm(ctx, s.scmp());
    }
    acc(ctx, 33, "scmp.fmt", |_| {
        black_box(format!("{:?}", s));
    });
    acc(ctx, 34, "scmp.to_model", |_| {
        let _ = black_box(ScionScmpPacket::try_from_view(s));
    });
    acc(ctx, 35, "scmp.as_raw", |c| {
        let r = s.as_raw();
        c.inside("scmp.as_raw.payload", r.payload());
        let b = s.to_boxed();
        black_box(b.into_raw().as_slice().len());
    });
    read_hdr(ctx, s.header());
}
fn read_raw_pkt(ctx: &mut Ctx, r: &ScionRawPacketView) {
    acc(ctx, 10, "raw.packet", |c| {
        c.inside("raw.payload", r.payload());
        c.inside("raw.as_slice", r.as_slice());
        let _ = black_box(r.src_scion_addr());
        let _ = black_box(r.dst_scion_addr());
    });
    if ctx.m1.is_empty() {
        acc(ctx, 17, "raw.copy_to_slice", |c| copy_check(c, "raw.copy_to_slice", r));
    }
    acc(ctx, 11, "raw.fmt", |_| {
        black_box(format!("{:?}", r));
    });
    acc(ctx, 12, "raw.to_model", |_| {
        let _ = black_box(ScionRawPacket::try_from_view(r));
        let _ = black_box(sciparse::packet::model::ScionRawPacketRef::try_from_view(r));
        let _ = black_box(sciparse::packet::model::ScionRawPacketRef::try_from_slice(r.as_slice()));
    });
    acc(ctx, 13, "raw.classify", |c| {
        if let Ok(cl) = r.try_classify() {
            black_box(cl.dst_socket_addr());
            black_box(cl.dst_port());
            c.inside("raw.classify.as_raw", cl.as_raw().as_slice());
            use sciparse::packet::classify::ClassifiedPacketView as C;
            match cl {
                C::Udp(u) => c.inside("raw.classify.udp", u.udp().as_slice()),
                C::Scmp(s) => c.inside("raw.classify.scmp", s.scmp().as_slice()),
                C::Other(_) => {}
            }
        }
        if let Ok(cl) = r.try_classify() {
            black_box(format!("{:?}", cl));
        }
        if let Ok(m) = ScionRawPacket::try_from_view(r) {
            if let Ok(cm) = black_box(m.try_classify()) {
                black_box((cm.dst_socket_addr(), format!("{:?}", cm).len()));
                let _ = black_box(cm.clone().try_into_udp().map(|u| u.dst_socket_addr().is_ok()));
                let _ = black_box(cm.clone().try_into_scmp().map(|sm| sm.payload.dst_port()));
                black_box(cm.into_raw().payload.len());
            }
        }
    });
    let mut u_ok = false;
    acc(ctx, 14, "raw.try_as_udp", |c| {
        if let Ok(u) = r.try_as_udp() {
            c.inside("raw.try_as_udp", u.as_slice());
            u_ok = true;
        }
        let b = r.to_boxed();
        if let Ok(ub) = b.try_into_udp() {
            black_box(ub.udp().length());
        }
    });
    if u_ok {
        if let Ok(u) = r.try_as_udp() {
            read_udp_pkt(ctx, u);
        }
    }
    let mut s_ok = false;
    acc(ctx, 15, "raw.try_as_scmp", |c| {
        if let Ok(s) = r.try_as_scmp() {
            c.inside("raw.try_as_scmp", s.as_slice());
            s_ok = true;
        }
        let b = r.to_boxed();
        if let Ok(sb) = b.try_into_scmp() {
            black_box(sb.scmp().code());
        }
    });
    if s_ok {
        if let Ok(s) = r.try_as_scmp() {
            read_scmp_pkt(ctx, s);
        }
    }
    acc(ctx, 18, "raw.try_from_raw", |c| {
        if let Ok(u) = ScionUdpPacketView::try_from_raw(r) {
            c.inside("raw.try_from_raw.udp", u.as_slice());
        }
        if let Ok(s) = ScionScmpPacketView::try_from_raw(r) {
            c.inside("raw.try_from_raw.scmp", s.as_slice());
        }
        let u2: Result<&ScionUdpPacketView, _> = r.try_into();
        black_box(u2.is_ok());
        let s2: Result<&ScionScmpPacketView, _> = r.try_into();
        black_box(s2.is_ok());
        let b = r.to_boxed();
        black_box(ScionUdpPacketView::try_from_raw_owned(b).is_ok());
        let b = r.to_boxed();
        black_box(ScionScmpPacketView::try_from_raw_owned(b).is_ok());
    });
    // typed views irrespective of next_header: a view that constructs must be safe to use
    acc(ctx, 16, "raw.typed_any", |c| {
        if let Ok((u, _)) = ScionUdpPacketView::try_from_slice(r.as_slice()) {
            c.inside("raw.typed_any.udp", u.udp().as_slice());
        }
        if let Ok((s, _)) = ScionScmpPacketView::try_from_slice(r.as_slice()) {
            c.inside("raw.typed_any.scmp", s.scmp().as_slice());
        }
    });
    read_hdr(ctx, r.header());
}

// ------------------------------------------------------------------------------------ mutator catalogue (safe setters)
//
// mut_X(view, k) applies the k-th safe mutator of view type X and returns its name, or None when k
// is past the end of the list.  Only functions callable WITHOUT `unsafe` are listed.

const KEY: [u8; 16] = [7u8; 16];

/// slot!(k, n, "name", body): the next n mutators are `body` (which may use k as parameter index)
macro_rules! slot {
    ($k:ident, $n:expr, $name:expr, $body:expr) => {
        if $k < $n {
            $body;
            return Some(if $n > 1 { format!("{}#{}", $name, $k) } else { $name.to_string() });
        }
        $k -= $n;
    };
}

fn mut_info(i: &mut InfoFieldView, k: usize) -> Option<String> {
    let mut k = k;
    slot!(k, 2, "info.set_flags", i.set_flags(InfoFieldFlags::from_bits_retain([0xffu8, 0][k])));
    slot!(k, 1, "info.set_segment_id", i.set_segment_id(0xffff));
    slot!(k, 2, "info.set_timestamp", i.set_timestamp([0xffff_ffffu32, 0][k]));
    let _ = k;
    None
}
fn mut_hop(h: &mut HopFieldView, k: usize) -> Option<String> {
    let mut k = k;
    slot!(k, 1, "hop.set_flags", h.set_flags(HopFieldFlags::from_bits_retain(0xff)));
    slot!(k, 1, "hop.set_exp_time", h.set_exp_time(0xff));
    slot!(k, 2, "hop.set_cons_ingress", h.set_cons_ingress([0xffffu16, 0][k]));
    slot!(k, 1, "hop.set_cons_egress", h.set_cons_egress(0));
    slot!(k, 1, "hop.set_mac", h.set_mac(HopFieldMac([0xff; 6])));
    let _ = k;
    None
}
fn all_info(i: &mut InfoFieldView) {
    let mut k = 0;
    while mut_info(i, k).is_some() {
        k += 2;
    }
}
fn all_hop(h: &mut HopFieldView) {
    let mut k = 0;
    while mut_hop(h, k).is_some() {
        k += 1;
    }
}

fn mut_std(p: &mut StandardPathView, k: usize) -> Option<String> {
    let mut k = k;
    slot!(k, 4, "std.set_curr_info_field", p.set_curr_info_field(k as u8));
    slot!(k, 5, "std.set_curr_hop_field", p.set_curr_hop_field([0u8, 1, 2, 62, 63][k]));
    slot!(k, 1, "std.curr_info_field_mut.set_all", { if let Some(i) = p.curr_info_field_mut() { all_info(i); } });
    slot!(k, 1, "std.curr_hop_field_mut.set_all", { if let Some(h) = p.curr_hop_field_mut() { all_hop(h); } });
    slot!(k, 4, "std.info_field_mut(i).set_all", { if let Some(i) = p.info_field_mut([0usize, 1, 2, 3][k]) { all_info(i); } });
    slot!(k, 4, "std.hop_field_mut(i).set_all", { if let Some(h) = p.hop_field_mut([0usize, 1, 63, 188][k]) { all_hop(h); } });
    slot!(k, 1, "std.info_fields_mut.set_all", { for i in p.info_fields_mut() { all_info(i); } });
    slot!(k, 1, "std.hop_fields_mut.set_all", { for h in p.hop_fields_mut() { all_hop(h); } });
    slot!(k, 1, "std.try_reverse", { let _ = p.try_reverse(); });
    slot!(k, 2, "std.advance_ingress", { let _ = p.advance_ingress(k == 0); });
    slot!(k, 1, "std.advance_egress", { let _ = p.advance_egress(); });
    slot!(k, 2, "std.advance_ingress_with_validator", {
        use sciparse::dataplane_path::standard::routing::HopMacValidator;
        let _ = p.advance_ingress_with_validator(HopMacValidator { key: KEY }, k == 0);
    });
    slot!(k, 1, "std.advance_egress_with_validator", {
        use sciparse::dataplane_path::standard::routing::HopMacValidator;
        let _ = p.advance_egress_with_validator(HopMacValidator { key: KEY });
    });
    let _ = k;
    None
}
fn mut_onehop(o: &mut OneHopPathView, k: usize) -> Option<String> {
    let mut k = k;
    slot!(k, 1, "onehop.info_field_mut.set_all", all_info(o.info_field_mut()));
    slot!(k, 1, "onehop.info_field_mut.set_timestamp(max)", o.info_field_mut().set_timestamp(0xffff_ffff));
    slot!(k, 2, "onehop.mut_hop_fields.set_all", { let [a, b] = o.mut_hop_fields(); all_hop(if k == 0 { a } else { b }); });
    slot!(k, 1, "onehop.try_reverse", { let _ = o.try_reverse(); });
    slot!(k, 2, "onehop.set_second_hop", o.set_second_hop(0xffff, KEY, k == 0));
    let _ = k;
    None
}
fn mut_path(p: &mut ScionDpPathViewRefMut<'_>, k: usize) -> Option<String> {
    let mut k = k;
    slot!(k, 1, "path.try_reverse", { let _ = p.try_reverse(); });
    match p {
        ScionDpPathViewRefMut::Standard(s) => mut_std(s, k),
        ScionDpPathViewRefMut::OneHop(o) => mut_onehop(o, k),
        ScionDpPathViewRefMut::Unsupported { buf, .. } => {
            slot!(k, 1, "path.unsupported.fill", buf.fill(0xff));
            let _ = k;
            None
        }
        ScionDpPathViewRefMut::Empty => None,
    }
}
fn mut_hdr(h: &mut ScionHeaderView, k: usize) -> Option<String> {
    let mut k = k;
    slot!(k, 2, "hdr.set_version", h.set_version([15u8, 0][k]));
    slot!(k, 1, "hdr.set_traffic_class", h.set_traffic_class(0xff));
    slot!(k, 1, "hdr.set_flow_id", h.set_flow_id(0xffff_ffff));
    slot!(k, 4, "hdr.set_next_header", h.set_next_header(ProtocolNumber::from([17u8, 202, 6, 255][k])));
    slot!(k, 1, "hdr.set_src_ia", { h.set_src_isd(Isd(0xffff)); h.set_src_as(Asn(u64::MAX)); });
    slot!(k, 1, "hdr.set_dst_ia", { h.set_dst_isd(Isd(0)); h.set_dst_as(Asn(0xffff_ffff_ffff)); });
    let mut p = h.path_mut();
    mut_path(&mut p, k)
}
fn mut_udpd(u: &mut UdpDatagramView, k: usize) -> Option<String> {
    let mut k = k;
    slot!(k, 1, "udpd.set_ports", { u.set_src_port(0xffff); u.set_dst_port(0); });
    slot!(k, 4, "udpd.set_length", u.set_length([0u16, 7, 8, 0xffff][k]));
    slot!(k, 1, "udpd.set_checksum", u.set_checksum(0xffff));
    slot!(k, 1, "udpd.payload_mut.fill", u.payload_mut().fill(0xff));
    let _ = k;
    None
}

/// The type setter of the unknown-message view is exercised only while it is a SAFE fn (the check
/// driver probes that with the compiler and sets this variable).
fn unk_settype_is_safe() -> bool {
    std::env::var("WIRELAYOUT_UNK_SETTYPE_SAFE").map(|v| v == "1").unwrap_or(false)
}

fn mut_scmpm(s: &mut ScmpPayloadView, k: usize) -> Option<String> {
    let mut k = k;
    slot!(k, 1, "scmpm.set_code", s.set_code(0xff));
    slot!(k, 1, "scmpm.set_checksum", s.set_checksum(0xffff));
    // per-type safe setters reached through message_mut()
    let ia = IsdAsn(u64::MAX);
    match s.message_mut() {
        ScmpMessageViewMut::DestinationUnreachable(v) => {
            slot!(k, 1, "scmp.du.set_fields", { v.set_code(0xffu8.into()); v.set_checksum(0xffff); v.set_reserved(0xffff_ffff); });
            slot!(k, 1, "scmp.du.offending_packet_mut.fill", v.offending_packet_mut().fill(0xff));
        }
        ScmpMessageViewMut::PacketTooBig(v) => {
            slot!(k, 1, "scmp.ptb.set_fields", { v.set_code(0xff); v.set_checksum(0xffff); v.set_mtu(0xffff); });
            slot!(k, 1, "scmp.ptb.offending_packet_mut.fill", v.offending_packet_mut().fill(0xff));
        }
        ScmpMessageViewMut::ParameterProblem(v) => {
            slot!(k, 1, "scmp.pp.set_fields", { v.set_code(0xffu8.into()); v.set_checksum(0xffff); v.set_pointer(0xffff); });
            slot!(k, 1, "scmp.pp.offending_packet_mut.fill", v.offending_packet_mut().fill(0xff));
        }
        ScmpMessageViewMut::ExternalInterfaceDown(v) => {
            slot!(k, 1, "scmp.eid.set_fields", { v.set_code(0xff); v.set_checksum(0xffff); v.set_isd_asn(ia); v.set_interface_id(u64::MAX); });
            slot!(k, 1, "scmp.eid.offending_packet_mut.fill", v.offending_packet_mut().fill(0xff));
        }
        ScmpMessageViewMut::InternalConnectivityDown(v) => {
            slot!(k, 1, "scmp.icd.set_fields", { v.set_code(0xff); v.set_checksum(0xffff); v.set_isd_asn(ia); v.set_ingress_interface_id(u64::MAX); v.set_egress_interface_id(u64::MAX); });
            slot!(k, 1, "scmp.icd.offending_packet_mut.fill", v.offending_packet_mut().fill(0xff));
        }
        ScmpMessageViewMut::EchoRequest(v) => {
            slot!(k, 1, "scmp.ereq.set_fields", { v.set_code(0xff); v.set_checksum(0xffff); v.set_identifier(0xffff); v.set_sequence_number(0xffff); });
            slot!(k, 1, "scmp.ereq.data_mut.fill", v.data_mut().fill(0xff));
        }
        ScmpMessageViewMut::EchoReply(v) => {
            slot!(k, 1, "scmp.erep.set_fields", { v.set_code(0xff); v.set_checksum(0xffff); v.set_identifier(0xffff); v.set_sequence_number(0xffff); });
            slot!(k, 1, "scmp.erep.data_mut.fill", v.data_mut().fill(0xff));
        }
        ScmpMessageViewMut::TracerouteRequest(v) => {
            slot!(k, 1, "scmp.treq.set_fields", { v.set_code(0xff); v.set_checksum(0xffff); v.set_identifier(0xffff); v.set_sequence_number(0xffff); v.set_isd_asn(ia); v.set_interface_id(u64::MAX); });
        }
        ScmpMessageViewMut::TracerouteReply(v) => {
            slot!(k, 1, "scmp.trep.set_fields", { v.set_code(0xff); v.set_checksum(0xffff); v.set_identifier(0xffff); v.set_sequence_number(0xffff); v.set_isd_asn(ia); v.set_interface_id(u64::MAX); });
        }
        ScmpMessageViewMut::Unknown(v) => {
            slot!(k, 1, "scmp.unk.set_fields", { v.set_code(0xff); v.set_checksum(0xffff); });
            slot!(k, 1, "scmp.unk.message_specific_data_mut.fill", v.message_specific_data_mut().fill(0xff));
            if unk_settype_is_safe() {
                // compiles whether or not the setter is an `unsafe fn`; only RUN while it is safe
                #[allow(unused_unsafe)]
                {
                    slot!(k, 10, "scmp.unk.set_message_type", unsafe { v.set_message_type([1u8, 2, 4, 5, 6, 128, 129, 130, 131, 0][k]) });
                }
            }
        }
    }
    let _ = k;
    None
}
fn mut_udp_pkt(u: &mut ScionUdpPacketView, k: usize) -> Option<String> {
    let mut k = k;
    // as_raw_mut() is a SAFE fn on the UDP packet view
    slot!(k, 2, "udp.as_raw_mut.payload_mut.fill", u.as_raw_mut().payload_mut().fill([0u8, 0xff][k]));
    slot!(k, 3, "udp.as_raw_mut.payload_mut.write_length", { let p = u.as_raw_mut().payload_mut(); if p.len() >= 6 { p[4] = 0; p[5] = [0u8, 7, 8][k]; } });
    slot!(k, 1, "udp.into_raw_mut.payload_mut.fill", { let r: &mut ScionRawPacketView = u.into(); r.payload_mut().fill(0x01); });
    mut_hdr(u.header_mut(), k)
}
fn mut_scmp_pkt(s: &mut ScionScmpPacketView, k: usize) -> Option<String> {
    mut_hdr(s.header_mut(), k)
}
fn mut_raw(r: &mut ScionRawPacketView, k: usize) -> Option<String> {
    let mut k = k;
    slot!(k, 2, "raw.payload_mut.fill", r.payload_mut().fill([0u8, 0xff][k]));
    // payload bytes where the upper-layer length / type fields live
    slot!(k, 3, "raw.payload_mut.write_udp_length", { let p = r.payload_mut(); if p.len() >= 6 { p[4] = 0; p[5] = [0u8, 7, 8][k]; } });
    slot!(k, 6, "raw.payload_mut.write_scmp_type", { let p = r.payload_mut(); if !p.is_empty() { p[0] = [1u8, 5, 6, 128, 130, 99][k]; } });
    slot!(k, 6, "raw.try_as_udp_mut", { if let Ok(u) = r.try_as_udp_mut() { let _ = mut_udp_pkt(u, k); } });
    slot!(k, 3, "raw.try_as_scmp_mut.header_mut", { if let Ok(s) = r.try_as_scmp_mut() { let _ = mut_hdr(s.header_mut(), k); } });
    slot!(k, 2, "raw.try_from_raw_mut", {
        if k == 0 {
            if let Ok(u) = ScionUdpPacketView::try_from_raw_mut(r) { u.as_raw_mut().payload_mut().fill(0x02); }
        } else if let Ok(s) = ScionScmpPacketView::try_from_raw_mut(r) {
            s.header_mut().set_traffic_class(1);
        }
    });
    mut_hdr(r.header_mut(), k)
}

// ------------------------------------------------------------------------------------ running the catalogue on one accepted view

/// `$ty` view type, `$read` accessor fn, `$mutate` mutator fn (k-th mutator -> its name, None past the end)
macro_rules! run_catalogue {
    ($ctx:expr, $arena:expr, $exact:expr, $end:expr, $pairs:expr, $ty:ty, $read:ident, $mutate:ident, $maxpairs:expr, $idx:expr) => {{
        let exact: &[u8] = $exact;
        let fresh = |ctx: &mut Ctx| -> Option<&'static mut $ty> {
            let buf = $arena.place($end, exact);
            ctx.lo = buf.as_ptr() as usize;
            ctx.hi = ctx.lo + buf.len();
            match <$ty>::try_from_mut_slice(buf) {
                Ok((v, rest)) => {
                    if !rest.is_empty() {
                        let l = ctx.label.clone();
                        ctx.add(format!("Conf:exact-copy-rest:{}", l), "view re-created on exactly its own bytes leaves a rest".into());
                    }
                    Some(v)
                }
                Err(_) => None,
            }
        };
        let set_m = |ctx: &mut Ctx, a: Option<usize>, b: Option<usize>| {
            prog().stage = 1;
            prog().m1 = a.map(|x| x as u32 + 1).unwrap_or(0);
            prog().m2 = b.map(|x| x as u32 + 1).unwrap_or(0);
            prog().acc = 0;
            set_name(&mut prog().accname, "mutator");
            set_name(&mut prog().m1name, "");
            set_name(&mut prog().m2name, "");
            ctx.m1.clear();
            ctx.m2.clear();
        };
        set_m($ctx, None, None);
        let mut recreated = true;
        match fresh($ctx) {
            None => recreated = false,
            Some(v) => $read($ctx, v),
        }
        let mut names: Vec<String> = vec![];
        if recreated {
            let mut k1 = 0usize;
            loop {
                set_m($ctx, Some(k1), None);
                let Some(v) = fresh($ctx) else { break };
                // the name is only known once the mutator returned: until then the crash record carries its index
                set_name(&mut prog().m1name, &format!("{}.mutator#{}", $ctx.label, k1));
                let mut name: Option<String> = None;
                let r = catch_unwind(AssertUnwindSafe(|| { name = $mutate(v, k1); }));
                if let Err(e) = r {
                    let l = $ctx.label.clone();
                    $ctx.add(format!("Panic:mutator:{}#{}", l, k1), format!("safe mutator #{k1} of the {} view panicked: {}", l, panic_msg(e)));
                    name = Some(format!("{}.mutator#{}", l, k1));
                }
                let Some(nm) = name else { break };
                set_name(&mut prog().m1name, &nm);
                $ctx.m1 = nm.clone();
                names.push(nm);
                // quick tier, vectors without sequences: every 8th mutator, rotating with the vector index
                if $pairs || $maxpairs > 1000 || (k1 + $idx as usize) % 8 == 0 {
                    $read($ctx, v);
                }
                k1 += 1;
            }
            let nmut = names.len();
            if $pairs && nmut > 0 {
                let total = nmut * nmut;
                let step = total.div_ceil($maxpairs).max(1);
                let mut pi = ($idx as usize) % step;
                while pi < total {
                    let (a, b) = (pi / nmut, pi % nmut);
                    pi += step;
                    set_m($ctx, Some(a), Some(b));
                    set_name(&mut prog().m1name, &names[a]);
                    set_name(&mut prog().m2name, &names[b]);
                    let Some(v) = fresh($ctx) else { break };
                    let r = catch_unwind(AssertUnwindSafe(|| {
                        let _ = $mutate(v, a);
                        let _ = $mutate(v, b);
                    }));
                    $ctx.m1 = names[a].clone();
                    $ctx.m2 = names[b].clone();
                    if let Err(e) = r {
                        let m = panic_msg(e);
                        $ctx.bad("Panic", "mutator", format!("a safe mutator panicked: {m}"));
                    }
                    $read($ctx, v);
                }
            }
            // thorough tier: sequences of three mutators (then all accessors), a stride sample of the nmut^3 space
            // rotating with the vector index
            if $pairs && nmut > 0 && $maxpairs > 1000 {
                const MAXTRIPLES: usize = 2000;
                let total = nmut * nmut * nmut;
                let step = total.div_ceil(MAXTRIPLES).max(1);
                let mut ti = ($idx as usize) % step;
                while ti < total {
                    let (a, b, cc) = (ti / (nmut * nmut), (ti / nmut) % nmut, ti % nmut);
                    ti += step;
                    set_m($ctx, Some(a), Some(b));
                    let second = format!("{}+{}", names[b], names[cc]);
                    set_name(&mut prog().m1name, &names[a]);
                    set_name(&mut prog().m2name, &second);
                    let Some(v) = fresh($ctx) else { break };
                    let r = catch_unwind(AssertUnwindSafe(|| {
                        let _ = $mutate(v, a);
                        let _ = $mutate(v, b);
                        let _ = $mutate(v, cc);
                    }));
                    $ctx.m1 = names[a].clone();
                    $ctx.m2 = second;
                    if let Err(e) = r {
                        let m = panic_msg(e);
                        $ctx.bad("Panic", "mutator", format!("a safe mutator panicked: {m}"));
                    }
                    $read($ctx, v);
                }
            }
        }
        $ctx.m1.clear();
        $ctx.m2.clear();
        (recreated, names.len())
    }};
}

// ------------------------------------------------------------------------------------ byte strings and descriptors

fn nib_len(n: u8) -> usize {
    ((n & 3) as usize + 1) * 4
}
fn g(v: &Value, k: &str) -> u64 {
    v[k].as_u64().unwrap_or(0)
}
struct Xs(u64);
impl Xs {
    fn next(&mut self) -> u8 {
        self.0 ^= self.0 << 13;
        self.0 ^= self.0 >> 7;
        self.0 ^= self.0 << 17;
        (self.0 >> 24) as u8
    }
}

/// a VALID inner SCION packet (consistent length fields) for SCMP quotes: header as described, 12 bytes of
/// upper layer (UDP with Length 12, or an SCMP echo request, or opaque bytes)
fn inner_packet(qv: &Value, x: &mut Xs) -> Vec<u8> {
    let (dn, sn, pt) = (g(qv, "dn") as u8, g(qv, "sn") as u8, g(qv, "pt") as u8);
    let c = g(qv, "c") as usize;
    let t = g(qv, "t") as usize;
    let mut b: Vec<u8> = (0..t).map(|_| x.next()).collect();
    b[0] = 0x05;
    b[4] = g(qv, "nh") as u8;
    b[5] = (c / 4) as u8;
    b[6] = (g(qv, "pl") >> 8) as u8;
    b[7] = g(qv, "pl") as u8;
    b[8] = pt;
    b[9] = (dn << 4) | sn;
    let a = 28 + nib_len(dn) + nib_len(sn);
    if pt == 1 {
        let segs = g(qv, "s0") << 12;
        b[a] = 0;
        b[a + 1] = (segs >> 16) as u8 & 3;
        b[a + 2] = (segs >> 8) as u8;
        b[a + 3] = segs as u8;
    }
    if c + 6 <= t {
        b[c] = 128; // SCMP echo request when the inner next header is SCMP
        b[c + 4] = (g(qv, "ul") >> 8) as u8;
        b[c + 5] = g(qv, "ul") as u8;
    }
    b
}

/// the byte string of a vector: fields of the vector where they fit, pseudo-random bytes elsewhere
fn build(v: &Value, idx: u64) -> Vec<u8> {
    let len = g(v, "len") as usize;
    let mut x = Xs(0x9E37_79B9_7F4A_7C15 ^ (idx.wrapping_mul(0xD1B5_4A32_D192_ED03) | 1));
    let mut b: Vec<u8> = (0..len).map(|_| x.next()).collect();
    let mut put = |off: usize, val: u8| {
        if off < len {
            b[off] = val;
        }
    };
    match v["k"].as_str().unwrap_or("") {
        "pkt" => {
            let (dn, sn) = (g(v, "dn") as u8, g(v, "sn") as u8);
            let hl = g(v, "hl") as usize;
            put(0, ((g(v, "ver") as u8) << 4) | 0x0a);
            put(4, g(v, "nh") as u8);
            put(5, hl as u8);
            put(6, (g(v, "pl") >> 8) as u8);
            put(7, g(v, "pl") as u8);
            put(8, g(v, "pt") as u8);
            put(9, (dn << 4) | sn);
            let a = 28 + nib_len(dn) + nib_len(sn);
            if g(v, "pt") == 1 {
                let segs = (g(v, "s0") << 12) | (g(v, "s1") << 6) | g(v, "s2");
                put(a, ((g(v, "ci") as u8) << 6) | (g(v, "ch") as u8 & 63));
                put(a + 1, (segs >> 16) as u8 & 3); // RSV bits zero
                put(a + 2, (segs >> 8) as u8);
                put(a + 3, segs as u8);
            }
            // where an accepting decoder looks for the upper layer; the UDP Length field and the SCMP
            // type byte do not overlap, so both descriptor fields are realised whatever nh says
            let l4 = hl * 4;
            if l4 >= a {
                put(l4, g(v, "st") as u8);
                put(l4 + 4, (g(v, "ul") >> 8) as u8);
                put(l4 + 5, g(v, "ul") as u8);
            }
            // SCMP error quoting a valid inner SCION packet: the first q bytes of the inner packet follow the
            // fixed part of the SCMP message
            if let Some(qv) = v.get("quote") {
                let fixed = match g(v, "st") { 5 => 20, 6 => 28, _ => 8 };
                let inner = inner_packet(qv, &mut x);
                let q = (g(qv, "q") as usize).min(inner.len());
                for (i, byte) in inner[..q].iter().enumerate() {
                    put(l4 + fixed + i, *byte);
                }
            }
        }
        "stdpath" => {
            let segs = (g(v, "s0") << 12) | (g(v, "s1") << 6) | g(v, "s2");
            put(0, ((g(v, "ci") as u8) << 6) | (g(v, "ch") as u8 & 63));
            put(1, (segs >> 16) as u8 & 3);
            put(2, (segs >> 8) as u8);
            put(3, segs as u8);
        }
        "udpd" => {
            put(4, (g(v, "ul") >> 8) as u8);
            put(5, g(v, "ul") as u8);
        }
        "scmpm" => put(0, g(v, "st") as u8),
        _ => {}
    }
    b
}

/// independent field extractor: the size-determining fields as a reader of the SCION header
/// specification finds them; fields beyond the end of the buffer read as 0
fn extract(b: &[u8]) -> Value {
    let at = |i: usize| -> u64 { b.get(i).copied().unwrap_or(0) as u64 };
    let at16 = |i: usize| -> u64 { if i + 1 < b.len() { (at(i) << 8) | at(i + 1) } else { 0 } };
    let (dn, sn) = (at(9) >> 4, at(9) & 15);
    let a = 28 + nib_len(dn as u8) + nib_len(sn as u8);
    let pt = at(8);
    let (mut s0, mut s1, mut s2) = (0, 0, 0);
    if pt == 1 && b.len() >= a + 4 {
        let v = (at(a + 1) << 16) | (at(a + 2) << 8) | at(a + 3);
        s0 = (v >> 12) & 63;
        s1 = (v >> 6) & 63;
        s2 = v & 63;
    }
    let l4 = at(5) as usize * 4;
    json!({"len": b.len(), "ver": at(0) >> 4, "hl": at(5), "pl": at16(6), "pt": pt, "dn": dn, "sn": sn,
           "s0": s0, "s1": s1, "s2": s2, "ul": at16(l4 + 4), "st": at(l4)})
}

// ------------------------------------------------------------------------------------ one vector

struct ViewObs {
    ok: bool,
    size: usize,
}

/// constructors of view type T on `bytes` at both placements; returns the observation of
/// try_from_slice (tail placement) and records P-violations
macro_rules! constructors {
    ($ctx:expr, $arena:expr, $bytes:expr, $ty:ty, $vi:expr) => {{
        let bytes: &[u8] = $bytes;
        let mut first: Option<ViewObs> = None;
        for place in 0..2u32 {
            prog().view = $vi;
            prog().place = place;
            prog().stage = 0;
            prog().m1 = 0;
            prog().m2 = 0;
            set_name(&mut prog().accname, "constructor");
            set_name(&mut prog().m1name, "");
            set_name(&mut prog().m2name, "");
            let end = place == 0;
            // try_from_slice
            prog().acc = 1;
            let buf = $arena.place(end, bytes);
            let (lo, n) = (buf.as_ptr() as usize, buf.len());
            let r = catch_unwind(AssertUnwindSafe(|| match <$ty>::try_from_slice(buf) {
                Ok((v, rest)) => {
                    let s = v.as_slice();
                    Some((s.as_ptr() as usize, s.len(), rest.len()))
                }
                Err(_) => None,
            }));
            let label = VIEW_NAMES[$vi as usize];
            let obs = match r {
                Err(e) => {
                    $ctx.add(format!("Panic:{label}:try_from_slice"), format!("{label} try_from_slice panicked on {n} bytes: {}", panic_msg(e)));
                    ViewObs { ok: false, size: 0 }
                }
                Ok(None) => ViewObs { ok: false, size: 0 },
                Ok(Some((p, sz, rest))) => {
                    if sz > n || p != lo || sz + rest != n {
                        $ctx.add(format!("SizeExceedsInput:{label}"),
                                 format!("{label} view built from {n} bytes reports {sz} bytes of its own (rest {rest}, offset {})", p as i64 - lo as i64));
                    }
                    ViewObs { ok: true, size: sz }
                }
            };
            // try_from_mut_slice must agree
            prog().acc = 2;
            let buf = $arena.place(end, bytes);
            let r = catch_unwind(AssertUnwindSafe(|| match <$ty>::try_from_mut_slice(buf) {
                Ok((v, _)) => Some(v.as_slice().len()),
                Err(_) => None,
            }));
            match r {
                Err(e) => $ctx.add(format!("Panic:{label}:try_from_mut_slice"), format!("{label} try_from_mut_slice panicked: {}", panic_msg(e))),
                Ok(x) => {
                    if x.is_some() != obs.ok || (obs.ok && x != Some(obs.size)) {
                        $ctx.add(format!("Conf:{label}:mut-slice-differs"), format!("try_from_mut_slice {:?} vs try_from_slice ok={} size={}", x, obs.ok, obs.size));
                    }
                    if let Some(sz) = x {
                        if sz > n {
                            $ctx.add(format!("SizeExceedsInput:{label}"), format!("{label} (mut) view built from {n} bytes reports {sz} bytes"));
                        }
                    }
                }
            }
            // try_from_boxed: exact-size requirement; a boxed view larger than its box would be fatal
            prog().acc = 3;
            let r = catch_unwind(AssertUnwindSafe(|| match <$ty>::try_from_boxed(bytes.to_vec().into_boxed_slice()) {
                Ok(v) => Some(v.as_slice().len()),
                Err(_) => None,
            }));
            match r {
                Err(e) => $ctx.add(format!("Panic:{label}:try_from_boxed"), format!("{label} try_from_boxed panicked: {}", panic_msg(e))),
                Ok(Some(sz)) if sz != n => $ctx.add(format!("SizeExceedsInput:{label}:boxed"), format!("{label} boxed view over {n} bytes reports {sz}")),
                _ => {}
            }
            if first.is_none() {
                first = Some(obs);
            } else if let Some(f) = &first {
                if f.ok != obs.ok || f.size != obs.size {
                    $ctx.add(format!("Conf:{label}:placement-dependent"), "result depends on where the buffer lies in memory".into());
                }
            }
        }
        first.unwrap()
    }};
}

fn obs_json(o: &ViewObs) -> Value {
    json!({"ok": o.ok, "size": o.size})
}

fn run_vector(arena: &Arena, idx: u64, v: &Value, bytes: &[u8], thorough: bool) -> Value {
    let mut ctx = Ctx { pv: vec![], lo: 0, hi: 0, label: String::new(), m1: String::new(), m2: String::new(), seen: Default::default() };
    let pairs = v["pairs"].as_bool().unwrap_or(false);
    let maxpairs: usize = if thorough { 100_000 } else { 300 };
    let mut obs = serde_json::Map::new();
    let mut mutators = serde_json::Map::new();
    prog().idx = idx;
    macro_rules! view {
        ($name:expr, $vi:expr, $ty:ty, $read:ident, $mutate:ident) => {{
            ctx.label = $name.to_string();
            let o = constructors!(&mut ctx, arena, bytes, $ty, $vi);
            if o.ok && o.size <= bytes.len() {
                let exact = bytes[..o.size].to_vec();
                for place in 0..2u32 {
                    prog().view = $vi;
                    prog().place = place;
                    let (re, nm) = run_catalogue!(&mut ctx, arena, &exact, place == 0, pairs, $ty, $read, $mutate, maxpairs, idx);
                    if !re {
                        ctx.add(format!("Conf:{}:exact-copy-rejected", $name), "a view re-created on exactly the bytes it reported is rejected".into());
                    }
                    mutators.insert($name.to_string(), json!(nm));
                }
            }
            obs.insert($name.to_string(), obs_json(&o));
            o
        }};
    }
    match v["k"].as_str().unwrap_or("pkt") {
        "pkt" => {
            view!("hdr", 0, ScionHeaderView, read_hdr, mut_hdr);
            let r = view!("raw", 1, ScionRawPacketView, read_raw_pkt, mut_raw);
            let u = view!("udp", 2, ScionUdpPacketView, read_udp_pkt, mut_udp_pkt);
            let s = view!("scmp", 3, ScionScmpPacketView, read_scmp_pkt, mut_scmp_pkt);
            // sub-extents as the real views report them
            ctx.label = "sub".into();
            if r.ok {
                if let Ok(x) = catch_unwind(AssertUnwindSafe(|| {
                    let buf = arena.place(true, bytes);
                    ScionRawPacketView::try_from_slice(buf).map(|(v, _)| (v.payload().len(), v.header().as_slice().len())).ok()
                })) {
                    if let Some((p, h)) = x {
                        obs.insert("payload".into(), json!(p));
                        obs.insert("hdrsize".into(), json!(h));
                    }
                }
            }
            if u.ok {
                if let Ok(Some(x)) = catch_unwind(AssertUnwindSafe(|| {
                    let buf = arena.place(true, bytes);
                    ScionUdpPacketView::try_from_slice(buf).map(|(v, _)| v.udp().as_slice().len()).ok()
                })) {
                    obs.insert("udpd".into(), json!(x));
                }
            }
            if s.ok {
                if let Ok(Some(x)) = catch_unwind(AssertUnwindSafe(|| {
                    let buf = arena.place(true, bytes);
                    ScionScmpPacketView::try_from_slice(buf).map(|(v, _)| v.scmp().as_slice().len()).ok()
                })) {
                    obs.insert("scmpm".into(), json!(x));
                }
                if v.get("quote").is_some() {
                    if let Ok(Some(x)) = catch_unwind(AssertUnwindSafe(|| {
                        let buf = arena.place(true, bytes);
                        ScionScmpPacketView::try_from_slice(buf).map(|(v, _)| v.scmp().dst_port().is_some()).ok()
                    })) {
                        obs.insert("dport".into(), json!(x));
                    }
                }
            }
        }
        "stdpath" => {
            view!("view", 4, StandardPathView, read_std, mut_std);
        }
        "onehop" => {
            view!("view", 5, OneHopPathView, read_onehop, mut_onehop);
        }
        "info" => {
            fn rd(c: &mut Ctx, i: &InfoFieldView) {
                acc(c, 140, "info.fields", |c| read_info(c, i));
            }
            fn mt(i: &mut InfoFieldView, k: usize) -> Option<String> {
                mut_info(i, k)
            }
            view!("view", 6, InfoFieldView, rd, mt);
        }
        "hop" => {
            fn rd(c: &mut Ctx, h: &HopFieldView) {
                acc(c, 141, "hop.fields", |c| read_hop(c, h, None));
            }
            fn mt(h: &mut HopFieldView, k: usize) -> Option<String> {
                mut_hop(h, k)
            }
            view!("view", 7, HopFieldView, rd, mt);
        }
        "udpd" => {
            view!("view", 8, UdpDatagramView, read_udpd, mut_udpd);
        }
        _ => {
            view!("view", 9, ScmpPayloadView, read_scmpm, mut_scmpm);
        }
    }
    json!({"i": idx, "d": extract(bytes), "obs": Value::Object(obs), "pv": ctx.pv, "mutators": Value::Object(mutators)})
}

// ------------------------------------------------------------------------------------ parent / child

fn cpu_ticks(pid: i32) -> Option<u64> {
    let s = std::fs::read_to_string(format!("/proc/{pid}/stat")).ok()?;
    let rest = &s[s.rfind(')')? + 2..];
    let f: Vec<&str> = rest.split(' ').collect();
    Some(f.get(11)?.parse::<u64>().ok()? + f.get(12)?.parse::<u64>().ok()?)
}

/// Run `work(i)` for i in 0..n inside child processes; a vector that kills the child (signal) or
/// burns more than HANG_CPU_S seconds of its own CPU time is reported and skipped.
fn supervise(n: u64, outp: &str, work: &dyn Fn(u64) -> Value) {
    const HANG_CPU_S: f64 = 90.0;
    unsafe {
        let p = libc::mmap(std::ptr::null_mut(), PAGE, libc::PROT_READ | libc::PROT_WRITE, libc::MAP_SHARED | libc::MAP_ANONYMOUS, -1, 0);
        if p == libc::MAP_FAILED {
            eprintln!("mmap shared failed");
            std::process::exit(2);
        }
        PROGRESS = p as *mut Progress;
    }
    std::fs::File::create(outp).expect("create out");
    let tick = unsafe { libc::sysconf(libc::_SC_CLK_TCK) } as f64;
    let mut start = 0u64;
    while start < n {
        prog().idx = start;
        let pid = unsafe { libc::fork() };
        if pid < 0 {
            eprintln!("fork failed");
            std::process::exit(2);
        }
        if pid == 0 {
            // child
            std::panic::set_hook(Box::new(|_| {}));
            let f = std::fs::OpenOptions::new().append(true).open(outp).expect("open out");
            let mut w = std::io::BufWriter::new(f);
            for i in start..n {
                prog().idx = i;
                let line = work(i);
                serde_json::to_writer(&mut w, &line).expect("write");
                w.write_all(b"\n").expect("write");
                w.flush().expect("flush");
            }
            unsafe { libc::_exit(0) };
        }
        // parent: wait, watching CPU time per vector
        let mut last_idx = u64::MAX;
        let mut cpu_at = 0u64;
        let mut status: i32 = 0;
        let mut hang = false;
        loop {
            let r = unsafe { libc::waitpid(pid, &mut status, libc::WNOHANG) };
            if r == pid {
                break;
            }
            if r < 0 {
                eprintln!("waitpid failed");
                std::process::exit(2);
            }
            let cur = unsafe { std::ptr::read_volatile(&(*PROGRESS).idx) };
            if let Some(t) = cpu_ticks(pid) {
                if cur != last_idx {
                    last_idx = cur;
                    cpu_at = t;
                } else if (t - cpu_at) as f64 / tick > HANG_CPU_S {
                    hang = true;
                    unsafe { libc::kill(pid, libc::SIGKILL) };
                    unsafe { libc::waitpid(pid, &mut status, 0) };
                    break;
                }
            }
            std::thread::sleep(std::time::Duration::from_millis(20));
        }
        if !hang && libc::WIFEXITED(status) && libc::WEXITSTATUS(status) == 0 {
            break;
        }
        let p = prog();
        let crash = json!({
            "i": p.idx,
            "crash": {
                "hang": hang,
                "signal": if libc::WIFSIGNALED(status) { libc::WTERMSIG(status) } else { 0 },
                "exit": if libc::WIFEXITED(status) { libc::WEXITSTATUS(status) } else { -1 },
                "view": VIEW_NAMES.get(p.view as usize).copied().unwrap_or("?"),
                "place": if p.place == 0 { "flush-against-tail-guard" } else { "flush-after-front-guard" },
                "stage": if p.stage == 0 { "constructor" } else { "catalogue" },
                "m1": get_name(&p.m1name), "m2": get_name(&p.m2name), "acc": get_name(&p.accname), "accid": p.acc,
            }
        });
        let mut f = std::fs::OpenOptions::new().append(true).open(outp).expect("open out");
        writeln!(f, "{}", crash).expect("write");
        start = p.idx + 1;
    }
}

fn replay(inp: &str, outp: &str) {
    let vectors: Vec<Value> = vh_core::read_ndjson(inp).into_iter().filter(|x| x.get("v").is_some()).collect();
    let thorough = vh_core::tier_is_thorough();
    let maxlen = vectors.iter().map(|x| g(&x["v"], "len") as usize).max().unwrap_or(0);
    let arena = Arena::new(maxlen + 64);
    supervise(vectors.len() as u64, outp, &|i| {
        let v = &vectors[i as usize]["v"];
        let bytes = build(v, i);
        run_vector(&arena, i, v, &bytes, thorough)
    });
}

// ------------------------------------------------------------------------------------ record: random strings and mutations

fn valid_packets(rng: &mut vh_core::Rng) -> Vec<Vec<u8>> {
    // built independently of sciparse: consistent headers for every path kind, UDP and SCMP payloads
    let mut out = vec![];
    for &(dn, sn) in &[(0u8, 0u8), (3, 3), (4, 0), (0, 7), (15, 9)] {
        for pt in [0u8, 1, 2, 200] {
            for nh in [17u8, 202, 6] {
                let (dl, sl) = (nib_len(dn), nib_len(sn));
                let path: Vec<u8> = match pt {
                    0 => vec![],
                    1 => {
                        let (s0, s1, s2) = (2u32, 3u32, 1u32);
                        let v = (s0 << 12) | (s1 << 6) | s2;
                        let mut p = vec![(1 << 6) | 2, (v >> 16) as u8, (v >> 8) as u8, v as u8];
                        p.extend(rng.bytes(3 * 8 + 6 * 12));
                        p
                    }
                    2 => rng.bytes(32),
                    _ => rng.bytes(12),
                };
                let l4: Vec<u8> = match nh {
                    17 => {
                        let mut d = rng.bytes(4);
                        d.extend(20u16.to_be_bytes());
                        d.extend(rng.bytes(2 + 12));
                        d
                    }
                    202 => {
                        let t = *rng.pick(&[1u8, 2, 4, 5, 6, 128, 129, 130, 131, 77]);
                        let mut d = vec![t];
                        d.extend(rng.bytes(39));
                        d
                    }
                    _ => rng.bytes(16),
                };
                let hdr = 28 + dl + sl + path.len();
                let mut b = vec![0x0a, rng.below(256) as u8, 1, 2, nh, (hdr / 4) as u8];
                b.extend((l4.len() as u16).to_be_bytes());
                b.extend([pt, (dn << 4) | sn, 0, 0]);
                b.extend(rng.bytes(16 + dl + sl));
                b.extend(path);
                b.extend(l4);
                out.push(b);
            }
        }
    }
    out
}

fn record(outp: &str, results: &str) {
    let mut rng = vh_core::Rng::from_env();
    let thorough = vh_core::tier_is_thorough();
    let n_total = if thorough { 60000 } else { 8000 };
    let valid = valid_packets(&mut rng);
    let mut strings: Vec<(String, Vec<u8>)> = vec![];
    for b in &valid {
        strings.push(("valid".into(), b.clone()));
    }
    // single-byte mutations of valid packets (every size-relevant byte with boundary values, others random)
    while strings.len() < n_total / 2 {
        let mut b = rng.pick(&valid).clone();
        let hdr = b[5] as usize * 4;
        let a = 28 + nib_len(b[9] >> 4) + nib_len(b[9] & 15);
        let pos = match rng.below(10) {
            0 => 0,
            1 => 5,
            2 => 6 + rng.below(2) as usize,
            3 => 8,
            4 => 9,
            5 => a + rng.below(4) as usize,
            6 => hdr + rng.below(8) as usize,
            _ => rng.below(b.len() as u64) as usize,
        };
        if pos < b.len() {
            b[pos] = if rng.chance(1, 2) { *rng.pick(&[0u8, 1, 2, 3, 4, 7, 8, 9, 0x3f, 0x40, 0x7f, 0x80, 0xfe, 0xff]) } else { rng.below(256) as u8 };
        }
        if rng.chance(1, 3) {
            let cut = rng.below(b.len() as u64 + 1) as usize;
            b.truncate(cut);
        }
        strings.push(("mutated".into(), b));
    }
    // quoting packets: SCMP errors of every kind whose quote is one of the valid packets (SCION/UDP, SCION/SCMP, ...),
    // quote cut at a random prefix, outer buffer cut at a random length, optionally one mutated byte inside the quote
    let n_quote = if thorough { 30000 } else { 2500 };
    for _ in 0..n_quote {
        let st = *rng.pick(&[1u8, 2, 4, 5, 6]);
        let fixed = match st { 5 => 20usize, 6 => 28, _ => 8 };
        let inner = rng.pick(&valid).clone();
        let q = match rng.below(4) { 0 => inner.len(), _ => rng.below(inner.len() as u64 + 1) as usize };
        let mut b = vec![0x0c, 0, 0, 1, 202, 9];
        b.extend(((fixed + q) as u16).to_be_bytes());
        b.extend([0, 0, 0, 0]);
        b.extend(rng.bytes(24));
        b.push(st);
        b.extend(rng.bytes(fixed - 1));
        b.extend_from_slice(&inner[..q]);
        if q > 0 && rng.chance(1, 3) {
            let i = 36 + fixed + rng.below(q.min(48) as u64) as usize;
            b[i] = rng.below(256) as u8;
        }
        if rng.chance(1, 2) {
            let cut = 36 + rng.below((b.len() - 36) as u64 + 1) as usize;
            b.truncate(cut);
        }
        strings.push(("quoting".into(), b));
    }
    // shaped strings: random segment-length triples over the whole 2^18 space, random address nibbles, consistent
    // or off-by-one HdrLen, cut at a random sub-extent boundary (+-1)
    let n_shaped = if thorough { 40000 } else { 1500 };
    for _ in 0..n_shaped {
        let (dn, sn) = (rng.below(16) as u8, rng.below(16) as u8);
        let pick = |rng: &mut vh_core::Rng| -> u32 { if rng.chance(1, 3) { *rng.pick(&[0u32, 1, 2, 31, 62, 63]) } else { rng.below(64) as u32 } };
        let (s0, s1, s2) = (pick(&mut rng), pick(&mut rng), pick(&mut rng));
        let a = 28 + nib_len(dn) + nib_len(sn);
        let ninfo = (s0 > 0) as usize + (s1 > 0) as usize + (s2 > 0) as usize;
        let c = a + 4 + 8 * ninfo + 12 * (s0 + s1 + s2) as usize;
        let hl = match rng.below(8) { 0 => (c / 4).saturating_sub(1), 1 => c / 4 + 1, _ => c / 4 }.min(255);
        let pl = rng.below(24) as usize;
        let mut b = rng.bytes(c + pl);
        b[0] = 0x0b;
        b[4] = *rng.pick(&[17u8, 202, 6]);
        b[5] = hl as u8;
        b[6] = 0;
        b[7] = pl as u8;
        b[8] = 1;
        b[9] = (dn << 4) | sn;
        let v = (s0 << 12) | (s1 << 6) | s2;
        b[a] = rng.below(256) as u8;
        b[a + 1] = (v >> 16) as u8 & 3;
        b[a + 2] = (v >> 8) as u8;
        b[a + 3] = v as u8;
        if rng.chance(1, 2) {
            let bounds = [12usize, a, a + 4, a + 4 + 8 * ninfo, c, c + 4, c + 8, c + pl];
            let cut = (*rng.pick(&bounds) + rng.below(3) as usize).saturating_sub(1).min(b.len());
            b.truncate(cut);
        }
        strings.push(("shaped".into(), b));
    }
    // random strings, half of them with a plausible first 12 bytes
    let n_total = strings.len() + n_total / 2;
    while strings.len() < n_total {
        let len = if rng.chance(1, 10) { rng.below(1400) } else { rng.below(160) } as usize;
        let mut b = rng.bytes(len);
        if b.len() >= 12 && rng.chance(1, 2) {
            b[0] &= 0x0f;
            b[8] = *rng.pick(&[0u8, 1, 1, 2, 3, 200]);
            let a = 28 + nib_len(b[9] >> 4) + nib_len(b[9] & 15);
            b[5] = ((a + if b[8] == 2 { 32 } else { 0 }) / 4) as u8;
            b[6] = 0;
        }
        strings.push(("random".into(), b));
    }
    let maxlen = strings.iter().map(|x| x.1.len()).max().unwrap_or(0);
    let arena = Arena::new(maxlen + 64);
    let pkt = json!({"k": "pkt", "pairs": false});
    supervise(strings.len() as u64, outp, &|i| {
        let (src, bytes) = &strings[i as usize];
        let mut r = run_vector(&arena, i, &pkt, bytes, thorough);
        r["ev"] = json!("obs");
        r["src"] = json!(src);
        if bytes.len() <= 96 {
            r["bytes"] = Value::Array(bytes.iter().map(|x| json!(x)).collect());
        }
        r
    });
    let mut st = serde_json::Map::new();
    st.insert("strings".into(), json!(strings.len()));
    std::fs::write(results, serde_json::to_string(&Value::Object(st)).unwrap()).expect("write results");
}

fn main() {
    let a: Vec<String> = std::env::args().collect();
    match a.get(1).map(|x| x.as_str()) {
        Some("replay") if a.len() == 4 => replay(&a[2], &a[3]),
        Some("record") if a.len() == 4 => record(&a[2], &a[3]),
        _ => {
            eprintln!("usage: wirelayout replay <vectors.ndjson> <out.ndjson> | record <events.ndjson> <results.json>");
            std::process::exit(2);
        }
    }
}
