//! Harness for the PathHeader family (C11, C12): spec/PathHeader/*.tla <-> sciparse standard-path API.
//!
//!   pathheader c12-replay <cells.ndjson> <out.ndjson>   TLC cells -> real view/model, P-monitors + conformance
//!   pathheader c11-replay <cases.ndjson> <out.ndjson>   TLC cells / journeys -> real advance API
//!   pathheader c12-record <events.ndjson> <results.json> seeded large shapes -> events for Trace_PathHeader
#[path = "../pathheader/common.rs"]
mod common;
#[path = "../pathheader/adv.rs"]
mod adv;
#[path = "../pathheader/c11.rs"]
mod c11;
#[path = "../pathheader/c12.rs"]
mod c12;
#[path = "../pathheader/record.rs"]
mod record;

use serde_json::{Value, json};
use vh_core::{NdjsonWriter, quiet_panics, read_ndjson};

fn c12_replay(inp: &str, outp: &str) {
    let cells = read_ndjson(inp);
    let mut w = NdjsonWriter::create(outp);
    for cell in &cells {
        let fam = cell["fam"].as_str().unwrap_or("std");
        let out = match fam {
            "std" => vh_core::catch(|| {
                let h = c12::cell_header(cell);
                let o = c12::check_std(&h);
                let mis = c12::conformance(cell, &o.obs);
                json!({"conf": mis.is_empty(), "mis": mis, "pv": o.pv, "obs": o.obs, "hdr": common::hex(&h.bytes()[..4])})
            })
            .unwrap_or_else(|msg| json!({"conf": false, "mis": [{"field": "harness", "spec": "interpretable result", "real": msg}], "pv": [], "obs": Value::Null})),
            "model" => vh_core::catch(|| {
                let (o, mis) = c12::model_cell(cell);
                json!({"conf": mis.is_empty(), "mis": mis, "pv": o.pv, "obs": o.obs})
            })
            .unwrap_or_else(|msg| json!({"conf": false, "mis": [{"field": "harness", "spec": "interpretable result", "real": msg}], "pv": [], "obs": Value::Null})),
            "scionpath" => vh_core::catch(|| {
                let (o, mis) = c12::scionpath_cell(cell);
                json!({"conf": mis.is_empty(), "mis": mis, "pv": o.pv, "obs": o.obs})
            })
            .unwrap_or_else(|msg| json!({"conf": false, "mis": [{"field": "harness", "spec": "interpretable result", "real": msg}], "pv": [], "obs": Value::Null})),
            "onehop" => vh_core::catch(|| {
                let (b, o, mis) = c12::onehop_cell(cell);
                json!({"conf": mis.is_empty(), "mis": mis, "pv": o.pv, "obs": o.obs, "hdr": common::hex(&b[..8])})
            })
            .unwrap_or_else(|msg| json!({"conf": false, "mis": [{"field": "harness", "spec": "interpretable result", "real": msg}], "pv": [], "obs": Value::Null})),
            _ => json!({"conf": false, "mis": [{"field": "fam", "spec": fam, "real": "unknown"}], "pv": [], "obs": Value::Null}),
        };
        w.write(&out);
    }
    w.finish();
}

fn c11_replay(inp: &str, outp: &str) {
    let cases = read_ndjson(inp);
    let mut w = NdjsonWriter::create(outp);
    for case in &cases {
        let out = match case["kind"].as_str().unwrap_or("cell") {
            "cell" | "walk" | "double" | "onehop" => vh_core::catch(|| match case["kind"].as_str() {
                Some("onehop") => c11::replay_onehop_journey(case),
                Some("walk") => c11::replay_walk(case),
                Some("double") => c11::replay_double(case),
                _ => c11::replay_cell(case),
            })
                .unwrap_or_else(|msg| json!({"conf": false, "mis": [{"field": "harness", "spec": "interpretable result", "real": msg}], "pv": []})),
            k => json!({"conf": false, "mis": [{"field": "kind", "spec": k, "real": "unknown"}], "pv": []}),
        };
        w.write(&out);
    }
    w.finish();
}

fn main() {
    if std::env::var("VERIF_PANIC_TRACE").is_err() {
        quiet_panics();
    }
    let a: Vec<String> = std::env::args().collect();
    match (a.get(1).map(|s| s.as_str()), a.len()) {
        (Some("c12-replay"), 4) => c12_replay(&a[2], &a[3]),
        (Some("c11-replay"), 4) => c11_replay(&a[2], &a[3]),
        (Some("record"), 5) => record::record(&a[2], &a[3], &a[4]),
        _ => {
            eprintln!("usage: pathheader c12-replay <cells.ndjson> <out.ndjson> | record <events.ndjson> <results.json> c11|c12");
            std::process::exit(2)
        }
    }
}
