//! C19 harness: binds spec/SegSoup to sciparse::path::combinator::combine.
//!
//! segsoup replay <in.ndjson> <out.ndjson>      TLC-printed mutated segment sets -> real combine() in a
//!                                              watched child process; P-monitors on the real output
//! segsoup record <events.ndjson> <results.json> seeded random segment soup (up to 40 segments) for Trace_SegSoup
//! segsoup worker                               (internal) one JSON case per stdin line -> one JSON result per line
use std::{
    collections::{BTreeSet, HashMap},
    io::{BufRead, BufReader, Write},
    process::{Child, ChildStdin, Command, Stdio},
    sync::mpsc::{Receiver, channel},
    time::Duration,
};

use sciparse::path::combinator::combine;
use sciparse::segment::UnsignedPathSegment;
use serde_json::{Value, json};
use vh_core::{NdjsonWriter, Rng, catch};

#[path = "../soup_common.rs"]
mod common;
use common::{backed_by_input, build_soup, ia, ifaces_of, path_id, self_consistent};

/// a combine() call faster than this is never examined further
const FAST_US: u64 = 100_000;
/// CPU time of the child beyond which the parent declares the search runaway
const RUNAWAY_CPU_US: u64 = 300_000_000;
/// wall-clock safety net of the parent (tool protection, generous because the machine may be busy)
const WALL_LIMIT: Duration = Duration::from_secs(900);

/// Bounded, self-calibrating (a time measured on a shared/virtualised machine means nothing by itself):
/// the time of a slow call (minimum of three measurements) is compared with the time of a fixed
/// reference workload measured at the same moment (REF = combine over 6 x 6 x 6 twenty-AS segments,
/// 252 AS entries, about 2.5 ms in a debug build).  Even so, ratios vary by almost an order of magnitude
/// on an oversubscribed host, hence the wide margin: the monitor is meant to catch super-polynomial
/// searches, not constant factors.
///   allowed units = min(200 * (1 + (n/16)^3 / (252/16)^3), 4000)      n = AS entries + peer entries
/// i.e. cubic in the input, hard cap 4000 reference units (about 10 s of an idle core).
fn bound_units(n: u64) -> u64 {
    let k = n / 16;
    (200 * (1 + k * k * k / 3375)).min(4000)
}

/// CPU time of the calling thread (nanosecond resolution; getrusage has tick resolution only).  It includes
/// kernel time spent on behalf of the thread and, on a virtualised host, stolen time: both are dealt
/// with by taking the minimum of three runs and by comparing with a reference measured at the same moment.
fn thread_cpu_us() -> u64 {
    let mut ts = libc::timespec { tv_sec: 0, tv_nsec: 0 };
    // SAFETY: plain syscall writing into a local struct
    unsafe { libc::clock_gettime(libc::CLOCK_THREAD_CPUTIME_ID, &mut ts) };
    ts.tv_sec as u64 * 1_000_000 + ts.tv_nsec as u64 / 1000
}

// ------------------------------------------------------------------------------------ worker

struct RunOut {
    panic: Option<String>,
    cpu_us: u64,
    /// time of the reference workload (0 = the call was fast and no calibration was needed)
    ref_us: u64,
    paths: Vec<Vec<(u64, u16)>>,
    inconsistent: Vec<Value>,
    wrong_endpoints: usize,
}

fn run_combine(src: u64, dst: u64, cores: &[UnsignedPathSegment], ncs: &[UnsignedPathSegment]) -> RunOut {
    let (c, n) = (cores.to_vec(), ncs.to_vec());
    let t0 = thread_cpu_us();
    let r = catch(|| combine(ia(src), ia(dst), c, n));
    let mut cpu_us = thread_cpu_us() - t0;
    let mut ref_us = 0;
    if cpu_us > FAST_US && r.is_ok() {
        // slow: measure twice more (minimum) and calibrate against the reference workload
        for _ in 0..2 {
            let (c, n) = (cores.to_vec(), ncs.to_vec());
            let t0 = thread_cpu_us();
            let _ = catch(|| combine(ia(src), ia(dst), c, n));
            cpu_us = cpu_us.min(thread_cpu_us() - t0);
        }
        if cpu_us > FAST_US {
            ref_us = reference_us();
        }
    }
    match r {
        Err(p) => RunOut { panic: Some(p), cpu_us, ref_us, paths: vec![], inconsistent: vec![], wrong_endpoints: 0 },
        Ok(paths) => {
            let mut out = vec![];
            let mut inc = vec![];
            let mut wrong = 0;
            for p in &paths {
                let ifs = ifaces_of(p);
                let all_segs: Vec<&UnsignedPathSegment> = cores.iter().chain(ncs.iter()).collect();
                match catch(|| {
                    let mut b = self_consistent(p);
                    b.extend(backed_by_input(p, &all_segs));
                    b
                }) {
                    Ok(b) if b.is_empty() => {}
                    Ok(b) => inc.push(json!({"path": path_id(&ifs), "bad": b})),
                    Err(pm) => inc.push(json!({"path": path_id(&ifs), "bad": [format!("panic-in-accessor:{pm}")]})),
                }
                if p.src_ia() != ia(src) || p.dst_ia() != ia(dst) {
                    wrong += 1;
                }
                out.push(ifs);
            }
            RunOut { panic: None, cpu_us, ref_us, paths: out, inconsistent: inc, wrong_endpoints: wrong }
        }
    }
}

/// "fan" soup: k up segments over ASes first_up.., k core segments, k down segments (distinct interface ids)
fn fan_soup(k: u64) -> Vec<Value> {
    let chain = |first: u64, tag: u64| -> Value {
        let es: Vec<Value> = (0..20u64)
            .map(|i| json!({"as": first + i, "in": if i == 0 { 0 } else { 1000 * tag + 10 * i + 1 }, "eg": if i == 19 { 0 } else { 1000 * tag + 10 * i + 2 }, "mtu": 1400, "peers": []}))
            .collect();
        json!({"kind": "nc", "good": true, "es": es})
    };
    let mut segs = vec![];
    for j in 1..=k {
        segs.push(chain(1, j));
        segs.push(chain(31, 20 + j));
    }
    for j in 1..=k {
        segs.push(json!({"kind": "core", "good": true, "es": [
            {"as": 1, "in": 0, "eg": 40000 + j, "mtu": 1400, "peers": []},
            {"as": 31, "in": 41000 + j, "eg": 0, "mtu": 1400, "peers": []}]}));
    }
    segs
}

/// time of the reference workload right now (minimum of three runs)
fn reference_us() -> u64 {
    static REF: std::sync::OnceLock<(Vec<UnsignedPathSegment>, Vec<UnsignedPathSegment>)> = std::sync::OnceLock::new();
    let (cores, ncs) = REF.get_or_init(|| {
        let s = build_soup(&json!(fan_soup(6)));
        (s.cores, s.ncs)
    });
    let mut best = u64::MAX;
    for _ in 0..3 {
        let (c, n) = (cores.clone(), ncs.clone());
        let t0 = thread_cpu_us();
        let _ = catch(|| combine(ia(20), ia(50), c, n));
        best = best.min(thread_cpu_us() - t0);
    }
    best.max(1)
}

fn ifs_json(ps: &[Vec<(u64, u16)>]) -> Value {
    json!(ps.iter().map(|p| p.iter().map(|(a, i)| json!([a, i])).collect::<Vec<_>>()).collect::<Vec<_>>())
}

/// one case: {"soup": [...], "pairs": [[src,dst]..]} -> per pair the observations on the full soup and on its good part
fn work_case(case: &Value) -> Value {
    let soup = build_soup(&case["soup"]);
    let mut res = vec![];
    for pr in case["pairs"].as_array().unwrap() {
        let (src, dst) = (pr[0].as_u64().unwrap(), pr[1].as_u64().unwrap());
        let all = run_combine(src, dst, &soup.cores, &soup.ncs);
        let good = run_combine(src, dst, &soup.good_cores, &soup.good_ncs);
        res.push(json!({
            "src": src, "dst": dst, "n": soup.entries,
            "panic": all.panic, "cpu_us": all.cpu_us, "ref_us": all.ref_us, "paths": ifs_json(&all.paths), "inc": all.inconsistent,
            "wrong_endpoints": all.wrong_endpoints,
            "gpanic": good.panic, "good": ifs_json(&good.paths), "ginc": good.inconsistent,
        }));
    }
    json!({"pairs": res})
}

fn worker() {
    // a runaway search must end as an observable death of the child, not exhaust the machine
    let lim = libc::rlimit { rlim_cur: 3 << 30, rlim_max: 3 << 30 };
    // SAFETY: plain syscall with a valid struct
    unsafe { libc::setrlimit(libc::RLIMIT_AS, &lim) };
    let stdin = std::io::stdin();
    let stdout = std::io::stdout();
    for line in stdin.lock().lines() {
        let Ok(line) = line else { break };
        if line.trim().is_empty() {
            continue;
        }
        let case: Value = serde_json::from_str(&line).expect("case json");
        let out = work_case(&case);
        let mut o = stdout.lock();
        serde_json::to_writer(&mut o, &out).unwrap();
        o.write_all(b"\n").unwrap();
        o.flush().unwrap();
    }
}

// ------------------------------------------------------------------------------------ parent: watched child

struct Watched {
    child: Child,
    stdin: ChildStdin,
    rx: Receiver<String>,
}

fn spawn_worker() -> Watched {
    let exe = std::env::current_exe().expect("own path");
    let mut child = Command::new(exe)
        .arg("worker")
        .stdin(Stdio::piped())
        .stdout(Stdio::piped())
        .stderr(Stdio::null())
        .spawn()
        .expect("spawn worker");
    let stdin = child.stdin.take().unwrap();
    let stdout = child.stdout.take().unwrap();
    let (tx, rx) = channel();
    std::thread::spawn(move || {
        for l in BufReader::new(stdout).lines() {
            match l {
                Ok(l) => {
                    if tx.send(l).is_err() {
                        break;
                    }
                }
                Err(_) => break,
            }
        }
    });
    Watched { child, stdin, rx }
}

fn proc_cpu_us(pid: u32) -> u64 {
    // utime + stime of /proc/<pid>/stat in clock ticks
    let Ok(s) = std::fs::read_to_string(format!("/proc/{pid}/stat")) else { return 0 };
    let Some(rest) = s.rsplit(')').next() else { return 0 };
    let f: Vec<&str> = rest.split_whitespace().collect();
    let ticks: u64 = f.get(11).and_then(|x| x.parse::<u64>().ok()).unwrap_or(0) + f.get(12).and_then(|x| x.parse::<u64>().ok()).unwrap_or(0);
    // SAFETY: sysconf is always safe to call
    let hz = unsafe { libc::sysconf(libc::_SC_CLK_TCK) }.max(1) as u64;
    ticks * 1_000_000 / hz
}

enum CaseOut {
    Done(Value),
    /// the child died or exceeded the CPU cap: an observation about the code under test
    Died(String),
    /// the wall-clock net fired although the CPU cap was not reached: a tool problem (busy machine)
    Tool(String),
}

fn run_watched(w: &mut Option<Watched>, case: &Value) -> CaseOut {
    if w.is_none() {
        *w = Some(spawn_worker());
    }
    let ww = w.as_mut().unwrap();
    let cpu0 = proc_cpu_us(ww.child.id());
    let mut line = serde_json::to_string(case).unwrap();
    line.push('\n');
    if ww.stdin.write_all(line.as_bytes()).is_err() || ww.stdin.flush().is_err() {
        let st = ww.child.wait().ok();
        *w = None;
        return CaseOut::Died(format!("worker gone before the case: {st:?}"));
    }
    let t0 = std::time::Instant::now();
    loop {
        match ww.rx.recv_timeout(Duration::from_millis(500)) {
            Ok(l) => return CaseOut::Done(serde_json::from_str(&l).expect("worker json")),
            Err(std::sync::mpsc::RecvTimeoutError::Disconnected) => {
                let st = ww.child.wait();
                let msg = match st {
                    Ok(s) => {
                        use std::os::unix::process::ExitStatusExt;
                        match s.signal() {
                            Some(sig) => format!("killed by signal {sig}"),
                            None => format!("exit status {:?}", s.code()),
                        }
                    }
                    Err(e) => format!("wait failed: {e}"),
                };
                *w = None;
                return CaseOut::Died(msg);
            }
            Err(std::sync::mpsc::RecvTimeoutError::Timeout) => {
                let cpu = proc_cpu_us(ww.child.id()).saturating_sub(cpu0);
                if cpu > RUNAWAY_CPU_US {
                    let _ = ww.child.kill();
                    let _ = ww.child.wait();
                    *w = None;
                    return CaseOut::Died(format!("runaway: {cpu} us of CPU without an answer"));
                }
                if t0.elapsed() > WALL_LIMIT {
                    let _ = ww.child.kill();
                    let _ = ww.child.wait();
                    *w = None;
                    // a child that kept computing all the time is an observation, a starved one a tool problem
                    if cpu > 60_000_000 {
                        return CaseOut::Died(format!("no answer after {:?} ({cpu} us of CPU)", t0.elapsed()));
                    }
                    return CaseOut::Tool(format!("no answer after {:?} wall, {cpu} us cpu", t0.elapsed()));
                }
            }
        }
    }
}

// ------------------------------------------------------------------------------------ judging

fn to_set(v: &Value) -> BTreeSet<String> {
    v.as_array()
        .map(|a| {
            a.iter()
                .map(|p| p.as_array().unwrap().iter().map(|x| format!("{}#{}", x[0], x[1])).collect::<Vec<_>>().join(">"))
                .collect()
        })
        .unwrap_or_default()
}

/// mutation names of a history, canonical for violation keys
fn opkey(h: &Value) -> String {
    let mut ops: Vec<String> = h.as_array().map(|a| a.iter().map(|m| m["op"].as_str().unwrap_or("?").to_string()).collect()).unwrap_or_default();
    ops.sort();
    ops.dedup();
    if ops.is_empty() { "unmutated".into() } else { ops.join("+") }
}

/// P-monitors on one pair of one case; `allnc` from the specification. Returns violations.
fn judge_pair(ops: &str, r: &Value, allnc: bool) -> Vec<Value> {
    let mut pv = vec![];
    let (src, dst) = (r["src"].as_u64().unwrap(), r["dst"].as_u64().unwrap());
    if let Some(p) = r["panic"].as_str() {
        let site = if p.contains("edges are checked to be not empty") {
            "empty-interface-list"
        } else if p.contains("should always fit") {
            "segment-slots"
        } else if p.contains("valid view") {
            "view-reparse"
        } else if p.contains("Peer index") {
            "peer-index"
        } else {
            "other"
        };
        pv.push(json!({"key": format!("Total:panic:{site}"), "what": format!("combine({src},{dst}) panicked: {p} [{ops}]")}));
    }
    if let Some(p) = r["gpanic"].as_str() {
        pv.push(json!({"key": "Total:panic:good-part", "what": format!("combine({src},{dst}) on the untouched segments panicked: {p}")}));
    }
    let n = r["n"].as_u64().unwrap();
    let cpu = r["cpu_us"].as_u64().unwrap();
    let refu = r["ref_us"].as_u64().unwrap_or(0);
    if refu > 0 && cpu > bound_units(n) * refu {
        pv.push(json!({"key": format!("Bounded:{ops}"), "what": format!(
            "combine({src},{dst}) used {cpu} us of CPU (minimum of three runs) for an input of size {n}: {} times the reference workload ({refu} us), allowed {}",
            cpu / refu, bound_units(n))}));
    }
    for (field, which) in [("inc", "full set"), ("ginc", "good part")] {
        for i in r[field].as_array().unwrap() {
            let bad: Vec<String> = i["bad"].as_array().unwrap().iter().map(|b| b.as_str().unwrap().split(':').next().unwrap().to_string()).collect();
            pv.push(json!({"key": format!("SelfConsistent:{}:{ops}", bad.join("+")),
                "what": format!("combine({src},{dst}) on the {which} returned path {} which is inconsistent with itself: {}", i["path"], bad.join(", "))}));
        }
    }
    if r["panic"].is_null() && r["gpanic"].is_null() {
        let all = to_set(&r["paths"]);
        let good = to_set(&r["good"]);
        if !good.is_subset(&all) {
            let lost: Vec<_> = good.difference(&all).cloned().collect();
            pv.push(json!({"key": format!("Monotone:lost:{ops}"), "what": format!("combine({src},{dst}): paths built from the untouched segments disappear when the junk is added: {lost:?}")}));
        } else if allnc && good != all {
            let extra: Vec<_> = all.difference(&good).cloned().collect();
            pv.push(json!({"key": format!("Monotone:extra:{ops}"), "what": format!("combine({src},{dst}): all junk is non-contributing, yet extra paths appear: {extra:?}")}));
        }
    }
    pv
}

// ------------------------------------------------------------------------------------ replay

fn replay(inp: &str, outp: &str) {
    let lines = vh_core::read_ndjson(inp);
    let mut w = NdjsonWriter::create(outp);
    let mut worker: Option<Watched> = None;
    let mut deaths = 0;
    for line in lines.iter() {
        if line.get("ev").is_some() {
            continue;
        }
        if deaths >= 5 {
            // the code under test kills its process again and again: enough evidence, do not spend hours
            w.write(&json!({"skipped": true, "pv": [], "conf": true}));
            continue;
        }
        let pairs: Vec<Value> = line["x"].as_array().unwrap().iter().map(|x| json!([x["src"], x["dst"]])).collect();
        let case = json!({"soup": line["soup"], "pairs": pairs});
        let ops = opkey(&line["h"]);
        let out = match run_watched(&mut worker, &case) {
            CaseOut::Tool(m) => {
                eprintln!("tool failure: {m}");
                std::process::exit(2);
            }
            CaseOut::Died(m) => {
                deaths += 1;
                json!({"died": m, "pv": [{"key": format!("Total:died:{ops}"), "what": format!("the process running combine() died: {m}")}], "conf": false})
            }
            CaseOut::Done(v) => {
                let mut pv = vec![];
                let mut conf = true;
                let mut mis = vec![];
                for (r, x) in v["pairs"].as_array().unwrap().iter().zip(line["x"].as_array().unwrap()) {
                    pv.extend(judge_pair(&ops, r, x["allnc"].as_bool().unwrap()));
                    // I-layer conformance: the model's path sets and panic prediction
                    let real_panic = !r["panic"].is_null();
                    if real_panic != x["panic"].as_bool().unwrap() {
                        conf = false;
                        mis.push(json!({"src": r["src"], "dst": r["dst"], "what": "panic", "spec": x["panic"], "real": real_panic}));
                    } else if !real_panic && (to_set(&r["paths"]) != to_set(&x["paths"]) || to_set(&r["good"]) != to_set(&x["good"])) {
                        conf = false;
                        mis.push(json!({"src": r["src"], "dst": r["dst"], "what": "paths",
                            "spec": to_set(&x["paths"]).into_iter().collect::<Vec<_>>(), "real": to_set(&r["paths"]).into_iter().collect::<Vec<_>>()}));
                    }
                }
                json!({"real": v["pairs"], "pv": pv, "conf": conf, "mis": mis})
            }
        };
        w.write(&out);
    }
    w.finish();
}

// ------------------------------------------------------------------------------------ record: random segment soup

/// random consistent topology: returns (segments as JSON descriptors, AS ids)
fn random_topology(rng: &mut Rng) -> (Vec<Value>, Vec<u64>, Vec<(u64, u64)>) {
    let ncore = rng.range(1, 3);
    let nleaf = rng.range(2, 9);
    let mut next_if: HashMap<u64, u64> = HashMap::new();
    let mut new_if = |a: u64| -> u64 {
        let e = next_if.entry(a).or_insert(0);
        *e += 1;
        a * 10 + *e
    };
    let cores: Vec<u64> = (1..=ncore).collect();
    let mut parent: HashMap<u64, (u64, u64, u64)> = HashMap::new(); // child -> (parent, parent_if, child_if)
    let mut ases = cores.clone();
    for k in 0..nleaf {
        let a = ncore + 1 + k;
        let p = *rng.pick(&ases);
        let pif = new_if(p);
        let cif = new_if(a);
        parent.insert(a, (p, pif, cif));
        ases.push(a);
    }
    // up to two peering links between non-core ASes; the second usually shares an AS with the first, so
    // that this AS lists two peer entries
    let mut peerings: Vec<(u64, u64, u64, u64)> = vec![];
    let noncore: Vec<u64> = ases.iter().copied().filter(|a| *a > ncore).collect();
    if noncore.len() >= 2 && rng.chance(2, 3) {
        let a = *rng.pick(&noncore);
        let b = *rng.pick(&noncore);
        if a != b {
            peerings.push((a, new_if(a), b, new_if(b)));
            if noncore.len() >= 3 && rng.chance(2, 3) {
                let a2 = if rng.chance(2, 3) { a } else { *rng.pick(&noncore) };
                let c = *rng.pick(&noncore);
                if c != a2 && !(a2 == a && c == b) && !(a2 == b && c == a) {
                    peerings.push((a2, new_if(a2), c, new_if(c)));
                }
            }
        }
    }
    let mut segs = vec![];
    // down segments: from the core ancestor to every non-core AS
    for a in &noncore {
        let mut chain = vec![*a];
        let mut cur = *a;
        while let Some((p, _, _)) = parent.get(&cur) {
            chain.push(*p);
            cur = *p;
        }
        chain.reverse();
        let mut es = vec![];
        for (i, x) in chain.iter().enumerate() {
            let inn = if i == 0 { 0 } else { parent[x].2 };
            let eg = if i + 1 < chain.len() { parent[&chain[i + 1]].1 } else { 0 };
            let mut peers = vec![];
            for (pa, paif, pb, pbif) in peerings.iter().copied() {
                if *x == pa {
                    peers.push(json!({"pas": pb, "pif": pbif, "lif": paif}));
                }
                if *x == pb {
                    peers.push(json!({"pas": pa, "pif": paif, "lif": pbif}));
                }
            }
            es.push(json!({"as": x, "in": inn, "eg": eg, "mtu": 1400, "peers": peers}));
        }
        segs.push(json!({"kind": "nc", "good": true, "es": es}));
    }
    // core segments: a line over the cores, one segment per ordered neighbouring pair and the long one
    if ncore >= 2 {
        let mut link: HashMap<(u64, u64), (u64, u64)> = HashMap::new();
        for c in 1..ncore {
            let (x, y) = (c, c + 1);
            link.insert((x, y), (new_if(x), new_if(y)));
        }
        let mk = |chain: &[u64]| -> Value {
            let mut es = vec![];
            for (i, x) in chain.iter().enumerate() {
                let get = |u: u64, v: u64| -> u64 {
                    if let Some((a, _)) = link.get(&(u, v)) { *a } else { link[&(v, u)].1 }
                };
                let inn = if i == 0 { 0 } else { get(*x, chain[i - 1]) };
                let eg = if i + 1 < chain.len() { get(*x, chain[i + 1]) } else { 0 };
                es.push(json!({"as": x, "in": inn, "eg": eg, "mtu": 1400, "peers": []}));
            }
            json!({"kind": "core", "good": true, "es": es})
        };
        for c in 1..ncore {
            segs.push(mk(&[c, c + 1]));
            segs.push(mk(&[c + 1, c]));
        }
        if ncore == 3 {
            segs.push(mk(&[1, 2, 3]));
            segs.push(mk(&[3, 2, 1]));
        }
    }
    let peer_pairs = peerings.iter().map(|p| (p.0, p.2)).collect();
    (segs, ases, peer_pairs)
}

fn mutate(rng: &mut Rng, seg: &mut Value, ases: &[u64]) -> &'static str {
    let n = seg["es"].as_array().unwrap().len();
    seg["good"] = json!(false);
    let es = seg["es"].as_array_mut().unwrap();
    let ops = ["DeleteEntry", "DupEntry", "SwapEntries", "ZeroIf", "ZeroAll", "AliasIf", "CrossWirePeer", "FrontBrokenPeer", "FrontBrokenPeer", "Oversize", "SingleAs", "Empty", "OutOfRangeMtu", "FlipKind", "RandomIf"];
    let op = *rng.pick(&ops);
    if n == 0 {
        return "Empty";
    }
    let i = rng.below(n as u64) as usize;
    match op {
        "DeleteEntry" => {
            es.remove(i);
        }
        "DupEntry" => {
            let c = es[i].clone();
            es.insert(i + 1, c);
        }
        "SwapEntries" => {
            let j = rng.below(n as u64) as usize;
            es.swap(i, j);
        }
        "ZeroIf" => {
            let w = rng.below(3);
            if w != 1 {
                es[i]["in"] = json!(0);
            }
            if w != 0 {
                es[i]["eg"] = json!(0);
            }
        }
        "ZeroAll" => {
            for e in es.iter_mut() {
                e["in"] = json!(0);
                e["eg"] = json!(0);
            }
        }
        "AliasIf" => {
            let j = rng.below(n as u64) as usize;
            let (a, b) = (es[j]["in"].clone(), es[j]["eg"].clone());
            es[i]["in"] = a;
            es[i]["eg"] = b;
        }
        "CrossWirePeer" => {
            let a = *rng.pick(ases);
            let has = !es[i]["peers"].as_array().unwrap().is_empty();
            if has && rng.chance(1, 2) {
                es[i]["peers"][0]["pas"] = json!(a);
            } else {
                es[i]["peers"].as_array_mut().unwrap().push(json!({"pas": a, "pif": rng.range(0, 99), "lif": rng.range(0, 99)}));
            }
        }
        "FrontBrokenPeer" => {
            // a broken peer entry in front of the valid ones, on an entry that has peers if there is one
            let i = (0..n).find(|k| !es[*k]["peers"].as_array().unwrap().is_empty()).unwrap_or(i);
            let a = *rng.pick(ases);
            let ps = es[i]["peers"].as_array_mut().unwrap();
            let broken = match (rng.below(3), ps.last().cloned()) {
                (0, _) => json!({"pas": a, "pif": rng.range(1, 99), "lif": 0}),
                (1, _) | (_, None) => json!({"pas": a, "pif": 0, "lif": rng.range(1, 99)}),
                (_, Some(mut last)) => {
                    last["pif"] = json!(0);
                    last
                }
            };
            ps.insert(0, broken);
        }
        "Oversize" => {
            let l = *rng.pick(&[63usize, 64, 70, 90]);
            let last = es.pop().unwrap();
            let mut k = 0;
            while es.len() + 1 < l {
                k += 1;
                es.push(json!({"as": 1000 + k, "in": 3000 + k, "eg": 4000 + k, "mtu": 1400, "peers": []}));
            }
            es.push(last);
        }
        "SingleAs" => {
            let e = es[i].clone();
            es.clear();
            es.push(e);
        }
        "Empty" => es.clear(),
        "OutOfRangeMtu" => {
            es[i]["mtu"] = json!(*rng.pick(&[0u64, 65535, 65536, 70000, 4294967295]));
        }
        "FlipKind" => {
            let k = if seg["kind"] == "core" { "nc" } else { "core" };
            seg["kind"] = json!(k);
        }
        _ => {
            es[i]["in"] = json!(rng.below(65536));
            es[i]["eg"] = json!(rng.below(65536));
        }
    }
    op
}

fn island(rng: &mut Rng, k: u64) -> Value {
    // junk over ASes nobody else uses
    let base = 500 + 10 * k;
    let n = rng.range(0, 4);
    let mut es = vec![];
    for i in 0..n {
        let peers = if rng.chance(1, 4) { vec![json!({"pas": base + 9, "pif": 7, "lif": 8})] } else { vec![] };
        es.push(json!({"as": base + i, "in": if i == 0 { 0 } else { 50 + i }, "eg": if i + 1 == n { 0 } else { 60 + i }, "mtu": 1400, "peers": peers}));
    }
    json!({"kind": if rng.chance(1, 3) { "core" } else { "nc" }, "good": false, "es": es})
}

fn record(events: &str, results: &str) {
    let seed = vh_core::seed_from_env();
    let thorough = vh_core::tier_is_thorough();
    let mut rng = Rng::new(seed ^ 0x50b9);
    let runs = if thorough { 2000 } else { 400 };
    let mut w = NdjsonWriter::create(events);
    w.write(&json!({"ev": "meta", "spec": "SegSoup", "seed": seed, "fast_us": FAST_US}));
    let mut worker: Option<Watched> = None;
    let mut pvs: Vec<Value> = vec![];
    let mut stats: HashMap<String, u64> = HashMap::new();
    let mut max_cpu = 0u64;
    let mut max_segs = 0usize;
    let mut n_events = 0u64;
    let mut nontrivial = 0u64;
    let mut rec_deaths = 0;
    for run in 0..runs {
        if rec_deaths >= 5 {
            break;
        }
        let (mut segs, ases, peer_pairs) = random_topology(&mut rng);
        let mut ops: Vec<&'static str> = vec![];
        let mut fixed_pairs: Option<Vec<Value>> = None;
        if run == 1 {
            // stress "fan": 13 up segments over the same 20 ASes x 14 core segments x 13 down segments over
            // another 20 ASes (distinct interface ids everywhere): thousands of three-segment solutions
            segs.clear();
            segs = fan_soup(13);
            fixed_pairs = Some(vec![json!([20, 50]), json!([50, 20]), json!([20, 31])]);
            ops.push("StressFan");
        } else if run == 2 {
            // stress "peer flood": few segments whose AS entries carry hundreds of peer entries
            segs.clear();
            for k in 0..6u64 {
                let es: Vec<Value> = (0..8u64)
                    .map(|i| {
                        let a = 1 + (k % 2) * 100 + i;
                        let peers: Vec<Value> = (0..150u64).map(|p| json!({"pas": 200 + (p * 7 + i + k) % 60, "pif": 1 + (p * 13 + k) % 500, "lif": 600 + p})).collect();
                        json!({"as": a, "in": if i == 0 { 0 } else { 100 * k + 10 + i }, "eg": if i == 7 { 0 } else { 100 * k + 20 + i }, "mtu": 1400, "peers": peers})
                    })
                    .collect();
                segs.push(json!({"kind": "nc", "good": true, "es": es}));
            }
            fixed_pairs = Some(vec![json!([8, 1]), json!([108, 101]), json!([8, 108])]);
            ops.push("StressPeers");
        }
        let stress = fixed_pairs.is_some();
        // junk: mutated copies / mutated originals / duplicates / islands, up to 40 segments
        let big = run % 10 == 9;
        let nmut = if run % 7 == 0 || stress { 0 } else if big { rng.range(20, 40) } else { rng.range(1, 5) };
        for _ in 0..nmut {
            if segs.len() >= 40 {
                break;
            }
            match rng.below(6) {
                0 => {
                    // mutate an original in place
                    let k = rng.below(segs.len() as u64) as usize;
                    ops.push(mutate(&mut rng, &mut segs[k], &ases));
                }
                1 | 2 => {
                    // mutated copy next to the original
                    let k = rng.below(segs.len() as u64) as usize;
                    let mut c = segs[k].clone();
                    ops.push(mutate(&mut rng, &mut c, &ases));
                    segs.push(c);
                }
                3 => {
                    let k = rng.below(segs.len() as u64) as usize;
                    let mut c = segs[k].clone();
                    c["good"] = json!(false);
                    segs.push(c);
                    ops.push("DupSegment");
                }
                _ => {
                    let k = segs.len() as u64;
                    segs.push(island(&mut rng, k));
                    ops.push("AddIsland");
                }
            }
        }
        for o in &ops {
            *stats.entry(o.to_string()).or_default() += 1;
        }
        if !ops.is_empty() {
            nontrivial += 1;
        }
        max_segs = max_segs.max(segs.len());
        let mut pairs = vec![];
        for _ in 0..3 {
            let s = *rng.pick(&ases);
            let d = *rng.pick(&ases);
            pairs.push(json!([s, d]));
        }
        // pairs routed over the peering links (the last one listed comes first)
        for (k, (a, b)) in peer_pairs.iter().rev().enumerate().take(2) {
            pairs[k] = if rng.chance(1, 2) { json!([a, b]) } else { json!([b, a]) };
        }
        if let Some(fp) = fixed_pairs {
            pairs = fp;
        }
        let case = json!({"soup": segs, "pairs": pairs});
        // the descriptor TLC classifies (same shape as the specification's soup; MTUs are not needed there)
        let desc: Vec<Value> = segs
            .iter()
            .map(|s| {
                let es: Vec<Value> = s["es"].as_array().unwrap().iter().map(|e| json!({"as": e["as"], "in": e["in"], "eg": e["eg"], "peers": e["peers"]})).collect();
                json!({"kind": s["kind"], "good": s["good"], "es": es})
            })
            .collect();
        let mut opsu: Vec<&str> = ops.clone();
        opsu.sort();
        opsu.dedup();
        let opk = if opsu.is_empty() { "unmutated".to_string() } else { opsu.join("+") };
        match run_watched(&mut worker, &case) {
            CaseOut::Tool(m) => {
                eprintln!("tool failure: {m}");
                std::process::exit(2);
            }
            CaseOut::Died(m) => {
                rec_deaths += 1;
                pvs.push(json!({"key": format!("Total:died:{opk}"), "what": format!("the process running combine() died: {m}"), "run": run, "case": case}));
                w.write(&json!({"ev": "soup", "run": run, "soup": desc, "src": 0, "dst": 0, "n": 0, "died": true, "panic": false, "cpu_us": 0, "ref_us": 0, "pa": [], "pg": [], "inc": 0}));
                n_events += 1;
            }
            CaseOut::Done(v) => {
                for r in v["pairs"].as_array().unwrap() {
                    let cpu = r["cpu_us"].as_u64().unwrap();
                    max_cpu = max_cpu.max(cpu);
                    let panicked = !r["panic"].is_null() || !r["gpanic"].is_null();
                    // allnc is decided by TLC on the descriptors; the harness-side judge only names the keys
                    let pa: Vec<String> = to_set(&r["paths"]).into_iter().collect();
                    let pg: Vec<String> = to_set(&r["good"]).into_iter().collect();
                    let ninc = r["inc"].as_array().unwrap().len() + r["ginc"].as_array().unwrap().len();
                    for mut p in judge_pair(&opk, r, false) {
                        if pvs.len() < 200 {
                            p["run"] = json!(run);
                            p["case"] = json!({"soup": case["soup"], "pairs": [[r["src"], r["dst"]]]});
                            pvs.push(p);
                        }
                    }
                    w.write(&json!({"ev": "soup", "run": run, "soup": desc, "src": r["src"], "dst": r["dst"], "n": r["n"], "died": false,
                        "panic": panicked, "cpu_us": cpu.min(2_000_000_000), "ref_us": r["ref_us"].as_u64().unwrap_or(0).min(2_000_000_000), "pa": pa, "pg": pg, "inc": ninc}));
                    n_events += 1;
                }
            }
        }
    }
    w.finish();
    let out = json!({"runs": runs, "events": n_events, "nontrivial_runs": nontrivial, "ops": stats, "max_cpu_us": max_cpu, "max_segments": max_segs, "pv": pvs});
    std::fs::write(results, serde_json::to_string(&out).unwrap()).expect("write");
}

fn main() {
    vh_core::quiet_panics();
    let args: Vec<String> = std::env::args().collect();
    match args.get(1).map(|s| s.as_str()) {
        Some("worker") => worker(),
        Some("replay") if args.len() == 4 => replay(&args[2], &args[3]),
        Some("record") if args.len() == 4 => record(&args[2], &args[3]),
        _ => {
            eprintln!("usage: segsoup replay <in> <out> | record <events> <results>");
            std::process::exit(2);
        }
    }
}
