//! C18 harness: binds spec/SignedSegment (SignedSegment.tla, RpcConv.tla) to sciparse.
//!
//! signedseg replay <in.ndjson> <out.ndjson>     TLC tamper histories -> real P-256 segments, per-entry verdicts
//! signedseg flips  <in.ndjson> <out.json>       every bit of body/header/signature/info (n <= 3), expected verdicts from TLC
//! signedseg rpc    <in.ndjson> <out.ndjson>     RpcConv decision-table cells -> real TryFrom<rpc::*>
//! signedseg record <events.ndjson> <rpc.ndjson> <results.json>
//!                                               seeded tamper sequences + seeded RPC messages for trace validation
use std::collections::HashMap;

use sciparse::{
    dataplane_path::standard::types::HopFieldMac,
    identifier::{asn::Asn, isd::Isd, isd_asn::IsdAsn},
    path::{
        ScionPath,
        combinator::combine,
        metadata::path_interface::PathInterface,
    },
    reexport::{p256, prost, prost_types, protobuf},
    segment::{
        AsEntry, HopEntry, PeerEntry, SegmentHopField, SegmentInfo, Segments, SegmentsPage,
        SignedAsEntry, SignedPathSegment, UnsignedPathSegment,
    },
    signed_message::{SignedMessage, ValidateError},
};
use p256::ecdsa::{SigningKey, VerifyingKey};
use prost::Message;
use protobuf::{control_plane::v1 as cp, crypto::v1 as cr, daemon::v1 as dm};
use serde_json::{Value, json};
use vh_core::{NdjsonWriter, Rng, catch};

// ------------------------------------------------------------------------------------ world

/// One signed entry as it travels in the RPC message (raw bytes are what is signed / tampered).
#[derive(Clone, Debug, PartialEq)]
struct REntry {
    hb: Vec<u8>,
    sig: Vec<u8>,
    /// offset in `hb` where the body region (tag 0x12, length, body) starts; fixed at creation
    split: usize,
    /// model id of the AS that created the entry (1.., 21.., 30)
    id: u32,
}

#[derive(Clone, Debug, PartialEq)]
struct Msg {
    info: Vec<u8>,
    es: Vec<REntry>,
}

#[derive(Clone, Copy, PartialEq, Debug)]
enum KeyState {
    Honest,
    Wrong,
    Missing,
}

struct World {
    n0: usize,
    vks: HashMap<u32, VerifyingKey>,
    /// (isd_as, subject_key_id) -> model id
    kids: HashMap<(u64, Vec<u8>), u32>,
    wrong: VerifyingKey,
    base: Msg,
    foreign: Msg,
    legit: REntry,
}

fn ia(id: u32) -> IsdAsn {
    IsdAsn::new(Isd(1 + (id / 20) as u16), Asn(0xff00_0000_0100 + id as u64))
}

fn det_key(tag: u64, id: u32) -> SigningKey {
    let mut r = Rng::new(0x5157_0000 ^ tag.wrapping_mul(0x1000_0000_01b3) ^ id as u64);
    loop {
        let b = r.bytes(32);
        if let Ok(k) = SigningKey::from_slice(&b) {
            return k;
        }
    }
}

fn kid_of(id: u32) -> cp::VerificationKeyId {
    let mut r = Rng::new(0x4b49_4400 + id as u64);
    cp::VerificationKeyId {
        isd_as: ia(id).to_u64(),
        subject_key_id: r.bytes(20),
        trc_base: 1,
        trc_serial: 3,
    }
}

fn peers_of(id: u32) -> Vec<PeerEntry> {
    let mut v = vec![];
    let n = if id % 3 == 0 { 2 } else if id % 2 == 0 { 1 } else { 0 };
    for k in 0..n {
        v.push(PeerEntry {
            peer: ia(40 + id + k),
            peer_interface: (700 + id + k) as u16,
            peer_mtu: 1350,
            hop_field: SegmentHopField {
                expiration_units: 63,
                cons_ingress: (600 + id * 2 + k) as u16,
                cons_egress: (200 + id) as u16,
                mac: HopFieldMac([0; 6]),
            },
        });
    }
    v
}

fn as_entry(id: u32, first: bool, last: bool) -> AsEntry {
    AsEntry {
        local: ia(id),
        next: if last { IsdAsn::from_u64(0) } else { ia(id + 1) },
        mtu: 1400 + id,
        hop_entry: HopEntry {
            ingress_mtu: if first { 0 } else { (1300 + id) as u16 },
            hop_field: SegmentHopField {
                expiration_units: 63,
                cons_ingress: if first { 0 } else { (100 + id) as u16 },
                cons_egress: if last { 0 } else { (200 + id) as u16 },
                mac: HopFieldMac([0; 6]),
            },
        },
        peer_entries: peers_of(id),
        extensions: vec![],
        unsigned_extensions: vec![],
    }
}

/// start of the body region inside header_and_body (canonical framing: 0x0a len header 0x12 len body).
/// If the library under test frames differently the regions are an arbitrary but total partition.
fn split_of(hb: &[u8]) -> usize {
    if let Ok(m) = cr::HeaderAndBodyInternal::decode(hb) {
        let hl = m.header.len();
        let s = 1 + prost::length_delimiter_len(hl) + hl;
        if s < hb.len() && hb[0] == 0x0a && hb[s] == 0x12 {
            return s;
        }
    }
    hb.len() / 2
}

fn to_msg(seg: &SignedPathSegment, ids: &[u32]) -> Result<Msg, String> {
    let rpc = catch(|| seg.clone().into_rpc()).map_err(|p| format!("into_rpc panicked: {p}"))?;
    if rpc.as_entries.len() != ids.len() {
        return Err(format!("into_rpc produced {} entries for {} signed entries", rpc.as_entries.len(), ids.len()));
    }
    let mut es = vec![];
    for (e, id) in rpc.as_entries.into_iter().zip(ids.iter()) {
        let s = e.signed.ok_or("into_rpc produced an entry without signed message")?;
        let split = split_of(&s.header_and_body);
        es.push(REntry { hb: s.header_and_body, sig: s.signature, split, id: *id });
    }
    Ok(Msg { info: rpc.segment_info, es })
}

fn build_segment(ts: u32, segid: u16, ids: &[u32], keys: &HashMap<u32, SigningKey>, sig_ts: u32) -> Result<SignedPathSegment, String> {
    let mut seg = SignedPathSegment::empty(ts, segid);
    for (i, id) in ids.iter().enumerate() {
        let e = as_entry(*id, i == 0, false);
        let mac_key = [*id as u8; 16];
        match catch(|| seg.add_entry(e, &keys[id], Some(kid_of(*id)), &mac_key, sig_ts)) {
            Err(p) => return Err(format!("add_entry panicked: {p}")),
            Ok(Err(e)) => return Err(format!("add_entry failed: {e}")),
            Ok(Ok(())) => {}
        }
    }
    Ok(seg)
}

/// honest segment whose last entry is an exact copy (AsEntry incl. MAC) of its first entry, signed with
/// UnsignedPathSegment::try_into_signed_segment
fn build_dup_segment(ts: u32, segid: u16, ids: &[u32], keys: &HashMap<u32, SigningKey>, sig_ts: u32) -> Result<SignedPathSegment, String> {
    let mut u = UnsignedPathSegment::new(ts, segid, vec![]);
    for (i, id) in ids[..ids.len() - 1].iter().enumerate() {
        u.add_unsigned_entry(as_entry(*id, i == 0, false), &[*id as u8; 16]);
    }
    let c = u.as_entries[0].clone();
    u.as_entries.push(c);
    let provider = |local: IsdAsn| {
        ids.iter().find(|id| ia(**id) == local).map(|id| (keys[id].clone(), Some(kid_of(*id))))
    };
    match catch(|| u.try_into_signed_segment(provider, sig_ts)) {
        Err(p) => Err(format!("try_into_signed_segment panicked: {p}")),
        Ok(Err(e)) => Err(format!("try_into_signed_segment failed: {e}")),
        Ok(Ok(s)) => Ok(s),
    }
}

impl World {
    /// Honest construction with the library under test; an Err is an observation about that library.
    fn new(n0: usize, variant: u64) -> Result<World, String> {
        let mut keys = HashMap::new();
        let mut vks = HashMap::new();
        let mut kids = HashMap::new();
        let mut base_ids: Vec<u32> = (1..=n0 as u32).collect();
        if variant == 1 {
            // the last entry is a copy of the first AS entry (the signer meets an entry equal to an earlier one)
            *base_ids.last_mut().unwrap() = 1;
        }
        let foreign_ids: Vec<u32> = (21..=20 + n0 as u32).collect();
        for id in base_ids.iter().chain(foreign_ids.iter()).chain([30u32].iter()) {
            let k = det_key(1, *id);
            vks.insert(*id, *k.verifying_key());
            keys.insert(*id, k);
            let kid = kid_of(*id);
            kids.insert((kid.isd_as, kid.subject_key_id), *id);
        }
        let wrong = *det_key(2, 999).verifying_key();
        let base_seg = if variant == 1 {
            build_dup_segment(1_700_000_000, 0x1234, &base_ids, &keys, 1_700_000_100)?
        } else {
            build_segment(1_700_000_000, 0x1234, &base_ids, &keys, 1_700_000_100)?
        };
        let foreign_seg = build_segment(1_700_000_777, 0x4321, &foreign_ids, &keys, 1_700_000_800)?;
        let mut ext = base_seg.clone();
        let mut ext_ids = base_ids.clone();
        ext_ids.push(30);
        match catch(|| ext.add_entry(as_entry(30, false, false), &keys[&30], Some(kid_of(30)), &[30u8; 16], 1_700_000_100)) {
            Err(p) => return Err(format!("add_entry panicked: {p}")),
            Ok(Err(e)) => return Err(format!("add_entry failed: {e}")),
            Ok(Ok(())) => {}
        }
        let legit = to_msg(&ext, &ext_ids)?.es.pop().ok_or("no entries")?;
        Ok(World {
            n0,
            vks,
            kids,
            wrong,
            base: to_msg(&base_seg, &base_ids)?,
            foreign: to_msg(&foreign_seg, &foreign_ids)?,
            legit,
        })
    }
}

fn rpc_of(m: &Msg) -> cp::PathSegment {
    cp::PathSegment {
        segment_info: m.info.clone(),
        as_entries: m
            .es
            .iter()
            .map(|e| cp::AsEntry {
                signed: Some(cr::SignedMessage { header_and_body: e.hb.clone(), signature: e.sig.clone() }),
                unsigned: None,
            })
            .collect(),
    }
}

// ------------------------------------------------------------------------------------ validation

fn err_class(e: &ValidateError) -> &'static str {
    match e {
        ValidateError::InvalidHeaderAndBody => "hb",
        ValidateError::InvalidHeader => "header",
        ValidateError::InvalidValidationKeyId => "keyid",
        ValidateError::InvalidAssociatedDataLength { .. } => "alen",
        ValidateError::InvalidDigestAlgorithm => "algo",
        ValidateError::InvalidBody => "body",
        ValidateError::InvalidMetadata => "meta",
        ValidateError::KeyMissing(_) => "nokey",
        ValidateError::SignatureMalformed => "sigmal",
        ValidateError::SignatureVerificationFailed(_) => "sigver",
    }
}

/// Verdicts of the three observation points for one entry ("ok" or an error class or "panic").
#[derive(Clone, Debug)]
struct EntryRes {
    /// SignedAsEntry::validate_signature
    vs: String,
    /// SignedMessage::validate with the POSITIONAL associated data computed by the harness
    vm: String,
    /// SignedMessage::decode_validated::<AsEntrySignedBody, ()> (same associated data)
    dv: String,
}

enum Conv {
    Ok(Vec<EntryRes>),
    Err(String),
    Panic(String),
}

fn validate_all(w: &World, m: &Msg, ov: &HashMap<u32, KeyState>) -> Conv {
    let rpc = rpc_of(m);
    let seg = match catch(|| SignedPathSegment::try_from_rpc(rpc)) {
        Err(p) => return Conv::Panic(format!("try_from_rpc: {p}")),
        Ok(Err(e)) => return Conv::Err(e.message.to_string()),
        Ok(Ok(s)) => s,
    };
    let provider = |kid: &[u8]| -> Result<VerifyingKey, ValidateError> {
        let k = cp::VerificationKeyId::decode(kid).map_err(|_| ValidateError::InvalidValidationKeyId)?;
        match w.kids.get(&(k.isd_as, k.subject_key_id)) {
            None => Err(ValidateError::KeyMissing("unknown key id".into())),
            Some(id) => match ov.get(id).copied().unwrap_or(KeyState::Honest) {
                KeyState::Honest => Ok(w.vks[id]),
                KeyState::Wrong => Ok(w.wrong),
                KeyState::Missing => Err(ValidateError::KeyMissing("no key".into())),
            },
        }
    };
    let mut out = vec![];
    for (i, e) in seg.as_entries.iter().enumerate() {
        let vs = match catch(|| e.validate_signature(provider, &seg)) {
            Err(p) => format!("panic:{p}"),
            Ok(Ok(())) => "ok".to_string(),
            Ok(Err(er)) => err_class(&er).to_string(),
        };
        let mut chunks: Vec<&[u8]> = vec![seg.info().encoded.as_slice()];
        for p in &seg.as_entries[..i] {
            chunks.push(p.signature().header_and_body.as_slice());
            chunks.push(p.signature().signature.as_slice());
        }
        let len: usize = chunks.iter().map(|c| c.len()).sum();
        let sm: &SignedMessage = e.signature();
        let vm = match catch(|| sm.validate(provider, (len, chunks.clone().into_iter()))) {
            Err(p) => format!("panic:{p}"),
            Ok(Ok(_)) => "ok".to_string(),
            Ok(Err(er)) => err_class(&er).to_string(),
        };
        let dv = match catch(|| sm.decode_validated::<cp::AsEntrySignedBody, ()>(provider, (len, chunks.clone().into_iter()))) {
            Err(p) => format!("panic:{p}"),
            Ok(Ok((body, _))) => {
                // the validated body is the entry the segment exposes
                if body.isd_as == e.entry().local.to_u64() && body.mtu == e.entry().mtu {
                    "ok".to_string()
                } else {
                    "ok-but-body-differs".to_string()
                }
            }
            Ok(Err(er)) => err_class(&er).to_string(),
        };
        out.push(EntryRes { vs, vm, dv });
    }
    Conv::Ok(out)
}

// ------------------------------------------------------------------------------------ tampers

#[derive(Clone, Copy, PartialEq)]
enum Region {
    Hdr,
    Body,
    Sig,
}

fn region_bits(e: &REntry, r: Region) -> (usize, usize) {
    // (first bit offset inside the byte string, number of bits); Sig indexes e.sig, the others e.hb
    match r {
        Region::Hdr => (0, e.split * 8),
        Region::Body => (e.split * 8, (e.hb.len() - e.split) * 8),
        Region::Sig => (0, e.sig.len() * 8),
    }
}

fn flip(bytes: &mut [u8], bit: usize) {
    bytes[bit / 8] ^= 0x80 >> (bit % 8);
}

fn flip_region(e: &mut REntry, r: Region, off: usize) {
    let (base, n) = region_bits(e, r);
    assert!(off < n);
    match r {
        Region::Sig => flip(&mut e.sig, base + off),
        _ => flip(&mut e.hb, base + off),
    }
}

/// abstract bit index of the model -> offset inside a region of `nbits` bits (stable per entry id/region, injective for small b)
fn abstract_bit(seed: u64, id: u32, region: u64, b: usize, nbits: usize) -> usize {
    let mut r = Rng::new(seed ^ (id as u64) << 8 ^ region << 40 ^ 0xb175);
    ((r.next_u64() as usize) % nbits + b * 7) % nbits
}

struct Tampered {
    m: Msg,
    ov: HashMap<u32, KeyState>,
}

/// Apply one tamper. `concrete`: b is already an offset inside the region (record mode), else abstract (replay mode).
fn apply(w: &World, t: &mut Tampered, op: &str, a: usize, b: usize, concrete: bool, seed: u64) -> Result<(), String> {
    let l = t.m.es.len();
    let bit = |id: u32, region: u64, nbits: usize| -> Result<usize, String> {
        if nbits == 0 {
            return Err("empty region".into());
        }
        if concrete {
            if b < nbits { Ok(b) } else { Err(format!("bit {b} outside region of {nbits} bits")) }
        } else {
            Ok(abstract_bit(seed, id, region, b, nbits))
        }
    };
    match op {
        "FlipBody" | "FlipHdr" | "FlipSig" => {
            if a < 1 || a > l {
                return Err("index".into());
            }
            let r = match op {
                "FlipBody" => Region::Body,
                "FlipHdr" => Region::Hdr,
                _ => Region::Sig,
            };
            let e = &mut t.m.es[a - 1];
            let (_, n) = region_bits(e, r);
            let off = bit(e.id, r as u64 + 1, n)?;
            flip_region(e, r, off);
        }
        "FlipInfo" => {
            let n = t.m.info.len() * 8;
            let off = bit(0, 9, n)?;
            flip(&mut t.m.info, off);
        }
        "Swap" => {
            if !(a >= 1 && a < b && b <= l) {
                return Err("index".into());
            }
            t.m.es.swap(a - 1, b - 1);
        }
        "Truncate" => {
            if a >= l {
                return Err("index".into());
            }
            t.m.es.truncate(a);
        }
        "Remove" => {
            if a < 1 || a > l {
                return Err("index".into());
            }
            t.m.es.remove(a - 1);
        }
        "InsertCopy" => {
            if a < 1 || a > l || b < 1 || b > l + 1 {
                return Err("index".into());
            }
            let c = t.m.es[a - 1].clone();
            t.m.es.insert(b - 1, c);
        }
        "ExtendForeign" => {
            if a < 1 || a > w.n0 {
                return Err("index".into());
            }
            t.m.es.push(w.foreign.es[a - 1].clone());
        }
        "ExtendLegit" => t.m.es.push(w.legit.clone()),
        "SubstKey" => {
            let id = a as u32;
            let cur = t.ov.get(&id).copied().unwrap_or(KeyState::Honest);
            t.ov.insert(id, if cur == KeyState::Wrong { KeyState::Honest } else { KeyState::Wrong });
        }
        "NoKey" => {
            let id = a as u32;
            let cur = t.ov.get(&id).copied().unwrap_or(KeyState::Honest);
            t.ov.insert(id, if cur == KeyState::Missing { KeyState::Honest } else { KeyState::Missing });
        }
        _ => return Err(format!("unknown op {op}")),
    }
    Ok(())
}

/// P-monitor: real verdicts against the positional `Valid` the specification computed.
/// Returns (violations, conformance of outcome classes, segment_rejected)
fn judge(hist_ops: &[String], expect: &[(bool, String)], conv: &Conv) -> (Vec<Value>, bool, bool) {
    let mut ops: Vec<String> = hist_ops.to_vec();
    ops.sort();
    ops.dedup();
    let opkey = if ops.is_empty() { "none".to_string() } else { ops.join("+") };
    let bytes_damaged = hist_ops.iter().any(|o| o == "FlipBody" || o == "FlipHdr" || o == "FlipInfo");
    let mut pv = vec![];
    let mut conf = true;
    match conv {
        Conv::Panic(p) => {
            pv.push(json!({"key": format!("Panic:{opkey}"), "what": format!("panic in the code under test: {p}")}));
            (pv, false, false)
        }
        Conv::Err(msg) => {
            // the whole segment is refused at conversion: nothing validates.  That is a rejection of
            // the tampered entries; it only counts against the code if no byte was damaged.
            if !bytes_damaged && expect.iter().any(|(v, _)| *v) {
                pv.push(json!({"key": format!("RejectsValid:conversion:{opkey}"),
                    "what": format!("try_from_rpc refused a segment whose bytes are intact ({msg}) although some entries are authentic in place")}));
            }
            (pv, true, true)
        }
        Conv::Ok(res) => {
            if res.len() != expect.len() {
                pv.push(json!({"key": format!("EntryCount:{opkey}"), "what": format!("converted segment has {} entries, message had {}", res.len(), expect.len())}));
                return (pv, false, false);
            }
            for (i, (r, (v, o))) in res.iter().zip(expect.iter()).enumerate() {
                for (api, got) in [("validate_signature", &r.vs), ("SignedMessage::validate", &r.vm), ("decode_validated", &r.dv)] {
                    if got.starts_with("panic") {
                        pv.push(json!({"key": format!("Panic:{api}:{opkey}"), "what": format!("{api} panicked on entry {}: {got}", i + 1)}));
                    } else if got == "ok-but-body-differs" {
                        pv.push(json!({"key": format!("BodyMismatch:{opkey}"), "what": format!("entry {}: validated body differs from the entry the segment exposes", i + 1)}));
                    } else if (got == "ok") && !*v {
                        pv.push(json!({"key": format!("AcceptsInvalid:{api}:{opkey}"),
                            "what": format!("{api} accepts the entry at position {} although its signature does not cover (header, body, info, entries 1..{}) under the resolved key", i + 1, i)}));
                    } else if (got != "ok") && *v {
                        pv.push(json!({"key": format!("RejectsValid:{api}:{opkey}"),
                            "what": format!("{api} rejects ({got}) the authentic entry at position {}", i + 1)}));
                    }
                }
                // I-layer outcome class (drift only)
                let cls_ok = match o.as_str() {
                    "ok" => r.vs == "ok",
                    "alen" => r.vs == "alen",
                    "nokey" => r.vs == "nokey",
                    // the model measures associated data in entries, the code in bytes: entries of
                    // different size make the length check fire where the model reaches the signature
                    "sig" => r.vs == "sigmal" || r.vs == "sigver" || r.vs == "alen" || (bytes_damaged && r.vs != "ok"),
                    "hdr" => r.vs != "ok",
                    _ => false,
                };
                if !cls_ok && (r.vs == "ok") == *v {
                    conf = false;
                }
            }
            (pv, conf, false)
        }
    }
}

fn conv_json(c: &Conv) -> Value {
    match c {
        Conv::Ok(r) => json!({"conv": "ok", "entries": r.iter().map(|e| json!({"vs": e.vs, "vm": e.vm, "dv": e.dv})).collect::<Vec<_>>()}),
        Conv::Err(m) => json!({"conv": "err", "msg": m}),
        Conv::Panic(m) => json!({"conv": "panic", "msg": m}),
    }
}

fn parse_expect(v: &Value) -> Vec<(bool, String)> {
    v.as_array()
        .map(|a| a.iter().map(|x| (x["v"].as_bool().unwrap(), x["o"].as_str().unwrap().to_string())).collect())
        .unwrap_or_default()
}

// ------------------------------------------------------------------------------------ replay

fn replay(inp: &str, outp: &str) {
    let lines = vh_core::read_ndjson(inp);
    let seed = vh_core::seed_from_env();
    let mut worlds: HashMap<(usize, u64), Result<World, String>> = HashMap::new();
    let mut w = NdjsonWriter::create(outp);
    for line in lines.iter() {
        if line.get("ev").is_some() {
            continue;
        }
        let n = line["n"].as_u64().unwrap() as usize;
        let variant = line["v"].as_u64().unwrap_or(0);
        let world = match worlds.entry((n, variant)).or_insert_with(|| World::new(n, variant)) {
            Ok(w) => &*w,
            Err(e) => {
                // the library under test cannot even build / export the honest segment
                w.write(&json!({"conv": "nosign", "msg": e, "entries": [], "conf": false, "rejected": false, "rt": "na",
                    "pv": [{"key": "RejectsValid:honest-construction", "what": format!("the honest segment of {n} entries cannot be signed and exported: {e}")}]}));
                continue;
            }
        };
        let mut t = Tampered { m: world.base.clone(), ov: HashMap::new() };
        let hist: Vec<Value> = line["h"].as_array().cloned().unwrap_or_default();
        let mut ops = vec![];
        let mut bad = None;
        for st in &hist {
            let op = st["op"].as_str().unwrap();
            ops.push(op.to_string());
            if let Err(e) = apply(world, &mut t, op, st["a"].as_u64().unwrap() as usize, st["b"].as_u64().unwrap() as usize, false, seed) {
                bad = Some(e);
                break;
            }
        }
        if let Some(e) = bad {
            w.write(&json!({"tool_error": e}));
            continue;
        }
        let expect = parse_expect(&line["e"]);
        let conv = validate_all(world, &t.m, &t.ov);
        let (pv, conf, rejected) = judge(&ops, &expect, &conv);
        let mut o = conv_json(&conv);
        o["pv"] = json!(pv);
        o["conf"] = json!(conf);
        o["rejected"] = json!(rejected);
        // conversion round trip of every segment that converts (value -> rpc -> value)
        o["rt"] = json!(segment_roundtrip(&t.m));
        w.write(&o);
    }
    w.finish();
}

/// value -> RPC -> value on a (possibly tampered) signed segment: "same" | "diff" | "na" (does not convert) | "panic:.."
fn segment_roundtrip(m: &Msg) -> String {
    let rpc = rpc_of(m);
    match catch(|| {
        let Ok(v) = SignedPathSegment::try_from_rpc(rpc) else { return "na".to_string() };
        let back = SignedPathSegment::try_from_rpc(v.clone().into_rpc());
        match back {
            Ok(v2) if v2 == v => "same".to_string(),
            Ok(_) => "diff".to_string(),
            Err(e) => format!("diff:err:{}", e.message),
        }
    }) {
        Ok(s) => s,
        Err(p) => format!("panic:{p}"),
    }
}

// ------------------------------------------------------------------------------------ flips (exhaustive bits)

fn flips(inp: &str, outp: &str) {
    let lines = vh_core::read_ndjson(inp);
    let thorough = vh_core::tier_is_thorough();
    let seed = vh_core::seed_from_env();
    let mut rng = Rng::new(seed ^ 0xf11b5);
    let mut worlds: HashMap<(usize, u64), Result<World, String>> = HashMap::new();
    let mut total = 0u64;
    let mut verifies = 0u64;
    let mut rejected = 0u64;
    let mut by_class: HashMap<String, u64> = HashMap::new();
    let mut per_case = vec![];
    let mut pvs: Vec<Value> = vec![];
    let mut exhaustive_cases = 0u64;
    for line in lines.iter() {
        if line.get("ev").is_some() {
            continue;
        }
        let n = line["n"].as_u64().unwrap() as usize;
        let st = &line["h"][0];
        let op = st["op"].as_str().unwrap().to_string();
        let a = st["a"].as_u64().unwrap() as usize;
        let variant = line["v"].as_u64().unwrap_or(0);
        let world = match worlds.entry((n, variant)).or_insert_with(|| World::new(n, variant)) {
            Ok(w) => &*w,
            Err(e) => {
                if pvs.len() < 50 {
                    pvs.push(json!({"key": "RejectsValid:honest-construction", "what": format!("the honest segment of {n} entries cannot be signed and exported: {e}"),
                        "n": n, "op": op, "a": a, "bit": 0, "real": {"conv": "nosign"}}));
                }
                continue;
            }
        };
        let expect = parse_expect(&line["e"]);
        let nbits = match op.as_str() {
            "FlipInfo" => world.base.info.len() * 8,
            "FlipBody" => region_bits(&world.base.es[a - 1], Region::Body).1,
            "FlipHdr" => region_bits(&world.base.es[a - 1], Region::Hdr).1,
            "FlipSig" => region_bits(&world.base.es[a - 1], Region::Sig).1,
            _ => continue,
        };
        // every bit for segments of at most 3 entries (thorough: of every segment); a seeded sample beyond
        let all = n <= 3 || thorough;
        let offs: Vec<usize> = if all {
            (0..nbits).collect()
        } else {
            let k = if thorough { 96 } else { 24 };
            let mut v: Vec<usize> = (0..k).map(|_| rng.below(nbits as u64) as usize).collect();
            v.sort();
            v.dedup();
            v
        };
        if all {
            exhaustive_cases += 1;
        }
        let mut case_viol = 0;
        for off in &offs {
            let mut t = Tampered { m: world.base.clone(), ov: HashMap::new() };
            apply(world, &mut t, &op, a, *off, true, seed).expect("applicable");
            let conv = validate_all(world, &t.m, &t.ov);
            total += 1;
            match &conv {
                Conv::Ok(r) => {
                    verifies += 3 * r.len() as u64;
                    for e in r {
                        *by_class.entry(e.vs.clone()).or_default() += 1;
                    }
                }
                Conv::Err(_) => {
                    rejected += 1;
                    *by_class.entry("segment_rejected".into()).or_default() += 1;
                }
                Conv::Panic(_) => {}
            }
            let (pv, _conf, _rej) = judge(&[op.clone()], &expect, &conv);
            for mut p in pv {
                case_viol += 1;
                if pvs.len() < 50 {
                    p["n"] = json!(n);
                    p["op"] = json!(op);
                    p["a"] = json!(a);
                    p["bit"] = json!(off);
                    p["real"] = conv_json(&conv);
                    pvs.push(p);
                }
            }
        }
        per_case.push(json!({"n": n, "v": variant, "op": op, "a": a, "bits": offs.len(), "all_bits": all, "violations": case_viol}));
    }
    let out = json!({"flips": total, "verifications": verifies, "segment_rejected": rejected, "classes": by_class,
        "cases": per_case, "exhaustive_cases": exhaustive_cases, "pv": pvs});
    std::fs::write(outp, serde_json::to_string(&out).unwrap()).expect("write");
}

// ------------------------------------------------------------------------------------ RPC conversion cells

fn u64c(c: &str) -> u64 {
    match c {
        "0" => 0,
        "1" => 1,
        "255" => 255,
        "256" => 256,
        "65535" => 65535,
        "65536" => 65536,
        "u32max" => u32::MAX as u64,
        "u32max1" => u32::MAX as u64 + 1,
        "u64max" => u64::MAX,
        _ => panic!("unknown class {c}"),
    }
}

fn i64c(c: &str) -> i64 {
    match c {
        "i64min" => i64::MIN,
        "neg1" => -1,
        "i64max" => i64::MAX,
        o => u64c(o) as i64,
    }
}

fn good_hop_field() -> cp::HopField {
    cp::HopField { ingress: 11, egress: 12, exp_time: 63, mac: vec![1, 2, 3, 4, 5, 6] }
}
fn bad_hop_field() -> cp::HopField {
    cp::HopField { ingress: 70000, egress: 12, exp_time: 63, mac: vec![1, 2, 3, 4, 5, 6] }
}
fn sub_hop_field(c: &str) -> Option<cp::HopField> {
    match c {
        "missing" => None,
        "bad" => Some(bad_hop_field()),
        _ => Some(good_hop_field()),
    }
}
fn good_hop_entry() -> cp::HopEntry {
    cp::HopEntry { hop_field: Some(good_hop_field()), ingress_mtu: 1400 }
}
fn good_peer() -> cp::PeerEntry {
    cp::PeerEntry { peer_isd_as: ia(7).to_u64(), peer_interface: 5, peer_mtu: 1300, hop_field: Some(good_hop_field()) }
}
fn body_of(hop: &str, peers: &str, mtu: &str) -> cp::AsEntrySignedBody {
    cp::AsEntrySignedBody {
        isd_as: ia(3).to_u64(),
        next_isd_as: ia(4).to_u64(),
        hop_entry: match hop {
            "missing" => None,
            "bad" => Some(cp::HopEntry { hop_field: Some(good_hop_field()), ingress_mtu: 70000 }),
            _ => Some(good_hop_entry()),
        },
        peer_entries: match peers {
            "none" => vec![],
            "good" => vec![good_peer(), good_peer()],
            _ => vec![good_peer(), cp::PeerEntry { peer_interface: 1 << 20, ..good_peer() }],
        },
        mtu: u64c(mtu) as u32,
        extensions: None,
    }
}
fn as_entry_msg(signed: &str, hb: &str, body: &str, hop: &str, peers: &str, mtu: &str) -> cp::AsEntry {
    let body_bytes = if body == "garbage" { vec![0xff, 0xff, 0xff] } else { body_of(hop, peers, mtu).encode_to_vec() };
    let hbb = if hb == "garbage" {
        vec![0xff, 0xff, 0xff, 0xff]
    } else {
        cr::HeaderAndBodyInternal { header: vec![], body: body_bytes }.encode_to_vec()
    };
    cp::AsEntry {
        signed: if signed == "missing" { None } else { Some(cr::SignedMessage { header_and_body: hbb, signature: vec![] }) },
        unsigned: None,
    }
}
fn path_segment_msg(info: &str, entries: &str) -> cp::PathSegment {
    cp::PathSegment {
        segment_info: match info {
            "garbage" => vec![0xff],
            "badrange" => cp::SegmentInformation { timestamp: 1 << 32, segment_id: 1 }.encode_to_vec(),
            "empty" => vec![],
            _ => cp::SegmentInformation { timestamp: 1_700_000_000, segment_id: 77 }.encode_to_vec(),
        },
        as_entries: match entries {
            "none" => vec![],
            "good" => vec![as_entry_msg("present", "ok", "ok", "good", "good", "0"), as_entry_msg("present", "ok", "ok", "good", "none", "0")],
            _ => vec![as_entry_msg("present", "ok", "ok", "good", "good", "0"), as_entry_msg("present", "ok", "ok", "missing", "none", "0")],
        },
    }
}

/// Base RPC paths (raw data-plane path + interface list) for the Path cells: produced by the combinator
/// from honest segments ("paths from the C01 instances"); a hand-encoded two-hop path is the fallback
/// if the combinator under test does not deliver.
fn sample_paths() -> Vec<(dm::Path, IsdAsn, IsdAsn)> {
    let from_combinator = catch(|| {
        let mut seg = UnsignedPathSegment::new(1_700_000_000, 7, vec![]);
        for (i, id) in [1u32, 2, 3, 4].iter().enumerate() {
            seg.add_unsigned_entry(as_entry(*id, i == 0, i == 3), &[*id as u8; 16]);
        }
        let mut core = UnsignedPathSegment::new(1_700_000_050, 9, vec![]);
        for (i, id) in [5u32, 1].iter().enumerate() {
            let mut e = as_entry(*id, i == 0, i == 1);
            e.peer_entries.clear();
            core.add_unsigned_entry(e, &[*id as u8; 16]);
        }
        let mut out = combine(ia(4), ia(1), vec![], vec![seg.clone()]);
        out.extend(combine(ia(4), ia(2), vec![], vec![seg.clone()]));
        out.extend(combine(ia(4), ia(5), vec![core], vec![seg]));
        out.iter().map(|p| (p.to_rpc(), p.src_ia(), p.dst_ia())).collect::<Vec<_>>()
    })
    .unwrap_or_default();
    let mut v: Vec<_> = from_combinator.into_iter().filter(|(p, _, _)| !p.raw.is_empty() && p.interfaces.len() >= 2 && p.interfaces.len() % 2 == 0).collect();
    if v.is_empty() {
        // PathMeta (seg0 = 2 hop fields), one info field, two hop fields
        let mut raw = vec![0x00, 0x00, 0x20, 0x00];
        raw.extend_from_slice(&[0x00, 0x00, 0x12, 0x34, 0x65, 0x53, 0xf1, 0x00]);
        raw.extend_from_slice(&[0x00, 63, 0x00, 0x05, 0x00, 0x00, 1, 2, 3, 4, 5, 6]);
        raw.extend_from_slice(&[0x00, 63, 0x00, 0x00, 0x00, 0x07, 6, 5, 4, 3, 2, 1]);
        let p = dm::Path {
            raw,
            interfaces: vec![dm::PathInterface { isd_as: ia(4).to_u64(), id: 5 }, dm::PathInterface { isd_as: ia(1).to_u64(), id: 7 }],
            ..Default::default()
        };
        v.push((p, ia(4), ia(1)));
    }
    v
}

/// Outcome of one conversion: "ok"/"err"/"panic", round trip of the converted value, detail
struct RpcOut {
    got: String,
    rt: String,
    detail: String,
}

fn run_conv<V: PartialEq + Clone, M: Clone>(m: M, from: impl Fn(M) -> Result<V, String>, to: impl Fn(V) -> M) -> RpcOut {
    match catch(|| {
        match from(m) {
            Err(e) => RpcOut { got: "err".into(), rt: "na".into(), detail: e },
            Ok(v) => {
                let back = from(to(v.clone()));
                let rt = match back {
                    Ok(v2) if v2 == v => "same".to_string(),
                    Ok(_) => "diff".to_string(),
                    Err(e) => format!("diff:err:{e}"),
                };
                RpcOut { got: "ok".into(), rt, detail: String::new() }
            }
        }
    }) {
        Ok(o) => o,
        Err(p) => RpcOut { got: "panic".into(), rt: "na".into(), detail: p },
    }
}

fn path_cell(f: &[String], sample: &(dm::Path, IsdAsn, IsdAsn)) -> (dm::Path, IsdAsn, IsdAsn) {
    let base = sample.0.clone();
    let n = base.interfaces.len();
    let mut p = dm::Path { raw: base.raw.clone(), interfaces: base.interfaces.clone(), mtu: 1400, ..Default::default() };
    match f[0].as_str() {
        "empty" => p.raw = vec![],
        "garbage" => p.raw = vec![0xff; 7],
        "trailing" => p.raw.extend_from_slice(&[0, 0, 0, 0]),
        _ => {}
    }
    let (src, dst) = match f[1].as_str() {
        "same" => (sample.1, sample.1),
        "wild" => (IsdAsn::from_u64(0), IsdAsn::from_u64(0)),
        _ => (sample.1, sample.2),
    };
    p.interface = match f[2].as_str() {
        "none" => None,
        "noaddr" => Some(dm::Interface { address: None }),
        "valid" => Some(dm::Interface { address: Some(dm::Underlay { address: "10.1.2.3:30041".into() }) }),
        _ => Some(dm::Interface { address: Some(dm::Underlay { address: "not an address".into() }) }),
    };
    match f[3].as_str() {
        "zero" => p.interfaces.clear(),
        "odd" => {
            p.interfaces.pop();
        }
        "badid" => p.interfaces[1].id = 1 << 16,
        _ => {}
    }
    p.expiration = match f[4].as_str() {
        "missing" => None,
        "negative" => Some(prost_types::Timestamp { seconds: -5, nanos: 0 }),
        _ => Some(prost_types::Timestamp { seconds: 1_800_000_000, nanos: 0 }),
    };
    if f[5] == "big" {
        p.mtu = 1 << 16;
    }
    let adj = |exact: usize| -> usize {
        match f[6].as_str() {
            "match" => exact,
            "short" => exact.saturating_sub(1),
            "long" => exact + 1,
            _ => 0,
        }
    };
    let ni = p.interfaces.len().max(n);
    let lts = [1, 2, 3, 0, 4, 255, 256, 257, -1, i32::MAX];
    let lt_off = (f.iter().map(|x| x.len()).sum::<usize>()) % lts.len();
    p.latency = (0..adj(ni.saturating_sub(1)))
        .map(|i| match (i + lt_off) % 5 {
            2 => prost_types::Duration { seconds: -1, nanos: 0 },
            3 => prost_types::Duration { seconds: 1, nanos: -5 },
            4 => prost_types::Duration { seconds: i64::MAX, nanos: 999_999_999 },
            _ => prost_types::Duration { seconds: i as i64, nanos: 5000 * i as i32 },
        })
        .collect();
    p.bandwidth = (0..adj(ni.saturating_sub(1))).map(|i| if i % 4 == 3 { u64::MAX } else { (i as u64 % 3) * 1000 }).collect();
    p.geo = (0..adj(ni)).map(|i| dm::GeoCoordinates { latitude: i as f32 * 1.5, longitude: -(i as f32), address: if i % 2 == 0 { String::new() } else { format!("site {i}") } }).collect();
    // boundary-directed link types: known values, unknown in and beyond the u8 range, negative
    p.link_type = (0..adj(ni / 2)).map(|i| lts[(i + lt_off) % lts.len()]).collect();
    p.internal_hops = (0..adj((ni / 2).saturating_sub(1))).map(|i| i as u32 + 1).collect();
    p.notes = (0..adj(ni / 2 + 1)).map(|i| format!("note {i}")).collect();
    (p, src, dst)
}

fn conv_path(p: dm::Path, src: IsdAsn, dst: IsdAsn) -> RpcOut {
    match catch(|| match ScionPath::try_from_rpc(p, src, dst) {
        Err(e) => RpcOut { got: "err".into(), rt: "na".into(), detail: e.message.to_string() },
        Ok(v) => {
            let back = ScionPath::try_from_rpc(v.to_rpc(), v.src_ia(), v.dst_ia());
            let rt = match back {
                Ok(v2) if v2 == v => "same".to_string(),
                Ok(v2) => format!("diff:{}", path_diff(&v, &v2)),
                Err(e) => format!("diff:err:{}", e.message),
            };
            RpcOut { got: "ok".into(), rt, detail: String::new() }
        }
    }) {
        Ok(o) => o,
        Err(pn) => RpcOut { got: "panic".into(), rt: "na".into(), detail: pn },
    }
}

/// names the first component in which two paths differ (canonical, for violation keys)
fn path_diff(a: &ScionPath, b: &ScionPath) -> String {
    if a.dp_path() != b.dp_path() {
        return "dp_path".into();
    }
    if a.next_hop() != b.next_hop() {
        return "next_hop".into();
    }
    match (a.metadata(), b.metadata()) {
        (Some(x), Some(y)) => {
            if x.expiration != y.expiration {
                return "expiration".into();
            }
            if x.mtu != y.mtu {
                return "mtu".into();
            }
            if x.notes != y.notes {
                return "notes".into();
            }
            if x.epic_auth != y.epic_auth {
                return "epic_auth".into();
            }
            match (&x.interfaces, &y.interfaces) {
                (Some(i), Some(j)) => {
                    if i.len() != j.len() {
                        return "interfaces.len".into();
                    }
                    for (p, q) in i.iter().zip(j.iter()) {
                        if p.interface != q.interface {
                            return "interfaces.id".into();
                        }
                        if p.latency != q.latency {
                            return "latency".into();
                        }
                        if p.bandwidth != q.bandwidth {
                            return "bandwidth".into();
                        }
                        if p.geo_info != q.geo_info {
                            return "geo".into();
                        }
                        if p.link != q.link {
                            return "link".into();
                        }
                    }
                    "other".into()
                }
                _ => "interfaces".into(),
            }
        }
        (None, None) => "other".into(),
        _ => "metadata".into(),
    }
}

fn run_cell(k: &str, f: &[String], sample: &(dm::Path, IsdAsn, IsdAsn)) -> RpcOut {
    let es = |e: sciparse::rpc::FromRpcError| e.message.to_string();
    match k {
        "HopField" => {
            let mac = match f[0].as_str() {
                "len0" => vec![],
                "len5" => vec![1; 5],
                "len6" => vec![1; 6],
                _ => vec![1; 7],
            };
            let m = cp::HopField { mac, exp_time: u64c(&f[1]) as u32, ingress: u64c(&f[2]), egress: u64c(&f[3]) };
            run_conv(m, |m| SegmentHopField::try_from(m).map_err(es), |v| v.into_rpc())
        }
        "HopEntry" => {
            let m = cp::HopEntry { hop_field: sub_hop_field(&f[0]), ingress_mtu: u64c(&f[1]) as u32 };
            run_conv(m, |m| HopEntry::try_from(m).map_err(es), |v| v.into_rpc())
        }
        "PeerEntry" => {
            let m = cp::PeerEntry { hop_field: sub_hop_field(&f[0]), peer_interface: u64c(&f[1]), peer_mtu: u64c(&f[2]) as u32, peer_isd_as: u64c(&f[3]) };
            run_conv(m, |m| PeerEntry::try_from(m).map_err(es), |v| v.into_rpc())
        }
        "SegInfo" => {
            let m = cp::SegmentInformation { timestamp: i64c(&f[0]), segment_id: u64c(&f[1]) as u32 };
            run_conv(m, |m| SegmentInfo::try_from(m).map_err(es), |v| v.into_rpc())
        }
        "AsEntry" => {
            let m = as_entry_msg(&f[0], &f[1], &f[2], &f[3], &f[4], &f[5]);
            run_conv(m, |m| SignedAsEntry::try_from(m).map_err(es), |v| v.into_rpc())
        }
        "PathSegment" => {
            let m = path_segment_msg(&f[0], &f[1]);
            run_conv(m, |m| SignedPathSegment::try_from(m).map_err(es), |v| v.into_rpc())
        }
        "Segments" => {
            let key = match f[0].as_str() {
                "up" => 1,
                "down" => 2,
                "core" => 3,
                "unspecified" => 0,
                _ => 77,
            };
            let seg = if f[1] == "good" { path_segment_msg("ok", "good") } else { path_segment_msg("ok", "onebad") };
            let mut map = HashMap::new();
            map.insert(key, cp::segments_response::Segments { segments: vec![seg] });
            let m = cp::SegmentsResponse { segments: map, deprecated_signed_revocations: vec![] };
            let o1 = run_conv(m.clone(), |m| SegmentsPage::try_from(m).map_err(es), |v| v.into_rpc());
            let o2 = run_conv(m.segments, |m| Segments::try_from(m).map_err(es), |v| v.into_rpc());
            if o1.got != o2.got {
                return RpcOut { got: format!("{}|{}", o1.got, o2.got), rt: "na".into(), detail: "SegmentsPage and Segments disagree".into() };
            }
            if o2.rt != "same" { o2 } else { o1 }
        }
        "PathInterface" => {
            let m = dm::PathInterface { id: u64c(&f[0]), isd_as: u64c(&f[1]) };
            run_conv(m, |m| PathInterface::try_from(m).map_err(es), |v| v.to_rpc())
        }
        "Path" => {
            let (p, src, dst) = path_cell(f, sample);
            conv_path(p, src, dst)
        }
        _ => RpcOut { got: "tool".into(), rt: "na".into(), detail: format!("unknown kind {k}") },
    }
}

fn rpc(inp: &str, outp: &str) {
    let lines = vh_core::read_ndjson(inp);
    let samples = sample_paths();
    let mut w = NdjsonWriter::create(outp);
    for (i, line) in lines.iter().enumerate() {
        let k = line["k"].as_str().unwrap();
        let f: Vec<String> = line["f"].as_array().unwrap().iter().map(|x| x.as_str().unwrap().to_string()).collect();
        let o = run_cell(k, &f, &samples[i % samples.len()]);
        w.write(&json!({"k": k, "f": f, "got": o.got, "rt": o.rt, "detail": o.detail}));
    }
    w.finish();
}

// ------------------------------------------------------------------------------------ record (traces)

fn record(events: &str, rpcev: &str, results: &str) {
    let seed = vh_core::seed_from_env();
    let thorough = vh_core::tier_is_thorough();
    let mut rng = Rng::new(seed ^ 0x7ace);
    let runs = if thorough { 1500 } else { 250 };
    let mut w = NdjsonWriter::create(events);
    w.write(&json!({"ev": "meta", "spec": "SignedSegment", "seed": seed, "nmax": 7}));
    let mut worlds: HashMap<(usize, u64), Result<World, String>> = HashMap::new();
    let mut pvs: Vec<Value> = vec![];
    let mut n_events = 0u64;
    let mut n_validations = 0u64;
    let mut nontrivial = 0u64;
    let mut op_counts: HashMap<String, u64> = HashMap::new();
    let names = ["FlipBody", "FlipHdr", "FlipSig", "FlipInfo", "Swap", "Truncate", "Remove", "InsertCopy", "ExtendForeign", "ExtendLegit", "SubstKey", "NoKey"];
    for run in 0..runs {
        let n0 = rng.range(1, 7) as usize;
        let variant = if n0 >= 3 && rng.chance(1, 3) { 1 } else { 0 };
        let world = match worlds.entry((n0, variant)).or_insert_with(|| World::new(n0, variant)) {
            Ok(w) => &*w,
            Err(e) => {
                if pvs.len() < 20 {
                    pvs.push(json!({"key": "RejectsValid:honest-construction", "what": format!("the honest segment of {n0} entries cannot be signed and exported: {e}"), "run": run}));
                }
                continue;
            }
        };
        let mut t = Tampered { m: world.base.clone(), ov: HashMap::new() };
        w.write(&json!({"ev": "reset", "n": n0, "v": variant, "run": run}));
        n_events += 1;
        let steps = rng.range(0, 4);
        let mut hist = vec![];
        for _ in 0..steps {
            let l = t.m.es.len();
            // choose an applicable tamper
            let mut tries = 0;
            loop {
                tries += 1;
                if tries > 50 {
                    break;
                }
                let op = *rng.pick(&names);
                let (a, b): (usize, usize) = match op {
                    "FlipBody" | "FlipHdr" | "FlipSig" => {
                        if l == 0 {
                            continue;
                        }
                        let a = rng.range(1, l as u64) as usize;
                        let r = match op {
                            "FlipBody" => Region::Body,
                            "FlipHdr" => Region::Hdr,
                            _ => Region::Sig,
                        };
                        let nb = region_bits(&t.m.es[a - 1], r).1;
                        (a, rng.below(nb as u64) as usize)
                    }
                    "FlipInfo" => (0, rng.below(t.m.info.len() as u64 * 8) as usize),
                    "Swap" => {
                        if l < 2 {
                            continue;
                        }
                        let a = rng.range(1, l as u64 - 1) as usize;
                        (a, rng.range(a as u64 + 1, l as u64) as usize)
                    }
                    "Truncate" => {
                        if l == 0 {
                            continue;
                        }
                        (rng.below(l as u64) as usize, 0)
                    }
                    "Remove" => {
                        if l == 0 {
                            continue;
                        }
                        (rng.range(1, l as u64) as usize, 0)
                    }
                    "InsertCopy" => {
                        if l == 0 || l >= 10 {
                            continue;
                        }
                        (rng.range(1, l as u64) as usize, rng.range(1, l as u64 + 1) as usize)
                    }
                    "ExtendForeign" => {
                        if l >= 10 {
                            continue;
                        }
                        (rng.range(1, n0 as u64) as usize, 0)
                    }
                    "ExtendLegit" => {
                        if l >= 10 {
                            continue;
                        }
                        (0, 0)
                    }
                    _ => (rng.range(1, n0 as u64) as usize, 0),
                };
                apply(world, &mut t, op, a, b, true, seed).expect("chosen applicable");
                w.write(&json!({"ev": "tamper", "op": op, "a": a, "b": b}));
                n_events += 1;
                *op_counts.entry(op.to_string()).or_default() += 1;
                hist.push(json!({"op": op, "a": a, "b": b}));
                break;
            }
        }
        if !hist.is_empty() {
            nontrivial += 1;
        }
        let conv = validate_all(world, &t.m, &t.ov);
        let ev = match &conv {
            Conv::Ok(r) => {
                n_validations += r.len() as u64;
                json!({"ev": "validate", "conv": "ok", "len": r.len(),
                       "vs": r.iter().map(|e| e.vs == "ok").collect::<Vec<_>>(),
                       "vm": r.iter().map(|e| e.vm == "ok").collect::<Vec<_>>(),
                       "dv": r.iter().map(|e| e.dv == "ok").collect::<Vec<_>>(),
                       "cls": r.iter().map(|e| e.vs.clone()).collect::<Vec<_>>()})
            }
            Conv::Err(m) => json!({"ev": "validate", "conv": "err", "len": t.m.es.len(), "msg": m, "vs": [], "vm": [], "dv": [], "cls": []}),
            Conv::Panic(m) => {
                pvs.push(json!({"key": "Panic:record", "what": format!("panic in the code under test: {m}"), "run": run, "hist": hist}));
                json!({"ev": "validate", "conv": "panic", "len": t.m.es.len(), "msg": m, "vs": [], "vm": [], "dv": [], "cls": []})
            }
        };
        if let Conv::Ok(r) = &conv {
            for e in r {
                for g in [&e.vs, &e.vm, &e.dv] {
                    if g.starts_with("panic") || g == "ok-but-body-differs" {
                        pvs.push(json!({"key": format!("Panic:record:{g}"), "what": format!("validation: {g}"), "run": run, "hist": hist}));
                    }
                }
            }
        }
        w.write(&ev);
        n_events += 1;
    }
    w.finish();

    // ---- seeded RPC messages: features extracted by the harness, outcome logged, validated by Trace_RpcConv
    let samples = sample_paths();
    let mut w2 = NdjsonWriter::create(rpcev);
    let nrpc = if thorough { 20000 } else { 4000 };
    let kinds = ["HopField", "HopEntry", "PeerEntry", "SegInfo", "AsEntry", "PathSegment", "Segments", "PathInterface", "Path", "Path", "Path"];
    let u64s = ["0", "1", "255", "256", "65535", "65536", "u32max", "u32max1", "u64max"];
    let u32s = ["0", "1", "255", "256", "65535", "65536", "u32max"];
    let mut rpc_panics = 0u64;
    let mut rpc_ok = 0u64;
    for i in 0..nrpc {
        let k = *rng.pick(&kinds);
        let p = |rng: &mut Rng, xs: &[&str]| rng.pick(xs).to_string();
        let f: Vec<String> = match k {
            "HopField" => vec![p(&mut rng, &["len0", "len5", "len6", "len6", "len6", "len7"]), p(&mut rng, &u32s), p(&mut rng, &u64s), p(&mut rng, &u64s)],
            "HopEntry" => vec![p(&mut rng, &["missing", "bad", "good", "good"]), p(&mut rng, &u32s)],
            "PeerEntry" => vec![p(&mut rng, &["missing", "bad", "good", "good"]), p(&mut rng, &u64s), p(&mut rng, &u32s), p(&mut rng, &u64s)],
            "SegInfo" => vec![p(&mut rng, &["i64min", "neg1", "0", "1", "65536", "u32max", "u32max1", "i64max"]), p(&mut rng, &u32s)],
            "AsEntry" => vec![p(&mut rng, &["missing", "present", "present", "present"]), p(&mut rng, &["garbage", "ok", "ok", "ok"]), p(&mut rng, &["garbage", "ok", "ok", "ok"]),
                              p(&mut rng, &["missing", "bad", "good", "good"]), p(&mut rng, &["none", "good", "onebad"]), p(&mut rng, &u32s)],
            "PathSegment" => vec![p(&mut rng, &["garbage", "badrange", "ok", "ok", "empty"]), p(&mut rng, &["none", "good", "good", "onebad"])],
            "Segments" => vec![p(&mut rng, &["up", "down", "core", "unspecified", "unknown"]), p(&mut rng, &["good", "bad"])],
            "PathInterface" => vec![p(&mut rng, &u64s), p(&mut rng, &["0", "u64max"])],
            _ => vec![p(&mut rng, &["empty", "garbage", "valid", "valid", "valid", "valid", "trailing"]), p(&mut rng, &["same", "diff", "diff", "wild"]),
                      p(&mut rng, &["none", "noaddr", "valid", "valid", "garbage"]), p(&mut rng, &["zero", "odd", "even", "even", "even", "even", "badid"]),
                      p(&mut rng, &["missing", "present", "present", "present", "negative"]), p(&mut rng, &["ok", "ok", "ok", "big"]),
                      p(&mut rng, &["match", "match", "short", "long", "empty"])],
        };
        let o = run_cell(k, &f, &samples[i % samples.len()]);
        if o.got == "panic" {
            rpc_panics += 1;
        }
        if o.got == "ok" {
            rpc_ok += 1;
        }
        w2.write(&json!({"k": k, "f": f, "got": o.got, "rt": o.rt, "detail": o.detail}));
    }
    // ---- byte-level hostile messages: valid encodings damaged (bit flips, truncation, splices), decoded by
    //      prost and, if they decode, converted.  No table expectation (kind "Bytes"): only the P-layer applies.
    let nbytes = if thorough { 30000 } else { 6000 };
    let mut bytes_decoded = 0u64;
    if let Some(Ok(world)) = worlds.get(&(3, 0)).or(worlds.values().find(|w| w.is_ok())) {
        let seg_bytes = rpc_of(&world.base).encode_to_vec();
        let mut map = HashMap::new();
        map.insert(1, cp::segments_response::Segments { segments: vec![rpc_of(&world.base), rpc_of(&world.foreign)] });
        let resp_bytes = cp::SegmentsResponse { segments: map, deprecated_signed_revocations: vec![] }.encode_to_vec();
        let path_bytes: Vec<Vec<u8>> = samples
            .iter()
            .map(|smp| path_cell(&["valid".into(), "diff".into(), "valid".into(), "even".into(), "present".into(), "ok".into(), "match".into()], smp).0.encode_to_vec())
            .collect();
        for i in 0..nbytes {
            let which = i % 3;
            let mut b = match which {
                0 => seg_bytes.clone(),
                1 => resp_bytes.clone(),
                _ => path_bytes[(i / 3) % path_bytes.len()].clone(),
            };
            for _ in 0..rng.range(1, 4) {
                match rng.below(4) {
                    0 | 1 => {
                        let bit = rng.below(b.len() as u64 * 8) as usize;
                        flip(&mut b, bit);
                    }
                    2 => {
                        let keep = rng.below(b.len() as u64) as usize;
                        b.truncate(keep.max(1));
                    }
                    _ => {
                        let at = rng.below(b.len() as u64) as usize;
                        let n = rng.range(1, 6) as usize;
                        let junk = rng.bytes(n);
                        b.splice(at..at, junk);
                    }
                }
            }
            let smp = &samples[(i / 3) % samples.len()];
            let o = match which {
                0 => match cp::PathSegment::decode(&b[..]) {
                    Err(_) => None,
                    Ok(m) => Some(run_conv(m, |m| SignedPathSegment::try_from(m).map_err(|e| e.message.to_string()), |v| v.into_rpc())),
                },
                1 => match cp::SegmentsResponse::decode(&b[..]) {
                    Err(_) => None,
                    Ok(m) => Some(run_conv(m, |m| SegmentsPage::try_from(m).map_err(|e| e.message.to_string()), |v| v.into_rpc())),
                },
                _ => match dm::Path::decode(&b[..]) {
                    Err(_) => None,
                    // NaN coordinates make a path unequal to itself; they are outside the round-trip reading
                    Ok(m) if m.geo.iter().any(|g| g.latitude.is_nan() || g.longitude.is_nan()) => None,
                    Ok(m) => Some(conv_path(m, smp.1, smp.2)),
                },
            };
            if let Some(o) = o {
                bytes_decoded += 1;
                if o.got == "panic" {
                    rpc_panics += 1;
                }
                let msg_kind = ["PathSegment", "SegmentsResponse", "Path"][which];
                w2.write(&json!({"k": "Bytes", "f": [msg_kind], "got": o.got, "rt": o.rt, "detail": o.detail}));
            }
        }
    }
    w2.finish();

    let out = json!({"runs": runs, "events": n_events, "bytes_msgs": nbytes, "bytes_decoded": bytes_decoded, "validations": n_validations, "nontrivial_runs": nontrivial,
        "ops": op_counts, "pv": pvs, "rpc_msgs": nrpc, "rpc_ok": rpc_ok, "rpc_panics": rpc_panics});
    std::fs::write(results, serde_json::to_string(&out).unwrap()).expect("write");
}

fn main() {
    vh_core::quiet_panics();
    let args: Vec<String> = std::env::args().collect();
    match args.get(1).map(|s| s.as_str()) {
        Some("replay") if args.len() == 4 => replay(&args[2], &args[3]),
        Some("flips") if args.len() == 4 => flips(&args[2], &args[3]),
        Some("rpc") if args.len() == 4 => rpc(&args[2], &args[3]),
        Some("record") if args.len() == 5 => record(&args[2], &args[3], &args[4]),
        _ => {
            eprintln!("usage: signedseg replay|flips|rpc <in> <out> | record <events> <rpc-events> <results>");
            std::process::exit(2);
        }
    }
}
